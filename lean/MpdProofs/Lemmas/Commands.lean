import Mpd.Commands
import Mpd.CommandParts
import MpdSpec.Requests
import MpdProofs.Lemmas.Bytes
import MpdProofs.Lemmas.Tok
import MpdProofs.Lemmas.Filter
import MpdProofs.C06
import MpdProofs.C11
/-!
# Lemmas for C15

1. `Enc r a`: the rendered bytes `r` are one parameter for MPD's tokenizer, read back as `a`
   (string arguments outside K1, "plain" renderings, filter arguments), and the generic line lemma
   `tokenizeLine_encLine`: a valid name followed by such renderings tokenizes back to the name and
   the read-back arguments.
2. `Part` / `shape`: every predefined command as a name and a list of typed argument pieces,
   `command_eq_assemble` (the `command()` bodies are exactly "name, then the pieces in order").
3. what the specification's readers (`readNat`, `readRange`, `readDecimal`) make of the renderings.
-/
namespace Mpd.CmdsL
open Mpd Mpd.Cmd Mpd.Commands Spec.Tok Mpd.TokL

/-! ## 1. one rendered argument as MPD reads it -/

/-- `r` is clean (passes `validate_argument`), starts and ends with a non-blank, and MPD's
`NextParam` reads it back as `a` whatever follows -/
structure Enc (r a : Bytes) : Prop where
  clean : Clean r
  head : ∃ b t, r = b :: t ∧ isWs b = false
  ends : EndsNW r
  read : ∀ rest, WsOrEnd rest → nextParam (r ++ rest) = some (a, stripLeft rest)

/-- the bytes the arguments add to the command buffer -/
def encArgs (rs : List Bytes) : Bytes := rs.flatMap fun r => SPACE :: r

@[simp] theorem encArgs_nil : encArgs [] = [] := rfl
@[simp] theorem encArgs_cons (r : Bytes) (rs : List Bytes) : encArgs (r :: rs) = SPACE :: (r ++ encArgs rs) := by
  simp [encArgs]
theorem encArgs_append (xs ys : List Bytes) : encArgs (xs ++ ys) = encArgs xs ++ encArgs ys := by
  simp [encArgs]

theorem encArgs_wsOrEnd (rs : List Bytes) : WsOrEnd (encArgs rs) := by
  cases rs with
  | nil => exact .inl rfl
  | cons r rs => exact .inr ⟨SPACE, _, encArgs_cons r rs, ws_SPACE⟩

/-- a list of (rendering, read-back argument) pairs -/
abbrev Pairs := List (Bytes × Bytes)

def Pairs.rs (ps : Pairs) : List Bytes := ps.map (·.1)
def Pairs.as (ps : Pairs) : List Bytes := ps.map (·.2)

theorem stripLeft_encArgs (ps : Pairs) (h : ∀ p ∈ ps, Enc p.1 p.2) :
    stripLeft (encArgs ps.rs) = (encArgs ps.rs).tail := by
  cases ps with
  | nil => rfl
  | cons p ps =>
    obtain ⟨b, t, hb, hws⟩ := (h p (by simp)).head
    simp [Pairs.rs, stripLeft_ws ws_SPACE, hb, stripLeft_head hws]

theorem params_nil (fuel : Nat) : params fuel [] = some [] := by
  cases fuel <;> rfl

theorem params_succ {l : Bytes} (fuel : Nat) (h : l ≠ []) :
    params (fuel + 1) l =
      match nextParam l with
      | none => none
      | some (a, rest) => (params fuel rest).map (a :: ·) := by
  cases l with
  | nil => exact absurd rfl h
  | cons b bs => rfl

theorem params_encArgs (ps : Pairs) (h : ∀ p ∈ ps, Enc p.1 p.2) (fuel : Nat) (hf : ps.length ≤ fuel) :
    params fuel (encArgs ps.rs).tail = some ps.as := by
  induction ps generalizing fuel with
  | nil => simp [Pairs.rs, Pairs.as, params_nil]
  | cons p ps ih =>
    cases fuel with
    | zero => simp at hf
    | succ fuel =>
      have hp := h p (by simp)
      have hrest : ∀ q ∈ ps, Enc q.1 q.2 := fun q hq => h q (by simp [hq])
      obtain ⟨b, t, hb, _⟩ := hp.head
      have hne : (encArgs (Pairs.rs (p :: ps))).tail ≠ [] := by simp [Pairs.rs, hb]
      rw [params_succ fuel hne]
      have htail : (encArgs (Pairs.rs (p :: ps))).tail = p.1 ++ encArgs (Pairs.rs ps) := by simp [Pairs.rs]
      rw [htail, hp.read _ (encArgs_wsOrEnd _), stripLeft_encArgs ps hrest]
      simp only
      rw [ih hrest fuel (by simpa using hf)]
      simp [Pairs.as]

theorem length_le_encArgs (rs : List Bytes) : rs.length ≤ (encArgs rs).length := by
  induction rs with
  | nil => simp
  | cons r rs ih => simp only [encArgs_cons, List.length_cons, List.length_append]; omega

theorem encArgs_endsNW (ps : Pairs) (h : ∀ p ∈ ps, Enc p.1 p.2) (hne : ps ≠ []) : EndsNW (encArgs ps.rs) := by
  rcases List.eq_nil_or_concat ps with h' | ⟨init, p, rfl⟩
  · exact absurd h' hne
  · rw [List.concat_eq_append]
    simp only [Pairs.rs, List.map_append, List.map_cons, List.map_nil, encArgs_append]
    apply EndsNW.append_left
    simp only [encArgs_cons, encArgs_nil, List.append_nil]
    exact EndsNW.append_left [SPACE] (h p (by simp)).ends

theorem encArgs_no_nul (ps : Pairs) (h : ∀ p ∈ ps, Enc p.1 p.2) : (0 : UInt8) ∉ encArgs ps.rs := by
  induction ps with
  | nil => simp [Pairs.rs]
  | cons p ps ih =>
    have := ih fun q hq => h q (by simp [hq])
    simp only [Pairs.rs, List.map_cons, encArgs_cons, List.mem_cons, List.mem_append, not_or]
    exact ⟨by decide, (h p (by simp)).clean.2, this⟩

theorem encArgs_no_lf (ps : Pairs) (h : ∀ p ∈ ps, Enc p.1 p.2) : LF ∉ encArgs ps.rs := by
  induction ps with
  | nil => simp [Pairs.rs]
  | cons p ps ih =>
    have := ih fun q hq => h q (by simp [hq])
    simp only [Pairs.rs, List.map_cons, encArgs_cons, List.mem_cons, List.mem_append, not_or]
    exact ⟨by decide, (h p (by simp)).clean.1, this⟩

/-- **generic line lemma**: a valid name followed by arguments each of which MPD reads back as
`a_i` is tokenized into exactly the name and `a_1 … a_n` -/
theorem tokenizeLine_encLine {n : Bytes} (hn : NameOk n) (ps : Pairs) (h : ∀ p ∈ ps, Enc p.1 p.2) :
    tokenizeLine (n ++ encArgs ps.rs) = some (n, ps.as) := by
  have hends : EndsNW (n ++ encArgs ps.rs) := by
    cases ps with
    | nil => simpa [Pairs.rs] using hn.endsNW
    | cons p ps => exact EndsNW.append_left n (encArgs_endsNW _ h (by simp))
  have hnul : (0 : UInt8) ∉ n ++ encArgs ps.rs := by
    simp only [List.mem_append, not_or]
    exact ⟨hn.no_nul, encArgs_no_nul ps h⟩
  unfold tokenizeLine
  simp only [hends.stripRight, cstr_of_no_nul _ hnul]
  rw [nextWord_name hn _ (encArgs_wsOrEnd _), stripLeft_encArgs ps h]
  have hfuel : ps.length ≤ (encArgs ps.rs).tail.length + 1 := by
    have h1 := length_le_encArgs ps.rs
    have h2 : ps.rs.length = ps.length := by simp [Pairs.rs]
    simp only [List.length_tail]; omega
  simp only [params_encArgs ps h _ hfuel, Option.map_some]

/-- … and on the wire: `Connection::send` writes exactly one request line -/
theorem tokenizeStream_encLine {n : Bytes} (hn : NameOk n) (ps : Pairs) (h : ∀ p ∈ ps, Enc p.1 p.2) :
    tokenizeStream (sendBytes (n ++ encArgs ps.rs)) = some [some (n, ps.as)] := by
  have hlf : LF ∉ n ++ encArgs ps.rs := by
    simp only [List.mem_append, not_or]
    exact ⟨hn.no_lf, encArgs_no_lf ps h⟩
  unfold tokenizeStream sendBytes
  rw [splitLines_one _ hlf]
  simp [tokenizeLine_encLine hn ps h]

/-! ### string arguments outside K1 -/

theorem Enc.ofStr {a : Bytes} (hacc : C06.accepted a) (hk : isK1 a = false) : Enc (escapeArgument a) a where
  clean := (clean_escapeArgument a).mpr hacc
  head := escapeArgument_head a
  ends := escapeArgument_endsNW a
  read := by
    intro rest hr
    rw [escapeArgument_eq]
    by_cases hq : needsQuotes a = true
    · simp only [hq, if_true, List.cons_append, List.append_assoc, List.nil_append, nextParam,
        beq_self_eq_true]
      rw [stringBody_escBody a _ hr]
    · have hq' : needsQuotes a = false := by simpa using hq
      have he : a.any shouldEscape = false := by simpa [isK1, hq'] using hk
      obtain ⟨hne, hws⟩ := (needsQuotes_false_iff a).mp hq'
      simp only [hq', Bool.false_eq_true, if_false, escBody_plain a he]
      have hall : a.all validUnquoted = true := by
        apply List.all_eq_true.mpr
        intro b hb
        have := List.any_eq_false.mp he b hb
        obtain ⟨_, h2, h3⟩ := (shouldEscape_false_iff b).mp (by simpa using this)
        exact (validUnquoted_iff b).mpr ⟨hws b hb, h2, h3⟩
      have hrun := nextUnquoted_run a rest hne hws hr
      rw [hall, if_pos rfl] at hrun
      cases a with
      | nil => exact absurd rfl hne
      | cons b bs =>
        have hb : b ≠ QUOTE := ((validUnquoted_iff b).mp (List.all_eq_true.mp hall b (by simp))).2.1
        have hb' : (b == QUOTE) = false := by simpa using hb
        simpa only [List.cons_append, nextParam, hb', Bool.false_eq_true, if_false] using hrun

/-! ### plain renderings: numerals, ranges, signs, decimals, keywords, tag names -/

/-- a byte that needs neither quoting nor escaping and is no blank -/
def plainByte (b : UInt8) : Bool := !(isWs b) && !(shouldEscape b)

/-- non-empty and made of plain bytes: `escape_argument` leaves it alone and MPD reads it as is -/
def Plain (r : Bytes) : Prop := r ≠ [] ∧ ∀ b ∈ r, plainByte b = true

instance (r : Bytes) : Decidable (Plain r) := by unfold Plain; infer_instance

theorem plainByte_iff (b : UInt8) : plainByte b = true ↔ isWs b = false ∧ shouldEscape b = false := by
  simp [plainByte]

theorem Plain.needsQuotes {r : Bytes} (h : Plain r) : needsQuotes r = false :=
  (needsQuotes_false_iff r).mpr ⟨h.1, fun b hb => ((plainByte_iff b).mp (h.2 b hb)).1⟩

theorem Plain.noEscape {r : Bytes} (h : Plain r) : r.any shouldEscape = false :=
  List.any_eq_false.mpr fun b hb => by simp [((plainByte_iff b).mp (h.2 b hb)).2]

theorem Plain.escape {r : Bytes} (h : Plain r) : escapeArgument r = r := by
  simp [escapeArgument, h.needsQuotes, h.noEscape]

theorem Plain.notK1 {r : Bytes} (h : Plain r) : isK1 r = false := by
  simp [isK1, h.noEscape]

theorem Plain.accepted {r : Bytes} (h : Plain r) : C06.accepted r := by
  obtain ⟨_, hws⟩ := (needsQuotes_false_iff r).mp h.needsQuotes
  exact ⟨fun hm => by simpa [ws_LF] using hws _ hm, fun hm => by simpa [ws_zero] using hws _ hm⟩

theorem Plain.clean {r : Bytes} (h : Plain r) : Clean r := h.accepted

theorem Enc.ofPlain {r : Bytes} (h : Plain r) : Enc r r := by
  have := Enc.ofStr h.accepted h.notK1
  rwa [h.escape] at this

theorem Plain.append {x y : Bytes} (hx : Plain x) (hy : ∀ b ∈ y, plainByte b = true) : Plain (x ++ y) :=
  ⟨by simp [hx.1], fun b hb => by
    rcases List.mem_append.mp hb with hb | hb
    · exact hx.2 b hb
    · exact hy b hb⟩

theorem Plain.cons {b : UInt8} {y : Bytes} (hb : plainByte b = true) (hy : ∀ x ∈ y, plainByte x = true) :
    Plain (b :: y) :=
  ⟨by simp, fun x hx => by
    rcases List.mem_cons.mp hx with rfl | hx
    · exact hb
    · exact hy x hx⟩

theorem digit_plain : ∀ b : UInt8, isDigit b = true → plainByte b = true := by
  apply forall_uint8; decide +kernel

theorem tagChar_plain : ∀ b : UInt8, isTagChar b = true → plainByte b = true := by
  apply forall_uint8; decide +kernel

theorem digits_all_plain {ds : Bytes} (h : ds.all isDigit = true) : ∀ b ∈ ds, plainByte b = true :=
  fun b hb => digit_plain b (List.all_eq_true.mp h b hb)

theorem plain_natToDec (n : Nat) : Plain (natToDec n) := by
  obtain ⟨h1, h2, _⟩ := natToDec_spec n
  exact ⟨h1, digits_all_plain h2⟩

/-! ### filter arguments -/

/-- a filter the API can build (`wf`), with MPD-readable tag names, outside the known-finding
class K2 of C11 and without LF / NUL -/
def filterOk (f : FilterType) : Bool :=
  Filter.wf f && Filter.wordTags f && !(Filter.K2 f) && !(Filter.hasForbidden f)

theorem filterOk_iff (f : FilterType) : filterOk f = true ↔
    Filter.wf f = true ∧ Filter.wordTags f = true ∧ Filter.K2 f = false ∧ Filter.hasForbidden f = false := by
  simp [filterOk, and_assoc]

/-- the rendering of an acceptable filter: the once-unescaped expression `inner f` under one
tokenizer escaping level, in double quotes -/
def filterRendered (f : FilterType) : Bytes := QUOTE :: Filter.esc1 (Filter.inner f) ++ [QUOTE]

theorem render_filterOk {f : FilterType} (h : filterOk f = true) : Filter.render f = some (filterRendered f) := by
  obtain ⟨h1, h2, h3, _⟩ := (filterOk_iff f).mp h
  rw [Filter.render, Filter.renderType_eq f h1 h2 h3]; rfl

theorem clean_of_notForbidden {r : Bytes} (h : ∀ b ∈ r, Filter.isForbidden b = false) : Clean r :=
  ⟨fun hm => by have := h _ hm; revert this; decide, fun hm => by have := h _ hm; revert this; decide⟩

theorem Enc.ofFilter {f : FilterType} (h : filterOk f = true) : Enc (filterRendered f) (Filter.inner f) where
  clean := clean_of_notForbidden (C11.esc1_inner_ok ((filterOk_iff f).mp h).2.2.2)
  head := ⟨QUOTE, _, rfl, ws_QUOTE⟩
  ends := ⟨QUOTE :: Filter.esc1 (Filter.inner f), QUOTE, by simp [filterRendered], ws_QUOTE⟩
  read := by
    intro rest hr
    have hq : stringBody (QUOTE :: rest) = some ([], stripLeft rest) := by
      rcases hr with rfl | ⟨c, t, rfl, hc⟩
      · simpa [stripLeft] using stringBody_quote_nil
      · exact stringBody_quote_ws c t hc
    simp only [filterRendered, List.cons_append, List.append_assoc, List.nil_append, nextParam,
      beq_self_eq_true, if_true]
    rw [Filter.stringBody_esc1, hq]
    simp

/-- MPD's filter parser reads the once-unescaped expression back as the mirror expression -/
theorem parseFilterTop_inner {f : FilterType} (h : filterOk f = true) :
    Spec.Filter.parseFilterTop (Filter.inner f) = some (Filter.mirror f) := by
  obtain ⟨hwf, hw, hk, hn⟩ := (filterOk_iff f).mp h
  have h0 : ∀ b ∈ Filter.inner f, b ≠ 0 := fun b hb => C11.not_zero_of_ok (C11.inner_ok f hn b hb)
  obtain ⟨t, ht⟩ := Filter.inner_cons f
  have hp := Filter.parseExpr_inner f ((Filter.inner f).length + 1) [] hwf hw hk (by omega)
  rw [List.append_nil] at hp
  have hs : Spec.Filter.stripLeft [] = [] := rfl
  simp only [Spec.Filter.parseFilterTop, Filter.cstr_id h0, hp, hs]
  simp [ht]

/-! ## 2. every predefined command as a name and typed argument pieces -/

theorem foldl_addPart_append (c : Outcome Bytes) (xs ys : List Part) :
    (xs ++ ys).foldl addPart c = ys.foldl addPart (xs.foldl addPart c) := List.foldl_append

theorem foldl_group (c : Outcome Bytes) (gs : List Tag) :
    gs.foldl (fun command g => argTag (argStr command (str "group")) g) c =
      (gs.flatMap fun g => [Part.kw (str "group"), Part.tag g]).foldl addPart c := by
  induction gs generalizing c with
  | nil => rfl
  | cons g gs ih => simp [ih, addPart]

theorem foldl_tags (c : Outcome Bytes) (ts : List Tag) :
    ts.foldl argTag c = (ts.map Part.tag).foldl addPart c := by
  induction ts generalizing c with
  | nil => rfl
  | cons t ts ih => simp [ih, addPart]

/-- **the `command()` bodies are "name, then the pieces in order"** -/
theorem command_eq_assemble (c : PCmd) (h : ctorPanics c = false) :
    command c = assemble (shape c).1 (shape c).2 := by
  cases c with
  | queueSong s => cases s <;> rfl
  | seekTo s d => cases s <;> rfl
  | playSong s => cases s <;> rfl
  | add uri pos => cases pos <;> rfl
  | move from' to =>
    cases from' with
    | id id => rfl
    | position p => rfl
    | range s e => cases e <;> first | rfl | simp [ctorPanics] at h
  | find f sort window =>
    cases sort <;> cases window <;> rfl
  | list t f g =>
    cases f <;> simp [command, listCommand, shape, assemble, optParts, foldl_group, addPart]
  | countGrouped g f => cases f <;> rfl
  | loadPlaylist n r => cases r <;> rfl
  | addToPlaylist pl url pos => cases pos <;> rfl
  | listAllIn dir =>
    cases dir <;> rfl
  | tagTypesDisable tags =>
    cases tags with
    | nil => simp [ctorPanics] at h
    | cons t ts => simp [command, tagTypesList, tagTypesCommand, shape, assemble, foldl_tags, addPart]
  | tagTypesEnable tags =>
    cases tags with
    | nil => simp [ctorPanics] at h
    | cons t ts => simp [command, tagTypesList, tagTypesCommand, shape, assemble, foldl_tags, addPart]
  | stickerFind uri n f => cases f <;> rfl
  | update uri => cases uri <;> rfl
  | rescan uri => cases uri <;> rfl
  | _ => rfl

theorem command_ctorPanics (c : PCmd) (h : ctorPanics c = true) : command c = .panic := by
  cases c with
  | move from' to =>
    cases from' with
    | range s e => cases e <;> first | rfl | simp [ctorPanics] at h
    | _ => simp [ctorPanics] at h
  | tagTypesDisable tags => cases tags <;> first | rfl | simp [ctorPanics] at h
  | tagTypesEnable tags => cases tags <;> first | rfl | simp [ctorPanics] at h
  | _ => simp [ctorPanics] at h

/-! ### rendering, read-back token and acceptability of a piece -/

/-- the argument MPD's tokenizer reads back (for acceptable pieces, `Part.enc`) -/
def Part.tok : Part → Bytes
  | .str s => s
  | .kw w => w
  | .nat n => renderNat n
  | .pos p => p.render
  | .range r => r.render
  | .dur d => d.render
  | .seek m => m.format
  | .bool b => renderBool b
  | .tag t => t.name
  | .sortTag t => t.name
  | .filter f => Filter.inner f

/-- `add_argument` refuses the piece (LF / NUL in the rendering) or rendering it panics -/
def Part.bad (p : Part) : Prop :=
  match p.render with
  | none => True
  | some r => ¬ Clean r

theorem arg_ok (c r : Bytes) (h : Clean r) : arg (.ok c) r = .ok (c ++ SPACE :: r) := by
  simp [arg, addRendered_clean c r h]

theorem arg_unclean (c r : Bytes) (h : ¬ Clean r) : arg (.ok c) r = .panic := by
  obtain ⟨i, hi⟩ := addRendered_unclean c r h
  simp [arg, hi]

theorem addPart_render (c : Bytes) (p : Part) :
    addPart (.ok c) p = match p.render with
      | none => .panic
      | some r => arg (.ok c) r := by
  cases p <;> simp only [addPart, Part.render, argStr, argNat, argTag]
  case filter f => simp only [argFilter]; cases Filter.render f <;> rfl

theorem addPart_panic (p : Part) : addPart .panic p = .panic := by
  cases p <;> rfl

theorem foldl_addPart_panic (ps : List Part) : ps.foldl addPart .panic = .panic := by
  induction ps with
  | nil => rfl
  | cons p ps ih => simp [addPart_panic, ih]

theorem addPart_ok (c : Bytes) {p : Part} {r : Bytes} (hr : p.render = some r) (hc : Clean r) :
    addPart (.ok c) p = .ok (c ++ SPACE :: r) := by
  rw [addPart_render, hr]; exact arg_ok c r hc

theorem addPart_bad (c : Bytes) {p : Part} (h : p.bad) : addPart (.ok c) p = .panic := by
  rw [addPart_render]
  unfold Part.bad at h
  cases hr : p.render with
  | none => rfl
  | some r => rw [hr] at h; exact arg_unclean c r h

theorem addPart_good (c : Bytes) {p : Part} (h : ¬ p.bad) :
    ∃ r, p.render = some r ∧ Clean r ∧ addPart (.ok c) p = .ok (c ++ SPACE :: r) := by
  unfold Part.bad at h
  cases hr : p.render with
  | none => rw [hr] at h; exact absurd trivial h
  | some r =>
    rw [hr] at h
    have hc : Clean r := Decidable.not_not.mp h
    exact ⟨r, rfl, hc, addPart_ok c hr hc⟩

/-- the builder panics exactly when some piece is bad -/
theorem foldl_addPart_panic_iff (c : Bytes) (ps : List Part) :
    ps.foldl addPart (.ok c) = .panic ↔ ∃ p ∈ ps, p.bad := by
  induction ps generalizing c with
  | nil => simp
  | cons p ps ih =>
    simp only [List.foldl_cons, List.mem_cons, exists_eq_or_imp]
    by_cases hb : p.bad
    · simp [addPart_bad c hb, foldl_addPart_panic, hb]
    · obtain ⟨r, _, _, hok⟩ := addPart_good c hb
      rw [hok, ih]
      simp [hb]

/-- the rendering, `[]` for a panicking filter -/
def Part.rendered (p : Part) : Bytes := p.render.getD []

/-- all pieces good: the command buffer is the name followed by ` <rendering>` for each piece -/
theorem foldl_addPart_ok (c : Bytes) (ps : List Part) (h : ∀ p ∈ ps, ¬ p.bad) :
    ps.foldl addPart (.ok c) = .ok (c ++ encArgs (ps.map Part.rendered)) := by
  induction ps generalizing c with
  | nil => simp
  | cons p ps ih =>
    obtain ⟨r, hr, _, hok⟩ := addPart_good c (h p (by simp))
    rw [List.foldl_cons, hok, ih _ fun q hq => h q (by simp [hq])]
    simp [Part.rendered, hr]

/-! ### every non-string rendering is plain -/

theorem plain_renderNat (n : Nat) : Plain (renderNat n) := plain_natToDec n

theorem plain_pos (p : PositionOrRelative) : Plain p.render := by
  cases p with
  | absolute n => exact plain_natToDec n
  | beforeCurrent n => exact Plain.cons (by decide) (plain_natToDec n).2
  | afterCurrent n => exact Plain.cons (by decide) (plain_natToDec n).2

theorem plain_range (r : SongRange) : Plain r.render := by
  unfold SongRange.render
  cases r.hi with
  | none => exact (plain_natToDec r.lo).append (by decide)
  | some to =>
    exact ((plain_natToDec r.lo).append (by decide)).append (plain_natToDec to).2

theorem pad3_digits (n : Nat) : (F64.pad3 n).all isDigit = true := by
  have h := (natToDec_spec n).2.1
  unfold F64.pad3
  split
  · rw [List.all_append, h]; decide
  · split
    · rw [List.all_append, h]; decide
    · simpa using h

theorem plain_dur (d : Dur) : Plain d.render := by
  unfold Dur.render F64.renderDuration
  exact ((plain_natToDec _).append (by decide)).append (digits_all_plain (pad3_digits _))

theorem plain_seek (m : SeekMode) : Plain m.format := by
  cases m with
  | absolute d => exact plain_dur d
  | forward d => exact Plain.cons (by decide) (plain_dur d).2
  | backward d => exact Plain.cons (by decide) (plain_dur d).2

theorem plain_bool (b : Bool) : Plain (renderBool b) := by cases b <;> decide

theorem plain_tag {t : Tag} (h : tagOk t = true) : Plain t.name := by
  simp only [tagOk, Bool.and_eq_true, Bool.not_eq_true', List.isEmpty_eq_false_iff, List.all_eq_true] at h
  exact ⟨h.1, fun b hb => tagChar_plain b (h.2 b hb)⟩

theorem tagOk_named (v : TagV) : tagOk (.named v) = true := by
  cases v <;> decide +kernel

/-- a string parameter the builder accepts (no LF / NUL) outside the known-finding class K1 -/
def strOk (s : Bytes) : Bool := decide (C06.accepted s) && !(isK1 s)

/-- a piece for which the request is well defined and inside the proved classes -/
def Part.ok : Part → Bool
  | .str s => strOk s
  | .kw w => decide (Plain w)
  | .tag t => tagOk t
  | .sortTag t => tagOk t
  | .filter f => filterOk f
  | _ => true

theorem Part.enc {p : Part} (h : p.ok = true) : ∃ r, p.render = some r ∧ Enc r p.tok := by
  cases p with
  | str s =>
    simp only [Part.ok, strOk, Bool.and_eq_true, decide_eq_true_eq, Bool.not_eq_true'] at h
    exact ⟨_, rfl, Enc.ofStr h.1 h.2⟩
  | kw w =>
    have hw : Plain w := by simpa [Part.ok] using h
    exact ⟨_, rfl, by simpa [Part.tok, hw.escape] using Enc.ofPlain hw⟩
  | nat n => exact ⟨_, rfl, Enc.ofPlain (plain_renderNat n)⟩
  | pos q => exact ⟨_, rfl, Enc.ofPlain (plain_pos q)⟩
  | range r => exact ⟨_, rfl, Enc.ofPlain (plain_range r)⟩
  | dur d => exact ⟨_, rfl, Enc.ofPlain (plain_dur d)⟩
  | seek m =>
    exact ⟨_, rfl, by simpa [Part.tok, (plain_seek m).escape] using Enc.ofPlain (plain_seek m)⟩
  | bool b => exact ⟨_, rfl, Enc.ofPlain (plain_bool b)⟩
  | tag t => exact ⟨_, rfl, Enc.ofPlain (plain_tag h)⟩
  | sortTag t =>
    have ht := plain_tag h
    exact ⟨_, rfl, by simpa [Part.tok, ht.escape] using Enc.ofPlain ht⟩
  | filter f => exact ⟨_, render_filterOk h, Enc.ofFilter h⟩

theorem Part.ok_not_bad {p : Part} (h : p.ok = true) : ¬ p.bad := by
  obtain ⟨r, hr, he⟩ := Part.enc h
  unfold Part.bad
  rw [hr]
  exact fun hc => hc he.clean

/-- **a command made of acceptable pieces**: it is built without panic, and MPD tokenizes the
line (and the bytes `send` writes) into exactly the name and the read-back pieces -/
theorem assemble_tokenize {name : Bytes} (hn : NameOk name) (ps : List Part) (h : ∀ p ∈ ps, p.ok = true) :
    ∃ line, assemble name ps = .ok line ∧
      tokenizeLine line = some (name, ps.map Part.tok) ∧
      tokenizeStream (sendBytes line) = some [some (name, ps.map Part.tok)] := by
  let pairs : Pairs := ps.map fun p => (p.rendered, p.tok)
  have hp : ∀ q ∈ pairs, Enc q.1 q.2 := by
    intro q hq
    obtain ⟨p, hp, rfl⟩ := List.mem_map.mp hq
    obtain ⟨r, hr, he⟩ := Part.enc (h p hp)
    simpa [Part.rendered, hr] using he
  have hrs : pairs.rs = ps.map Part.rendered := by simp [pairs, Pairs.rs]
  have has : pairs.as = ps.map Part.tok := by simp [pairs, Pairs.as]
  refine ⟨name ++ encArgs (ps.map Part.rendered), ?_, ?_, ?_⟩
  · have hb : rawNew name = .ok name := by
      have := (build_ok_iff name name).mpr ⟨rfl, hn⟩
      simp [rawNew, this]
    rw [assemble, hb, foldl_addPart_ok name ps fun p hp => Part.ok_not_bad (h p hp)]
  · rw [← hrs, ← has]; exact tokenizeLine_encLine hn pairs hp
  · rw [← hrs, ← has]; exact tokenizeStream_encLine hn pairs hp

end Mpd.CmdsL
