import Mpd.F64
import MpdProofs.Lemmas.Decimal
/-!
Exactness of `parse_duration` (model: `F64.decodeDuration`) on what MPD prints:

* `decodeDuration_fmt3`: a `%1.3f` value below 2^23 s is decoded to exactly that many milliseconds;
* `decodeDuration_decimal`: an integer number of seconds below 2^53 is decoded exactly.

The analysis uses only an upper bound on the exponent chosen by `flog2` (so the quantum of the
binary64 grid is below 2^-30 s, resp. at most 1), the half-quantum error bound of the
round-half-even division `rhe`, and uniqueness of the nearest integer.
-/
namespace Mpd.F64
open Mpd

/-! ## round-half-even division -/

theorem rhe_err (a b : Nat) (hb : 0 < b) :
    2 * (rhe a b * b) ≤ 2 * a + b ∧ 2 * a ≤ 2 * (rhe a b * b) + b := by
  have h := Nat.div_add_mod a b
  have hr := Nat.mod_lt a hb
  have hq : (a / b + 1) * b = a / b * b + b := Nat.succ_mul _ _
  have hc : b * (a / b) = a / b * b := Nat.mul_comm _ _
  unfold rhe
  simp only []
  split
  · omega
  · split
    · rw [hq]; omega
    · split
      · omega
      · rw [hq]; omega

/-- the nearest integer is unique when the distance is strictly below one half -/
theorem rhe_unique (a b N : Nat) (hb : 0 < b) (h1 : 2 * a < 2 * (N * b) + b) (h2 : 2 * (N * b) < 2 * a + b) :
    rhe a b = N := by
  have h := Nat.div_add_mod a b
  have hr := Nat.mod_lt a hb
  have hc : b * (a / b) = a / b * b := Nat.mul_comm _ _
  -- a / b is N or N - 1
  by_cases hge : N * b ≤ a
  · have hq : a / b = N := Nat.div_eq_of_lt_le hge (by rw [Nat.succ_mul]; omega)
    unfold rhe
    simp only []
    rw [hq] at h hc ⊢
    have : 2 * (a % b) < b := by omega
    simp [this]
  · have hN : 0 < N := by
      rcases Nat.eq_zero_or_pos N with h0 | h0
      · subst h0; simp at hge
      · exact h0
    obtain ⟨M, rfl⟩ : ∃ M, N = M + 1 := ⟨N - 1, by omega⟩
    have hM : (M + 1) * b = M * b + b := Nat.succ_mul _ _
    have hq : a / b = M := Nat.div_eq_of_lt_le (by omega) (by omega)
    unfold rhe
    simp only []
    rw [hq] at h hc ⊢
    have h3 : ¬ 2 * (a % b) < b := by omega
    have h4 : 2 * (a % b) > b := by omega
    simp [h3, h4]

theorem rhe_exact (N b : Nat) (hb : 0 < b) : rhe (N * b) b = N :=
  rhe_unique _ _ _ hb (by omega) (by omega)

theorem rhe_one (a : Nat) : rhe a 1 = a := by simpa using rhe_exact a 1 (by decide)

/-! ## the exponent chosen by `flog2` -/

theorem pow2_pos (k : Nat) : 0 < pow2 k := Nat.two_pow_pos k

/-- the comparison `2^k ≤ n/d` used by `flog2` -/
def geF (n d : Nat) (k : Int) : Bool :=
  if k ≥ 0 then d * pow2 k.toNat ≤ n else d ≤ n * pow2 (-k).toNat

theorem flog2_cases (n d : Nat) :
    let k : Int := (Nat.log2 n : Int) - (Nat.log2 d : Int)
    (flog2 n d = k + 1 ∧ geF n d (k + 1) = true) ∨ (flog2 n d = k ∧ geF n d k = true) ∨ flog2 n d = k - 1 := by
  intro k
  have hdef : flog2 n d = if geF n d (k + 1) = true then k + 1 else if geF n d k = true then k else k - 1 := rfl
  rw [hdef]
  by_cases h1 : geF n d (k + 1) = true
  · simp [h1]
  · by_cases h2 : geF n d k = true
    · simp [h1, h2]
    · simp [h1, h2]

theorem flog2_lower (n d : Nat) : (Nat.log2 n : Int) - Nat.log2 d - 1 ≤ flog2 n d := by
  rcases flog2_cases n d with h | h | h <;> omega

/-- `n / d < 2^U` ⇒ the exponent is below `U` -/
theorem flog2_upper (n d U : Nat) (hn : n ≠ 0) (h : n < 2 ^ U * d) : flog2 n d < U := by
  have key : ∀ k : Int, geF n d k = true → k < U := by
    intro k hk
    unfold geF at hk
    by_cases h0 : k ≥ 0
    · simp only [h0, if_true, decide_eq_true_eq] at hk
      have h1 : d * pow2 k.toNat < 2 ^ U * d := Nat.lt_of_le_of_lt hk h
      rw [Nat.mul_comm] at h1
      have h2 : pow2 k.toNat < 2 ^ U := Nat.lt_of_mul_lt_mul_right h1
      have h3 : k.toNat < U := (Nat.pow_lt_pow_iff_right (by decide)).mp h2
      omega
    · omega
  have hlog : (Nat.log2 n : Int) - Nat.log2 d - 1 < U := by
    have h1 : d < 2 ^ (Nat.log2 d + 1) := Nat.lt_log2_self
    have h2 : n < 2 ^ (U + (Nat.log2 d + 1)) := by
      rw [Nat.pow_add]
      exact Nat.lt_trans h (Nat.mul_lt_mul_of_pos_left h1 (Nat.two_pow_pos U))
    have h3 : Nat.log2 n < U + (Nat.log2 d + 1) := (Nat.log2_lt hn).mpr h2
    omega
  rcases flog2_cases n d with h | h | h
  · rw [h.1]; exact key _ h.2
  · rw [h.1]; exact key _ h.2
  · omega

/-! ## `round64` when the exponent is non-positive -/

theorem val_num_den (m j : Nat) :
    (Val.fin m (-(j : Int))).num = m ∧ (Val.fin m (-(j : Int))).den = 2 ^ j := by
  cases j with
  | zero => simp [Val.num, Val.den, pow2]
  | succ j =>
    have h : ¬ (-((j + 1 : Nat) : Int) ≥ 0) := by omega
    simp only [Val.num, Val.den, h, if_false, pow2]
    constructor
    · trivial
    · congr 1

/-- with `flog2 n d - 52 = -j` (`0 ≤ j ≤ 1074`): the significand is `rhe (n * 2^j) d` -/
theorem round64_nonpos (n d j : Nat) (hn : n ≠ 0) (hl : flog2 n d - 52 = -(j : Int)) (hj : j ≤ 1074) :
    round64 n d =
      (if rhe (n * 2 ^ j) d = 2 ^ 53 then Val.fin (2 ^ 52) (-(j : Int) + 1)
       else if rhe (n * 2 ^ j) d = 0 then Val.fin 0 0
       else Val.fin (rhe (n * 2 ^ j) d) (-(j : Int))) := by
  unfold round64
  simp only [hn, if_false, hl]
  have he : max (-(j : Int)) (-1074) = -(j : Int) := by omega
  rw [he]
  have hm : (if -(j : Int) ≥ 0 then rhe n (d * pow2 (-(j : Int)).toNat) else rhe (n * pow2 (-(-(j : Int))).toNat) d)
      = rhe (n * 2 ^ j) d := by
    cases j with
    | zero => simp [pow2]
    | succ j =>
      have h : ¬ (-((j + 1 : Nat) : Int) ≥ 0) := by omega
      simp only [h, if_false, pow2]
      congr 2
  rw [hm]
  by_cases h53 : rhe (n * 2 ^ j) d = 2 ^ 53
  · simp only [h53, pow2, if_true]
    have : ¬ ((2:Nat) ^ 52 = 0) := by decide
    simp only [this, if_false]
    have : ¬ (-(j : Int) + 1 + 52 > 1023) := by omega
    simp only [this, if_false]
  · simp only [pow2, h53, if_false]
    by_cases h0 : rhe (n * 2 ^ j) d = 0
    · simp [h0]
    · simp only [h0, if_false]
      have : ¬ (-(j : Int) + 52 > 1023) := by omega
      simp only [this, if_false]

/-! ## the grammar on plain decimal numerals -/

theorem forall_uint8 (P : UInt8 → Prop) (h : ∀ n, n < 256 → P (UInt8.ofNat n)) : ∀ a, P a := by
  intro a
  have := h a.toNat a.toNat_lt
  simpa using this

theorem digit_toLower : ∀ b : UInt8, isDigit b = true → toLower b ≠ 105 ∧ toLower b ≠ 110 := by
  apply forall_uint8; decide +kernel

theorem takeWhile_digits (ds rest : Bytes) (h : ds.all isDigit = true) (hr : ∀ b t, rest = b :: t → isDigit b = false) :
    (ds ++ rest).takeWhile isDigit = ds ∧ (ds ++ rest).dropWhile isDigit = rest := by
  induction ds with
  | nil =>
    cases rest with
    | nil => simp
    | cons b t => simp [hr b t rfl]
  | cons d ds ih =>
    simp only [List.all_cons, Bool.and_eq_true] at h
    simp [h.1, ih h.2]

/-- `digits[.digits]` without sign or exponent -/
theorem parseDec_plain (ip fp : Bytes) (hne : ip ≠ []) (hi : ip.all isDigit = true) (hf : fp.all isDigit = true) :
    parseDec (ip ++ 46 :: fp) = .num false (digitsVal (ip ++ fp)) (ip.length + fp.length) (-(fp.length : Int)) ∧
    parseDec ip = .num false (digitsVal ip) ip.length 0 := by
  obtain ⟨b, t, rfl⟩ : ∃ b t, ip = b :: t := by
    cases ip with
    | nil => exact absurd rfl hne
    | cons b t => exact ⟨b, t, rfl⟩
  have hb : isDigit b = true := by simp only [List.all_cons, Bool.and_eq_true] at hi; exact hi.1
  obtain ⟨s1, s2, _⟩ := isDigit_ne_sign b hb
  obtain ⟨l1, l2⟩ := digit_toLower b hb
  have t1 := takeWhile_digits (b :: t) (46 :: fp) hi (by intro b' t' h; simp only [List.cons.injEq] at h; rw [← h.1]; decide)
  have t2 := takeWhile_digits fp [] hf (by intro b' t' h; simp at h)
  have t3 := takeWhile_digits (b :: t) [] hi (by intro b' t' h; simp at h)
  simp only [List.append_nil] at t2 t3
  have special : ∀ rest : Bytes, ¬ ((toLower b :: rest) = str "inf" ∨ (toLower b :: rest) = str "infinity" ∨ (toLower b :: rest) = str "nan") := by
    intro rest h
    rcases h with h | h | h <;>
      (simp only [str, String.toList] at h; first | exact l1 (List.cons.inj h).1 | exact l2 (List.cons.inj h).1)
  have sign : ∀ rest : Bytes, (∀ t, b :: rest = 43 :: t → False) ∧ (∀ t, b :: rest = 45 :: t → False) := by
    intro rest
    constructor <;> (intro t h; simp only [List.cons.injEq] at h; first | exact s1 h.1 | exact s2 h.1)
  constructor
  · unfold parseDec
    simp only [List.cons_append]
    simp only [parseDec.match_1.eq_3 _ _ _ _ _ (sign (t ++ 46 :: fp)).1 (sign (t ++ 46 :: fp)).2]
    have sp := special ((t ++ 46 :: fp).map toLower)
    simp only [List.map_cons, Bool.or_eq_true, decide_eq_true_eq] at sp ⊢
    have sp' : ¬ ((toLower b :: List.map toLower (t ++ 46 :: fp) = str "inf" ∨ toLower b :: List.map toLower (t ++ 46 :: fp) = str "infinity") ∨ toLower b :: List.map toLower (t ++ 46 :: fp) = str "nan") := by
      intro h; exact sp (by rcases h with (h | h) | h; exact .inl h; exact .inr (.inl h); exact .inr (.inr h))
    simp only [sp', if_false]
    simp only [List.cons_append] at t1
    simp [t1.1, t1.2, t2.1, t2.2]
  · unfold parseDec
    simp only [parseDec.match_1.eq_3 _ _ _ _ _ (sign t).1 (sign t).2]
    have sp := special (t.map toLower)
    simp only [List.map_cons, Bool.or_eq_true, decide_eq_true_eq] at sp ⊢
    have sp' : ¬ ((toLower b :: List.map toLower t = str "inf" ∨ toLower b :: List.map toLower t = str "infinity") ∨ toLower b :: List.map toLower t = str "nan") := by
      intro h; exact sp (by rcases h with (h | h) | h; exact .inl h; exact .inr (.inl h); exact .inr (.inr h))
    simp only [sp', if_false]
    simp [t3.1, t3.2]

/-! ## from the binary64 value to the `Duration` -/

/-- the last step of `decodeDuration` (`Duration::try_from_secs_f64` on a non-negative value) -/
def durTail : Val → Option (Nat × Nat)
  | .inf => none
  | .fin 0 _ => some (0, 0)
  | .fin m e =>
    if e + 52 ≥ 64 ∧ m ≥ pow2 52 then none else
    let tot := rhe ((Val.fin m e).num * 1000000000) (Val.fin m e).den
    some (tot / 1000000000, tot % 1000000000)

theorem decodeDuration_of_num (s : Bytes) (d nd : Nat) (x : Int) (h : parseDec s = .num false d nd x)
    (hd : d ≠ 0) (h1 : ¬ x + nd > 400) (h2 : ¬ x + nd < -400) :
    decodeDuration s =
      durTail (if x ≥ 0 then round64 (d * 10 ^ x.toNat) 1 else round64 d (10 ^ (-x).toNat)) := by
  unfold decodeDuration
  rw [h]
  simp only [hd, h1, h2, if_false]
  generalize (if x ≥ 0 then round64 (d * 10 ^ x.toNat) 1 else round64 d (10 ^ (-x).toNat)) = v
  cases v with
  | inf => rfl
  | fin m e =>
    cases m with
    | zero => rfl
    | succ m => simp [durTail]

theorem durTail_fin (m j : Nat) (hm : m ≠ 0) :
    durTail (.fin m (-(j : Int))) =
      some (rhe (m * 1000000000) (2 ^ j) / 1000000000, rhe (m * 1000000000) (2 ^ j) % 1000000000) := by
  obtain ⟨m', rfl⟩ : ∃ m', m = m' + 1 := ⟨m - 1, by omega⟩
  have h : ¬ (-(j : Int) + 52 ≥ 64 ∧ m' + 1 ≥ pow2 52) := by omega
  simp only [durTail, h, if_false, (val_num_den (m' + 1) j).1, (val_num_den (m' + 1) j).2]

theorem log2_1000 : Nat.log2 1000 < 10 := (Nat.log2_lt (by decide)).mpr (by decide)

/-- a value `n/1000 < 2^23`: the quantum of the binary64 grid is at most 2^-30 s, so rounding to
binary64 and then to nanoseconds gives exactly `n` milliseconds -/
theorem durTail_millis (n : Nat) (hn : n ≠ 0) (hU : n < 2 ^ 23 * 1000) :
    durTail (round64 n 1000) = some (n / 1000, n % 1000 * 1000000) := by
  have hl1 : flog2 n 1000 < (23 : Nat) := flog2_upper n 1000 23 hn hU
  have hl2 := flog2_lower n 1000
  have hlog := log2_1000
  obtain ⟨j, hj⟩ : ∃ j : Nat, flog2 n 1000 - 52 = -(j : Int) := ⟨(52 - flog2 n 1000).toNat, by omega⟩
  have hj30 : 30 ≤ j := by omega
  have hj63 : j ≤ 1074 := by omega
  rw [round64_nonpos n 1000 j hn hj hj63]
  obtain ⟨e1, e2⟩ := rhe_err (n * 2 ^ j) 1000 (by decide)
  obtain ⟨j', rfl⟩ : ∃ j', j = j' + 1 := ⟨j - 1, by omega⟩
  have hP' : 536870912 ≤ 2 ^ j' := by
    have : (2:Nat) ^ 29 ≤ 2 ^ j' := Nat.pow_le_pow_right (by decide) (by omega)
    simpa using this
  have hB : 2 ^ j' ≤ n * 2 ^ j' := Nat.le_mul_of_pos_left _ (Nat.pos_of_ne_zero hn)
  have hB2 : n * 2 ^ (j' + 1) = 2 * (n * 2 ^ j') := by
    rw [Nat.pow_succ, ← Nat.mul_assoc, Nat.mul_comm]
  have hP2 : (2:Nat) ^ (j' + 1) = 2 * 2 ^ j' := by rw [Nat.pow_succ, Nat.mul_comm]
  rw [hB2] at e1 e2
  have res : ∀ T : Nat, T = n * 1000000 → some (T / 1000000000, T % 1000000000) = some (n / 1000, n % 1000 * 1000000) := by
    intro T hT; subst hT; congr 1; congr 1 <;> omega
  by_cases h53 : rhe (n * 2 ^ (j' + 1)) 1000 = 2 ^ 53
  · rw [hB2] at h53
    rw [hB2]
    simp only [h53, if_true]
    have he : -(((j' + 1 : Nat)) : Int) + 1 = -(j' : Int) := by omega
    rw [he, durTail_fin _ _ (by decide)]
    apply res
    rw [h53] at e1 e2
    apply rhe_unique _ _ _ (Nat.two_pow_pos j')
    · rw [Nat.mul_right_comm]; omega
    · rw [Nat.mul_right_comm]; omega
  · rw [hB2] at h53 ⊢
    simp only [h53, if_false]
    by_cases h0 : rhe (2 * (n * 2 ^ j')) 1000 = 0
    · rw [h0] at e2; omega
    · simp only [h0, if_false]
      rw [durTail_fin _ _ h0]
      apply res
      apply rhe_unique _ _ _ (Nat.two_pow_pos _)
      · rw [hP2, Nat.mul_right_comm, Nat.mul_left_comm n 2 (2 ^ j')]
        omega
      · rw [hP2, Nat.mul_right_comm, Nat.mul_left_comm n 2 (2 ^ j')]
        omega

theorem log2_one : Nat.log2 1 < 1 := (Nat.log2_lt (by decide)).mpr (by decide)

/-- a whole number of seconds below 2^53 is a binary64 value, so nothing is rounded -/
theorem durTail_int (n : Nat) (hn : n ≠ 0) (hU : n < 2 ^ 53) : durTail (round64 n 1) = some (n, 0) := by
  have hl1 : flog2 n 1 < (53 : Nat) := flog2_upper n 1 53 hn (by omega)
  have hl2 := flog2_lower n 1
  have hlog := log2_one
  obtain ⟨j, hj⟩ : ∃ j : Nat, flog2 n 1 - 52 = -(j : Int) := ⟨(52 - flog2 n 1).toNat, by omega⟩
  have hj2 : j ≤ 1074 := by omega
  rw [round64_nonpos n 1 j hn hj hj2, rhe_one]
  have hpos : 0 < n * 2 ^ j := Nat.mul_pos (Nat.pos_of_ne_zero hn) (Nat.two_pow_pos j)
  have res : ∀ T : Nat, T = n * 1000000000 → some (T / 1000000000, T % 1000000000) = some (n, 0) := by
    intro T hT; subst hT; congr 1; congr 1 <;> omega
  by_cases h53 : n * 2 ^ j = 2 ^ 53
  · simp only [h53, if_true]
    cases j with
    | zero => simp at h53; omega
    | succ j' =>
      have he : -(((j' + 1 : Nat)) : Int) + 1 = -(j' : Int) := by omega
      rw [he, durTail_fin _ _ (by decide)]
      apply res
      have h52 : n * 2 ^ j' = 2 ^ 52 := by
        rw [Nat.pow_succ, ← Nat.mul_assoc] at h53; omega
      rw [← h52, Nat.mul_right_comm]
      exact rhe_exact _ _ (Nat.two_pow_pos j')
  · simp only [h53, if_false]
    have h0 : ¬ n * 2 ^ j = 0 := by omega
    simp only [h0, if_false]
    rw [durTail_fin _ _ h0]
    apply res
    rw [Nat.mul_right_comm]
    exact rhe_exact _ _ (Nat.two_pow_pos j)

/-! ## what MPD prints -/

theorem decimalAux_length : ∀ fuel n k, n < 10 ^ k → 1 ≤ k → (Spec.decimalAux fuel n).length ≤ k := by
  intro fuel
  induction fuel with
  | zero => intro n k _ _; simp [Spec.decimalAux]
  | succ fuel ih =>
    intro n k hn hk
    unfold Spec.decimalAux
    by_cases h10 : n < 10
    · simp [h10]; exact hk
    · simp only [h10, if_false, List.length_append, List.length_cons, List.length_nil]
      obtain ⟨k', rfl⟩ : ∃ k', k = k' + 1 := ⟨k - 1, by omega⟩
      have hk' : 1 ≤ k' := by
        rcases Nat.eq_zero_or_pos k' with h | h
        · subst h; simp at hn; omega
        · exact h
      have : n / 10 < 10 ^ k' := by
        rw [Nat.pow_succ] at hn; omega
      have := ih (n / 10) k' this hk'
      omega

theorem decimal_length (n k : Nat) (h : n < 10 ^ k) (hk : 1 ≤ k) : (Spec.decimal n).length ≤ k :=
  decimalAux_length _ _ _ h hk

/-- **`%1.3f` below 2^23 s is decoded exactly** -/
theorem decodeDuration_fmt3 (ms : Nat) (h : ms < 2 ^ 23 * 1000) :
    decodeDuration (Spec.fmt3 ms) = some (ms / 1000, ms % 1000 * 1000000) := by
  have hp := (parseDec_plain (Spec.decimal (ms / 1000)) [Spec.digit (ms / 100), Spec.digit (ms / 10), Spec.digit ms]
    (decimal_ne_nil _) (decimal_digits _) (by simp [spec_digit_isDigit])).1
  have hv : digitsVal (Spec.decimal (ms / 1000) ++ [Spec.digit (ms / 100), Spec.digit (ms / 10), Spec.digit ms]) = ms := by
    rw [digitsVal_append, decimal_val]
    simp only [digitsVal, List.foldl_cons, List.foldl_nil, spec_digit_val, List.length_cons, List.length_nil]
    omega
  have hlen : (Spec.decimal (ms / 1000)).length ≤ 7 := decimal_length _ 7 (by omega) (by decide)
  rw [hv] at hp
  by_cases h0 : ms = 0
  · subst h0
    unfold decodeDuration
    unfold Spec.fmt3
    rw [hp]
    rfl
  · unfold Spec.fmt3
    rw [decodeDuration_of_num _ _ _ _ hp h0 (by simp only [List.length_cons, List.length_nil]; omega)
      (by simp only [List.length_cons, List.length_nil]; omega)]
    have hx : ¬ (-(([Spec.digit (ms / 100), Spec.digit (ms / 10), Spec.digit ms] : Bytes).length : Int) ≥ 0) := by
      simp only [List.length_cons, List.length_nil]; omega
    simp only [hx, if_false]
    have h10 : (10:Nat) ^ (-(-(([Spec.digit (ms / 100), Spec.digit (ms / 10), Spec.digit ms] : Bytes).length : Int))).toNat = 1000 := by
      simp only [List.length_cons, List.length_nil]; rfl
    rw [h10]
    exact durTail_millis ms h0 h

/-- **whole seconds below 2^53 are decoded exactly** -/
theorem decodeDuration_decimal (s : Nat) (h : s < 2 ^ 53) :
    decodeDuration (Spec.decimal s) = some (s, 0) := by
  have hp := (parseDec_plain (Spec.decimal s) [] (decimal_ne_nil _) (decimal_digits _) (by simp)).2
  rw [decimal_val] at hp
  have hlen : (Spec.decimal s).length ≤ 16 := decimal_length _ 16 (by omega) (by decide)
  by_cases h0 : s = 0
  · subst h0
    unfold decodeDuration
    rw [hp]
    rfl
  · rw [decodeDuration_of_num _ _ _ _ hp h0 (by omega) (by omega)]
    simp only [ge_iff_le, Int.le_refl, if_true, Int.toNat_zero, Nat.pow_zero, Nat.mul_one]
    exact durTail_int s h0 h

end Mpd.F64
