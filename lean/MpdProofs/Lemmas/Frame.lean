import Mpd.Frame
import Mpd.FrameOps
import MpdSpec.FrameSpec
/-!
Helper lemmas for C19: equation lemmas of the hole-skipping iterators, the abstraction function
`absSlots` (drop the holes) and the per-step refinement to the double-ended queue.
-/
namespace Mpd.FrameLemmas
open Mpd Mpd.SlotIter Mpd.FrameOps Mpd.FrameSpec

/-! ## the std iterator primitives -/

@[simp] theorem popFront_nil {α : Type} : popFront ([] : List α) = none := rfl
@[simp] theorem popFront_cons {α : Type} (a : α) (l : List α) : popFront (a :: l) = some (a, l) := rfl
@[simp] theorem popBack_nil {α : Type} : popBack ([] : List α) = none := rfl
@[simp] theorem popBack_concat {α : Type} (a : α) (l : List α) : popBack (l ++ [a]) = some (a, l) := by
  simp [popBack]

theorem popBack_eq_none {α : Type} {l : List α} (h : popBack l = none) : l = [] := by
  unfold popBack at h
  cases hl : l.getLast? with
  | none => exact List.getLast?_eq_none_iff.mp hl
  | some a => simp [hl] at h

theorem popBack_eq_some {α : Type} {l rest : List α} {a : α} (h : popBack l = some (a, rest)) :
    l = rest ++ [a] := by
  unfold popBack at h
  cases hl : l.getLast? with
  | none => simp [hl] at h
  | some b =>
    simp [hl] at h
    obtain ⟨rfl, rfl⟩ := h
    obtain ⟨ys, rfl⟩ := List.getLast?_eq_some_iff.mp hl
    simp

theorem popFront_eq_none {α : Type} {l : List α} (h : popFront l = none) : l = [] := by
  cases l <;> simp_all

theorem popFront_eq_some {α : Type} {l rest : List α} {a : α} (h : popFront l = some (a, rest)) :
    l = a :: rest := by
  cases l with
  | nil => simp at h
  | cons b t => simp at h; obtain ⟨rfl, rfl⟩ := h; rfl

/-- every list is empty or ends in some element (reverse case analysis) -/
theorem eq_nil_or_snoc {α : Type} (l : List α) : l = [] ∨ ∃ l' a, l = l' ++ [a] := by
  cases h : l.getLast? with
  | none => exact Or.inl (List.getLast?_eq_none_iff.mp h)
  | some a => obtain ⟨ys, rfl⟩ := List.getLast?_eq_some_iff.mp h; exact Or.inr ⟨ys, a, rfl⟩

/-- reverse induction on lists (core has no `reverseRecOn`) -/
theorem snoc_induction {α : Type} {P : List α → Prop} (nil : P [])
    (snoc : ∀ l a, P l → P (l ++ [a])) : ∀ l, P l := by
  intro l
  generalize hn : l.length = n
  induction n generalizing l with
  | zero => have : l = [] := List.length_eq_zero_iff.mp hn; subst this; exact nil
  | succ n ih =>
    rcases eq_nil_or_snoc l with rfl | ⟨l', a, rfl⟩
    · exact nil
    · apply snoc; apply ih; simp at hn; exact hn

/-! ## equation lemmas of `Fields::next` / `next_back` -/

@[simp] theorem next_nil : Fields.next [] = (none, []) := by
  rw [Fields.next]; simp

@[simp] theorem next_hole (l : List Slot) : Fields.next (none :: l) = Fields.next l := by
  rw [Fields.next]; simp

@[simp] theorem next_some (kv : Bytes × Bytes) (l : List Slot) :
    Fields.next (some kv :: l) = (some kv, l) := by
  rw [Fields.next]; simp

@[simp] theorem nextBack_nil : Fields.nextBack [] = (none, []) := by
  rw [Fields.nextBack]; simp

@[simp] theorem nextBack_hole (l : List Slot) : Fields.nextBack (l ++ [none]) = Fields.nextBack l := by
  rw [Fields.nextBack]
  split <;> rename_i h <;> simp at h
  obtain ⟨_, rfl⟩ := h; rfl

@[simp] theorem nextBack_some (kv : Bytes × Bytes) (l : List Slot) :
    Fields.nextBack (l ++ [some kv]) = (some kv, l) := by
  rw [Fields.nextBack]
  split <;> rename_i h <;> simp at h
  obtain ⟨rfl, rfl⟩ := h; rfl

/-! ## abstraction: the pairs still present, in order -/

/-- drop the holes -/
def absSlots (l : List Slot) : List (Bytes × Bytes) := l.filterMap id

@[simp] theorem absSlots_nil : absSlots [] = [] := rfl
@[simp] theorem absSlots_hole (l : List Slot) : absSlots (none :: l) = absSlots l := by simp [absSlots]
@[simp] theorem absSlots_some (kv : Bytes × Bytes) (l : List Slot) :
    absSlots (some kv :: l) = kv :: absSlots l := by simp [absSlots]
@[simp] theorem absSlots_append (a b : List Slot) : absSlots (a ++ b) = absSlots a ++ absSlots b := by
  simp [absSlots]
theorem absSlots_snoc_hole (l : List Slot) : absSlots (l ++ [none]) = absSlots l := by simp
theorem absSlots_snoc_some (kv : Bytes × Bytes) (l : List Slot) :
    absSlots (l ++ [some kv]) = absSlots l ++ [kv] := by simp

/-- `Fields::next` refines the queue's `next` -/
theorem next_refines (l : List Slot) :
    (Fields.next l).1 = (DQ.next (absSlots l)).1 ∧ absSlots (Fields.next l).2 = (DQ.next (absSlots l)).2 := by
  induction l with
  | nil => simp [DQ.next]
  | cons s t ih =>
    cases s with
    | none => simpa using ih
    | some kv => simp [DQ.next]

/-- `Fields::next_back` refines the queue's `next_back` -/
theorem nextBack_refines (l : List Slot) :
    (Fields.nextBack l).1 = (DQ.nextBack (absSlots l)).1 ∧
      absSlots (Fields.nextBack l).2 = (DQ.nextBack (absSlots l)).2 := by
  induction l using snoc_induction with
  | nil => simp [DQ.nextBack]
  | snoc t s ih =>
    cases s with
    | none => simpa using ih
    | some kv => simp [DQ.nextBack]

/-! ## std adaptors driven through `next` / `next_back` -/

theorem next_eq_none {l r : List Slot} (h : Fields.next l = (none, r)) : absSlots l = [] := by
  have := (next_refines l).1; rw [h] at this; simpa [DQ.next] using this.symm

theorem next_eq_some {l r : List Slot} {kv : Bytes × Bytes} (h : Fields.next l = (some kv, r)) :
    absSlots l = kv :: absSlots r := by
  have h1 := (next_refines l).1
  have h2 := (next_refines l).2
  rw [h] at h1 h2
  simp only [DQ.next] at h1 h2
  rw [h2]
  cases hl : absSlots l with
  | nil => simp [hl] at h1
  | cons a t => simp [hl] at h1; simp [h1]

theorem nextBack_eq_none {l r : List Slot} (h : Fields.nextBack l = (none, r)) : absSlots l = [] := by
  have := (nextBack_refines l).1; rw [h] at this; simpa [DQ.nextBack] using this.symm

theorem nextBack_eq_some {l r : List Slot} {kv : Bytes × Bytes} (h : Fields.nextBack l = (some kv, r)) :
    absSlots l = absSlots r ++ [kv] := by
  have h1 := (nextBack_refines l).1
  have h2 := (nextBack_refines l).2
  rw [h] at h1 h2
  simp only [DQ.nextBack] at h1 h2
  rw [h2]
  obtain ⟨ys, hys⟩ := List.getLast?_eq_some_iff.mp h1.symm
  simp [hys]

theorem findMap_eq {β : Type} (p : Bytes × Bytes → Option β) (l : List Slot) :
    Fields.findMap p l = (absSlots l).findSome? p := by
  fun_induction Fields.findMap p l with
  | case1 it r h => simp [next_eq_none h]
  | case2 it kv rest h hlt b hb => simp [next_eq_some h, hb]
  | case3 it kv rest h hlt hb ih => simp [next_eq_some h, hb, ih]

theorem fold_eq {β : Type} (f : β → Bytes × Bytes → β) (acc : β) (l : List Slot) :
    Fields.fold f acc l = (absSlots l).foldl f acc := by
  fun_induction Fields.fold f acc l with
  | case1 acc it r h => simp [next_eq_none h]
  | case2 acc it kv rest h hlt ih => simp [next_eq_some h, ih]

theorem foldBack_eq {β : Type} (f : β → Bytes × Bytes → β) (acc : β) (l : List Slot) :
    Fields.foldBack f acc l = (absSlots l).reverse.foldl f acc := by
  fun_induction Fields.foldBack f acc l with
  | case1 acc it r h => simp [nextBack_eq_none h]
  | case2 acc it kv rest h hlt ih => simp [nextBack_eq_some h, ih]

theorem foldl_count {α : Type} (l : List α) (n : Nat) : l.foldl (fun c _ => c + 1) n = n + l.length := by
  induction l generalizing n with
  | nil => simp
  | cons a t ih => simp [ih]; omega

theorem foldl_push {α : Type} (l acc : List α) : l.foldl (fun a x => a ++ [x]) acc = acc ++ l := by
  induction l generalizing acc with
  | nil => simp
  | cons a t ih => simp [ih]

theorem count_eq (l : List Slot) : Fields.count l = (absSlots l).length := by
  rw [Fields.count, fold_eq, foldl_count]; simp

theorem collect_eq (l : List Slot) : Fields.collect l = absSlots l := by
  rw [Fields.collect, fold_eq, foldl_push]; simp

theorem collectBack_eq (l : List Slot) : Fields.collectBack l = (absSlots l).reverse := by
  rw [Fields.collectBack, foldBack_eq, foldl_push]; simp

/-! ## `Frame::get` on the slot vector -/

theorem getSlots_fst (k : Bytes) (l : List Slot) :
    (Frame.getSlots k l).1 = ((absSlots l).find? (·.1 == k)).map (·.2) := by
  induction l with
  | nil => simp [Frame.getSlots]
  | cons s t ih =>
    cases s with
    | none => simpa [Frame.getSlots] using ih
    | some kv =>
      obtain ⟨k', v⟩ := kv
      by_cases h : k' == k
      · simp [Frame.getSlots, h]
      · simp [Frame.getSlots, h, ih]

theorem getSlots_snd (k : Bytes) (l : List Slot) :
    absSlots (Frame.getSlots k l).2 = AFrame.eraseFirst k (absSlots l) := by
  induction l with
  | nil => simp [Frame.getSlots, AFrame.eraseFirst]
  | cons s t ih =>
    cases s with
    | none => simpa [Frame.getSlots] using ih
    | some kv =>
      obtain ⟨k', v⟩ := kv
      by_cases h : k' == k
      · simp [Frame.getSlots, h, AFrame.eraseFirst]
      · simp [Frame.getSlots, h, AFrame.eraseFirst, ih]

/-- the vector keeps its length: `get` never shifts slots, it only punches a hole -/
theorem getSlots_length (k : Bytes) (l : List Slot) : (Frame.getSlots k l).2.length = l.length := by
  induction l with
  | nil => simp [Frame.getSlots]
  | cons s t ih =>
    cases s with
    | none => simpa [Frame.getSlots] using ih
    | some kv =>
      obtain ⟨k', v⟩ := kv
      by_cases h : k' == k <;> simp [Frame.getSlots, h, ih]

/-! ## the list multimap -/

theorem eraseFirst_of_not_mem (k : Bytes) (l : List (Bytes × Bytes)) (h : ∀ p ∈ l, p.1 ≠ k) :
    AFrame.eraseFirst k l = l := by
  induction l with
  | nil => rfl
  | cons p t ih =>
    have hp : ¬ (p.1 == k) = true := by simpa using h p (by simp)
    simp [AFrame.eraseFirst, hp]
    exact ih (fun q hq => h q (by simp [hq]))

/-- `eraseFirst` removes exactly the first pair with that key and keeps everything else in order -/
theorem eraseFirst_first (k v : Bytes) (pre post : List (Bytes × Bytes)) (h : ∀ p ∈ pre, p.1 ≠ k) :
    AFrame.eraseFirst k (pre ++ (k, v) :: post) = pre ++ post := by
  induction pre with
  | nil => simp [AFrame.eraseFirst]
  | cons p t ih =>
    have hp : ¬ (p.1 == k) = true := by simpa using h p (by simp)
    simp [AFrame.eraseFirst, hp]
    exact ih (fun q hq => h q (by simp [hq]))

theorem find_of_not_mem (k : Bytes) (l : List (Bytes × Bytes)) (h : ∀ p ∈ l, p.1 ≠ k) :
    l.find? (·.1 == k) = none := by
  simp; intro a b hab; simpa using h (a, b) hab

theorem find_first (k v : Bytes) (pre post : List (Bytes × Bytes)) (h : ∀ p ∈ pre, p.1 ≠ k) :
    (pre ++ (k, v) :: post).find? (·.1 == k) = some (k, v) := by
  induction pre with
  | nil => simp
  | cons p t ih =>
    have hp : ¬ (p.1 == k) = true := by simpa using h p (by simp)
    simp [hp]
    simpa using ih (fun q hq => h q (by simp [hq]))

/-- every list splits at the first pair with key `k`, or has none -/
theorem split_first (k : Bytes) (l : List (Bytes × Bytes)) :
    (∀ p ∈ l, p.1 ≠ k) ∨ ∃ pre v post, l = pre ++ (k, v) :: post ∧ ∀ p ∈ pre, p.1 ≠ k := by
  induction l with
  | nil => left; simp
  | cons p t ih =>
    by_cases hp : p.1 = k
    · right; exact ⟨[], p.2, t, by simp [← hp], by simp⟩
    · rcases ih with h | ⟨pre, v, post, rfl, h⟩
      · left; intro q hq; simp at hq; rcases hq with rfl | hq
        · exact hp
        · exact h q hq
      · right; refine ⟨p :: pre, v, post, by simp, ?_⟩
        intro q hq; simp at hq; rcases hq with rfl | hq
        · exact hp
        · exact h q hq

/-! ## `IntoIter`: the same iterator on owned data, plus the blob -/

theorem into_next_eq (it : IntoIter) :
    it.next = ((Fields.next it.iter).1, { it with iter := (Fields.next it.iter).2 }) := by
  fun_induction IntoIter.next it with
  | case1 it h => obtain ⟨i, b⟩ := it; simp at h; simp [popFront_eq_none h]
  | case2 it rest h hlt ih => rw [ih]; simp [popFront_eq_some h]
  | case3 it kv rest h => simp [popFront_eq_some h]

theorem into_nextBack_eq (it : IntoIter) :
    it.nextBack = ((Fields.nextBack it.iter).1, { it with iter := (Fields.nextBack it.iter).2 }) := by
  fun_induction IntoIter.nextBack it with
  | case1 it h => obtain ⟨i, b⟩ := it; simp at h; simp [popBack_eq_none h]
  | case2 it rest h hlt ih => rw [ih]; simp [popBack_eq_some h]
  | case3 it kv rest h => simp [popBack_eq_some h]

/-- abstraction of an owned iterator -/
def absInto (it : IntoIter) : AInto := { items := absSlots it.iter, binary := it.binary }

theorem stepInto_refines (it : IntoIter) (s : IStep) :
    (stepInto it s).1 = ((absInto it).step s).1 ∧ absInto (stepInto it s).2 = ((absInto it).step s).2 := by
  cases s with
  | next =>
    have := next_refines it.iter
    simp [stepInto, AInto.step, absInto, into_next_eq, DQ.next] at *
    exact this
  | nextBack =>
    have := nextBack_refines it.iter
    simp [stepInto, AInto.step, absInto, into_nextBack_eq, DQ.nextBack] at *
    exact this
  | takeBinary => simp [stepInto, AInto.step, absInto, IntoIter.takeBinary]

theorem driveInto_refines (pat : List IStep) (it : IntoIter) :
    driveInto pat it = AInto.drive pat (absInto it) := by
  induction pat generalizing it with
  | nil => rfl
  | cons s pat ih =>
    have := stepInto_refines it s
    simp only [driveInto, AInto.drive]
    rw [ih, this.1, this.2]

/-! ## pattern-driven borrowed iteration -/

theorem fields_step_refines (b : Bool) (l : List Slot) :
    (if b then Fields.nextBack l else Fields.next l).1 = (if b then DQ.nextBack (absSlots l) else DQ.next (absSlots l)).1 ∧
    absSlots (if b then Fields.nextBack l else Fields.next l).2 =
      (if b then DQ.nextBack (absSlots l) else DQ.next (absSlots l)).2 := by
  cases b
  · simpa using next_refines l
  · simpa using nextBack_refines l

theorem driveFields_refines (pat : List Bool) (l : List Slot) :
    driveFields pat l = DQ.drive pat (absSlots l) := by
  induction pat generalizing l with
  | nil => rfl
  | cons b pat ih =>
    have := fields_step_refines b l
    simp only [driveFields, DQ.drive]
    rw [ih, this.1, this.2]

end Mpd.FrameLemmas
