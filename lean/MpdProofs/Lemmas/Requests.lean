import MpdProofs.Lemmas.Commands
/-!
# Lemmas for C15, specification side: what `Spec.Req`'s readers make of the renderings

`readNat` of a decimal rendering, `readRange` of a rendered `SongRange`, `readDecimal` of a
rendered `Duration`, the canonical position set of `SongRange::new_usize` versus the exact set of
the Rust range, filters through MPD's filter grammar.
-/
namespace Mpd.ReqL
open Mpd Mpd.Cmd Mpd.Commands Mpd.CmdsL Spec.Req Spec.Tok Mpd.TokL

/-! ## digit strings -/

theorem takeWhile_digits_all {ds : Bytes} (h : ds.all isDigit = true) :
    ds.takeWhile isDigit = ds ∧ ds.dropWhile isDigit = [] := by
  induction ds with
  | nil => simp
  | cons d ds ih =>
    simp only [List.all_cons, Bool.and_eq_true] at h
    simp [List.takeWhile, List.dropWhile, h.1, ih h.2]

theorem takeWhile_digits_stop {ds : Bytes} (h : ds.all isDigit = true) {c : UInt8} (hc : isDigit c = false)
    (rest : Bytes) :
    (ds ++ c :: rest).takeWhile isDigit = ds ∧ (ds ++ c :: rest).dropWhile isDigit = c :: rest := by
  induction ds with
  | nil => simp [hc]
  | cons d ds ih =>
    simp only [List.all_cons, Bool.and_eq_true] at h
    simp [h.1, ih h.2]

theorem foldl_digits (b : Bytes) (acc : Nat) :
    b.foldl (fun a d => a * 10 + (d.toNat - 48)) acc =
      acc * 10 ^ b.length + b.foldl (fun a d => a * 10 + (d.toNat - 48)) 0 := by
  induction b generalizing acc with
  | nil => simp
  | cons d ds ih =>
    simp only [List.foldl_cons, List.length_cons]
    rw [ih (acc * 10 + (d.toNat - 48)), ih (0 * 10 + (d.toNat - 48))]
    simp only [Nat.zero_mul, Nat.zero_add, Nat.pow_succ, Nat.add_mul]
    rw [Nat.mul_assoc, Nat.mul_comm 10 (10 ^ ds.length)]
    omega

theorem digitsVal_append (a b : Bytes) : digitsVal (a ++ b) = digitsVal a * 10 ^ b.length + digitsVal b := by
  unfold digitsVal
  rw [List.foldl_append, foldl_digits]

theorem isNumeral_natToDec (n : Nat) : isNumeral (natToDec n) = true := by
  obtain ⟨h1, h2, _⟩ := natToDec_spec n
  simp [isNumeral, h1, h2]

theorem readNat_natToDec (n : Nat) : readNat (natToDec n) = some n := by
  simp [readNat, isNumeral_natToDec, (natToDec_spec n).2.2]

/-! ## single arguments -/

theorem accepts_str (s : Bytes) : (ArgSem.str s).accepts s = true := by simp [ArgSem.accepts]
theorem accepts_kw (w : Bytes) : (ArgSem.kw w).accepts w = true := by simp [ArgSem.accepts]
theorem accepts_tag (n : Bytes) : (ArgSem.tag n).accepts n = true := by simp [ArgSem.accepts]

theorem accepts_bool (b : Bool) : (ArgSem.bool b).accepts (renderBool b) = true := by
  cases b <;> decide

theorem accepts_nat (n : Nat) : (ArgSem.nat n).accepts (renderNat n) = true := by
  simp [ArgSem.accepts, renderNat, readNat_natToDec]

theorem accepts_pos (p : PositionOrRelative) : (posArg p).accepts p.render = true := by
  cases p with
  | absolute n => exact accepts_nat n
  | beforeCurrent n =>
    simp [posArg, PositionOrRelative.render, ArgSem.accepts, readNat_natToDec, signByte, MINUS]
  | afterCurrent n =>
    simp [posArg, PositionOrRelative.render, ArgSem.accepts, readNat_natToDec, signByte, PLUS]

/-! ## ranges -/

theorem readRange_render (r : SongRange) : readRange r.render = some (r.lo, r.hi) := by
  obtain ⟨h1, h2, h3⟩ := natToDec_spec r.lo
  have hc : isDigit 58 = false := by decide
  have hne : natToDec r.lo ≠ [] := h1
  unfold SongRange.render readRange
  rw [show COLON = 58 from rfl]
  cases hh : r.hi with
  | none =>
    obtain ⟨ht, hd⟩ := takeWhile_digits_stop h2 hc []
    simp only [ht, hd]
    simp [hne, h3]
  | some to =>
    obtain ⟨g1, g2, g3⟩ := natToDec_spec to
    obtain ⟨ht, hd⟩ := takeWhile_digits_stop h2 hc (natToDec to)
    simp only [List.append_assoc, List.singleton_append, ht, hd]
    simp [hne, g1, g2, h3, g3]

theorem new_eq_newUsize (s e : Bound) : SongRange.new s e = SongRange.newUsize s e := by
  cases s <;> cases e <;> rfl

theorem canon_some (max lo b : Nat) :
    canon max lo (some b) = if lo < min b max then some (lo, min b max) else none := rfl
theorem canon_none (max lo : Nat) : canon max lo none = if lo < max then some (lo, max) else none := rfl

/-- **range normalisation, canonical form**: below the integer maximum, the rendered range of
`SongRange::new_usize` denotes exactly the positions of the Rust range (for every kind of bound;
proved for an arbitrary value of the maximum) -/
theorem canon_newUsize (s e : Bound) (hs : s.typed = true) (he : e.typed = true) :
    canon U64MAX (SongRange.newUsize s e).lo (SongRange.newUsize s e).hi =
      canon U64MAX (exactLo s) (exactHi e) := by
  cases s <;> cases e <;>
    simp only [Bound.typed, decide_eq_true_eq] at hs he <;>
    simp only [SongRange.newUsize, exactLo, exactHi, canon_some, canon_none, satSucc, Nat.min_def] <;>
    generalize U64MAX = M at * <;>
    (repeat' split) <;> (try simp only [Option.some.injEq, Prod.mk.injEq, reduceCtorEq]) <;> omega

theorem accepts_bounds_newUsize (s e : Bound) (hs : s.typed = true) (he : e.typed = true) :
    (boundsArg s e).accepts (SongRange.newUsize s e).render = true := by
  simp [boundsArg, ArgSem.accepts, readRange_render, canon_newUsize s e hs he]

theorem accepts_bounds_new (s e : Bound) (hs : s.typed = true) (he : e.typed = true) :
    (boundsArg s e).accepts (SongRange.new s e).render = true := by
  rw [new_eq_newUsize]; exact accepts_bounds_newUsize s e hs he

/-- `Delete::position(p)` / `Move::position(p)`: the range `p..=p` denotes `{p}` -/
theorem accepts_single (p : Nat) (hp : p ≤ U64MAX) :
    (singleArg p).accepts (SongRange.new (.included p) (.included p)).render = true := by
  have := accepts_bounds_new (.included p) (.included p) (by simpa [Bound.typed] using hp)
    (by simpa [Bound.typed] using hp)
  simpa [boundsArg, exactLo, exactHi, singleArg] using this

/-! ## durations -/

theorem pad3_spec : ∀ m, m < 1000 → (F64.pad3 m).length = 3 ∧ digitsVal (F64.pad3 m) = m := by
  decide +kernel

theorem readDecimal_renderDuration (secs nanos : Nat) :
    readDecimal (F64.renderDuration secs nanos) = some (F64.millisRendered secs nanos, 3) := by
  unfold F64.renderDuration
  generalize F64.millisRendered secs nanos = t
  obtain ⟨h1, h2, h3⟩ := natToDec_spec (t / 1000)
  have hm : t % 1000 < 1000 := Nat.mod_lt _ (by omega)
  obtain ⟨p1, p2⟩ := pad3_spec (t % 1000) hm
  have hp := pad3_digits (t % 1000)
  have hc : isDigit 46 = false := by decide
  obtain ⟨ht, hd⟩ := takeWhile_digits_stop h2 hc (F64.pad3 (t % 1000))
  have hne : (natToDec (t / 1000)).isEmpty = false := by simpa using h1
  have hne2 : (F64.pad3 (t % 1000)).isEmpty = false := by
    cases h : F64.pad3 (t % 1000) with
    | nil => rw [h] at p1; simp at p1
    | cons _ _ => rfl
  simp only [readDecimal, List.append_assoc, List.singleton_append, ht, hd, hne, hne2, hp, p1]
  have hv : digitsVal (natToDec (t / 1000) ++ F64.pad3 (t % 1000)) = t := by
    rw [digitsVal_append, h3, p1, p2]; omega
  simp [hv]

/-- the rendered duration is within 1 ms of the exact value (decidable per duration) -/
def durOk (d : Dur) : Bool := within1ms (F64.millisRendered d.secs d.nanos) 3 (nanosOf d)

theorem accepts_dur (d : Dur) (h : durOk d = true) : (ArgSem.time none (nanosOf d)).accepts d.render = true := by
  simp only [ArgSem.accepts, Dur.render, Option.bind_some, readDecimal_renderDuration]
  exact h

theorem accepts_seek_plus (d : Dur) (h : durOk d = true) :
    (ArgSem.time (some false) (nanosOf d)).accepts (PLUS :: d.render) = true := by
  simp only [ArgSem.accepts, Dur.render, PLUS, signByte]
  simp only [Bool.false_eq_true, if_false, beq_self_eq_true, if_true, Option.bind_some,
    readDecimal_renderDuration]
  exact h

theorem accepts_seek_minus (d : Dur) (h : durOk d = true) :
    (ArgSem.time (some true) (nanosOf d)).accepts (MINUS :: d.render) = true := by
  simp only [ArgSem.accepts, Dur.render, MINUS, signByte]
  simp only [if_true, beq_self_eq_true, Option.bind_some, readDecimal_renderDuration]
  exact h

/-! ## filters -/

theorem specOp_eq (op : Operator) : Spec.Req.specOp op = Filter.specOp op := by cases op <;> rfl

theorem exprOfList_eq (fs : List FilterType) (h : ∀ f ∈ fs, exprOf f = Filter.mirror f) :
    exprOfList fs = Filter.mirrorList fs := by
  induction fs with
  | nil => rfl
  | cons f fs ih =>
    simp only [exprOfList, Filter.mirrorList]
    rw [h f (by simp), ih fun g hg => h g (by simp [hg])]

theorem exprOf_eq_mirror : ∀ f : FilterType, exprOf f = Filter.mirror f := by
  intro f
  induction f using Filter.FilterType.induct with
  | tag t op v => simp [exprOf, Filter.mirror, specOp_eq]
  | not f ih => simp [exprOf, Filter.mirror, ih]
  | and fs ih => simp [exprOf, Filter.mirror, exprOfList_eq fs ih]

open Spec.Filter in
theorem Expr.induct {P : Expr → Prop} (tag : ∀ n o v, P (.tag n o v))
    (not : ∀ e, P e → P (.not e)) (and : ∀ es, (∀ e ∈ es, P e) → P (.and es)) : ∀ e, P e := by
  intro e
  refine Expr.rec (motive_1 := P) (motive_2 := fun es => ∀ e ∈ es, P e) tag not and ?_ ?_ e
  · simp
  · intro h t ph pt e he
    simp only [List.mem_cons] at he
    rcases he with rfl | he
    · exact ph
    · exact pt e he

open Spec.Filter in
theorem beqList_refl (es : List Expr) (h : ∀ e ∈ es, Expr.beq e e = true) : Expr.beqList es es = true := by
  induction es with
  | nil => rfl
  | cons e es ih =>
    simp only [Expr.beqList, Bool.and_eq_true]
    exact ⟨h e (by simp), ih fun g hg => h g (by simp [hg])⟩

open Spec.Filter in
theorem beq_refl : ∀ e : Expr, Expr.beq e e = true := by
  intro e
  induction e using Expr.induct with
  | tag n o v => simp [Expr.beq]
  | not e ih => simpa [Expr.beq] using ih
  | and es ih => simpa [Expr.beq] using beqList_refl es ih

theorem accepts_filter {f : FilterType} (h : filterOk f = true) :
    (ArgSem.filter (exprOf f)).accepts (Filter.inner f) = true := by
  simp [ArgSem.accepts, parseFilterTop_inner h, exprOf_eq_mirror, beq_refl]

/-! ## lists of arguments -/

theorem acceptsAll_append {xs ys : List ArgSem} {ts us : List Bytes}
    (h1 : acceptsAll xs ts = true) (h2 : acceptsAll ys us = true) : acceptsAll (xs ++ ys) (ts ++ us) = true := by
  induction xs generalizing ts with
  | nil =>
    cases ts with
    | nil => simpa using h2
    | cons t ts => simp [acceptsAll] at h1
  | cons x xs ih =>
    cases ts with
    | nil => simp [acceptsAll] at h1
    | cons t ts =>
      simp only [acceptsAll, Bool.and_eq_true] at h1
      simp only [List.cons_append, acceptsAll, Bool.and_eq_true]
      exact ⟨h1.1, ih h1.2⟩

theorem acceptsAll_tags (ts : List Tag) :
    acceptsAll (ts.map fun t => ArgSem.tag t.name) ((ts.map Part.tag).map Part.tok) = true := by
  induction ts with
  | nil => rfl
  | cons t ts ih =>
    simp only [List.map_cons, acceptsAll, Part.tok, accepts_tag, Bool.true_and]
    exact ih

theorem acceptsAll_groups (gs : List Tag) :
    acceptsAll (gs.flatMap fun g => [ArgSem.kw (str "group"), ArgSem.tag g.name])
      ((gs.flatMap fun g => [Part.kw (str "group"), Part.tag g]).map Part.tok) = true := by
  induction gs with
  | nil => rfl
  | cons g gs ih =>
    simp only [List.flatMap_cons, List.cons_append, List.nil_append, List.map_cons, acceptsAll, Part.tok,
      accepts_tag, accepts_kw, Bool.true_and]
    exact ih

/-! ## command names -/

def names : List Bytes := [str "clear", str "next", str "ping", str "previous", str "stop", str "replay_gain_status",
  str "status", str "stats", str "playlistinfo", str "currentsong", str "listplaylists", str "tagtypes",
  str "readmessages", str "channels", str "playlistclear", str "rm", str "save", str "subscribe", str "unsubscribe",
  str "listplaylistinfo", str "consume", str "pause", str "random", str "repeat", str "playlistid", str "setvol",
  str "single", str "replay_gain_mode", str "crossfade", str "seek", str "seekid", str "seekcur", str "shuffle",
  str "play", str "playid", str "addid", str "deleteid", str "delete", str "moveid", str "move", str "find", str "list",
  str "count", str "rename", str "load", str "playlistadd", str "playlistdelete", str "playlistmove", str "listallinfo",
  str "binarylimit", str "albumart", str "readpicture", str "sticker", str "update", str "rescan", str "sendmessage"]

theorem names_ok : ∀ n ∈ names, build n = .ok n := by decide +kernel

theorem shape_name_mem (c : PCmd) : (shape c).1 ∈ names := by
  cases c with
  | queueSong s => cases s <;> (simp only [shape]; decide)
  | seekTo s d => cases s <;> (simp only [shape]; decide)
  | playSong s => cases s <;> (simp only [shape]; decide)
  | move f t => cases f <;> (simp only [shape]; decide)
  | _ => (simp only [shape]; decide)

theorem expect_name (c : PCmd) : (expect c).1 = (shape c).1 := by
  cases c with
  | queueSong s => cases s <;> rfl
  | seekTo s d => cases s <;> rfl
  | playSong s => cases s <;> rfl
  | move f t => cases f <;> rfl
  | seek m => cases m <;> rfl
  | _ => rfl

theorem shape_nameOk (c : PCmd) : NameOk (shape c).1 :=
  ((build_ok_iff _ _).mp (names_ok _ (shape_name_mem c))).2

/-! ## the literal keywords of every command are plain -/

/-- literal keywords are plain -/
def kwOk : Part → Bool
  | .kw w => decide (Plain w)
  | _ => true

theorem all_kwOk_tags (ts : List Tag) : (ts.map Part.tag).all kwOk = true := by
  induction ts with
  | nil => rfl
  | cons t ts ih => simp [kwOk, ih]

macro "kw_tac" : tactic => `(tactic| (
  simp only [shape, optParts, List.all_cons, List.all_append, List.all_nil, kwOk, Bool.and_true, Bool.true_and,
    Bool.and_eq_true, decide_eq_true_eq, List.cons_append, List.nil_append, List.append_nil,
    SingleMode.keyword, ReplayGainMode.keyword, StickerFindOperator.keyword] <;> try decide))

theorem all_kwOk_groups (gs : List Tag) :
    (gs.flatMap fun g => [Part.kw (str "group"), Part.tag g]).all kwOk = true := by
  induction gs with
  | nil => rfl
  | cons g gs ih =>
    simp only [List.flatMap_cons, List.all_append, ih, Bool.and_true]
    kw_tac

theorem shape_kwOk (c : PCmd) : (shape c).2.all kwOk = true := by
  cases c with
  | queueSong s => cases s <;> rfl
  | seekTo s d => cases s <;> rfl
  | playSong s => cases s <;> rfl
  | setSingle m => cases m <;> kw_tac
  | setReplayGainMode m => cases m <;> kw_tac
  | add uri pos => cases pos <;> rfl
  | move f t => cases f <;> rfl
  | find f sort window => cases sort <;> cases window <;> kw_tac
  | list t f g =>
    cases f <;> simp only [shape, optParts, List.all_cons, List.all_append, List.all_nil, all_kwOk_groups, kwOk] <;> rfl
  | countGrouped g f => cases f <;> kw_tac
  | loadPlaylist n r => cases r <;> rfl
  | addToPlaylist pl url pos => cases pos <;> rfl
  | listAllIn dir => cases dir <;> rfl
  | tagTypesDisable tags => simp only [shape, List.all_cons, all_kwOk_tags]; kw_tac
  | tagTypesEnable tags => simp only [shape, List.all_cons, all_kwOk_tags]; kw_tac
  | stickerFind uri n f =>
    cases f with
    | none => kw_tac
    | some p => obtain ⟨op, v⟩ := p; cases op <;> kw_tac
  | update uri => cases uri <;> rfl
  | rescan uri => cases uri <;> rfl
  | _ => first | rfl | kw_tac

/-! ## the user-supplied parameters of a command value -/

macro "acc_tac" : tactic => `(tactic| (
  simp only [expect, shape, optParts, optArgs, List.map_cons, List.map_nil, List.map_append, acceptsAll, Part.tok,
    accepts_str, accepts_kw, accepts_tag, accepts_bool, accepts_nat, accepts_pos, songArg, Bool.and_true, Bool.true_and,
    List.cons_append, List.nil_append, List.append_nil, SingleMode.keyword, ReplayGainMode.keyword,
    StickerFindOperator.keyword]))

theorem mem_filters_of_mem {c : PCmd} {f : FilterType} (h : Part.filter f ∈ (shape c).2) : f ∈ PCmd.filters c := by
  unfold PCmd.filters
  exact List.mem_filterMap.mpr ⟨_, h, rfl⟩

theorem mem_durs_of_dur {c : PCmd} {d : Dur} (h : Part.dur d ∈ (shape c).2) : d ∈ PCmd.durs c := by
  unfold PCmd.durs
  exact List.mem_filterMap.mpr ⟨_, h, rfl⟩

theorem mem_durs_of_seek {c : PCmd} {m : SeekMode} (h : Part.seek m ∈ (shape c).2) : m.dur ∈ PCmd.durs c := by
  unfold PCmd.durs
  exact List.mem_filterMap.mpr ⟨_, h, rfl⟩

theorem accepts_setvol (v : Nat) : (ArgSem.nat (if v ≤ 100 then v else 100)).accepts (renderNat (min v 100)) = true := by
  have : min v 100 = if v ≤ 100 then v else 100 := by rw [Nat.min_def]
  rw [this]; exact accepts_nat _

theorem accepts_shape (c : PCmd) (ht : c.typed = true) (hf : ∀ f ∈ PCmd.filters c, filterOk f = true)
    (hd : ∀ d ∈ PCmd.durs c, durOk d = true) :
    acceptsAll (expect c).2 ((shape c).2.map Part.tok) = true := by
  cases c with
  | queueSong s => cases s <;> acc_tac
  | playSong s => cases s <;> acc_tac
  | setSingle m => cases m <;> acc_tac
  | setReplayGainMode m => cases m <;> acc_tac
  | add uri pos => cases pos <;> acc_tac
  | addToPlaylist pl url pos => cases pos <;> acc_tac
  | update uri => cases uri <;> acc_tac
  | rescan uri => cases uri <;> acc_tac
  | stickerFind uri n f =>
    cases f with
    | none => acc_tac
    | some p => obtain ⟨op, v⟩ := p; cases op <;> acc_tac
  | listAllIn dir => cases dir <;> simp [expect, shape, acceptsAll, Part.tok, accepts_str]
  | setVolume v => acc_tac; exact accepts_setvol v
  | queueRange s e =>
    simp only [PCmd.typed, Bool.and_eq_true] at ht
    acc_tac; exact accepts_bounds_new s e ht.1 ht.2
  | shuffleRange s e =>
    simp only [PCmd.typed, Bool.and_eq_true] at ht
    acc_tac; exact accepts_bounds_new s e ht.1 ht.2
  | deleteRange s e =>
    simp only [PCmd.typed, Bool.and_eq_true] at ht
    acc_tac; exact accepts_bounds_new s e ht.1 ht.2
  | removeFromPlaylistRange pl s e =>
    simp only [PCmd.typed, Bool.and_eq_true] at ht
    acc_tac; exact accepts_bounds_new s e ht.1 ht.2
  | deletePosition p =>
    simp only [PCmd.typed, decide_eq_true_eq] at ht
    acc_tac; exact accepts_single p ht
  | seekTo s d =>
    have h := accepts_dur d (hd d (mem_durs_of_dur (by cases s <;> simp [shape])))
    cases s <;> (acc_tac; exact h)
  | seek m =>
    have h := hd m.dur (mem_durs_of_seek (by simp [shape]))
    cases m with
    | absolute d => acc_tac; exact accepts_dur d h
    | forward d => acc_tac; exact accepts_seek_plus d h
    | backward d => acc_tac; exact accepts_seek_minus d h
  | move from' to =>
    cases from' with
    | id id => acc_tac
    | position p =>
      simp only [PCmd.typed, Bool.and_eq_true, decide_eq_true_eq] at ht
      acc_tac; exact accepts_single p ht.1
    | range s e =>
      simp only [PCmd.typed, Bool.and_eq_true] at ht
      acc_tac; exact accepts_bounds_new s e ht.1.1 ht.1.2
  | find f sort window =>
    have hff := accepts_filter (hf f (mem_filters_of_mem (by simp [shape])))
    cases sort <;> cases window <;> simp only [PCmd.typed, optBounds, Bool.and_eq_true] at ht <;> acc_tac <;>
      first
        | exact hff
        | (rw [hff, accepts_bounds_newUsize _ _ ht.1 ht.2]; rfl)
  | list t f g =>
    cases f with
    | none =>
      acc_tac
      exact acceptsAll_groups g
    | some f =>
      have hff := accepts_filter (hf f (mem_filters_of_mem (by simp [shape, optParts])))
      acc_tac
      simp only [hff, Bool.true_and]
      exact acceptsAll_groups g
  | count f =>
    have hff := accepts_filter (hf f (mem_filters_of_mem (by simp [shape])))
    acc_tac; exact hff
  | countGrouped g f =>
    cases f with
    | none => acc_tac
    | some f =>
      have hff := accepts_filter (hf f (mem_filters_of_mem (by simp [shape, optParts])))
      acc_tac; exact hff
  | loadPlaylist n r =>
    cases r with
    | none => acc_tac
    | some w =>
      simp only [PCmd.typed, optBounds, Bool.and_eq_true] at ht
      acc_tac; exact accepts_bounds_newUsize _ _ ht.1 ht.2
  | tagTypesDisable tags => acc_tac; exact acceptsAll_tags tags
  | tagTypesEnable tags => acc_tac; exact acceptsAll_tags tags
  | _ => first | rfl | acc_tac

/-! ## durations of a typed command are `Duration` values -/

/-- durations inside a piece are `Duration` values -/
def durTyped : Part → Bool
  | .dur d => d.typed
  | .seek m => m.dur.typed
  | _ => true

theorem all_durTyped_tags (ts : List Tag) : (ts.map Part.tag).all durTyped = true := by
  induction ts with
  | nil => rfl
  | cons t ts ih => simp [durTyped, ih]

theorem all_durTyped_groups (gs : List Tag) :
    (gs.flatMap fun g => [Part.kw (str "group"), Part.tag g]).all durTyped = true := by
  induction gs with
  | nil => rfl
  | cons g gs ih => simp [durTyped, ih]

macro "dt_tac" : tactic => `(tactic| (
  simp only [shape, optParts, List.all_cons, List.all_append, List.all_nil, durTyped, Bool.and_true, Bool.true_and,
    List.cons_append, List.nil_append, List.append_nil, all_durTyped_tags, all_durTyped_groups, Bool.and_self]))

theorem shape_durTyped (c : PCmd) (ht : c.typed = true) : (shape c).2.all durTyped = true := by
  cases c with
  | queueSong s => cases s <;> rfl
  | seekTo s d =>
    simp only [PCmd.typed, Bool.and_eq_true] at ht
    cases s <;> (dt_tac; exact ht.2)
  | seek m => dt_tac; exact ht
  | playSong s => cases s <;> rfl
  | add uri pos => cases pos <;> rfl
  | move f t => cases f <;> rfl
  | find f sort window => cases sort <;> cases window <;> rfl
  | list t f g => cases f <;> dt_tac
  | countGrouped g f => cases f <;> rfl
  | loadPlaylist n r => cases r <;> rfl
  | addToPlaylist pl url pos => cases pos <;> rfl
  | listAllIn dir => cases dir <;> rfl
  | tagTypesDisable tags => dt_tac
  | tagTypesEnable tags => dt_tac
  | stickerFind uri n f => cases f <;> rfl
  | update uri => cases uri <;> rfl
  | rescan uri => cases uri <;> rfl
  | _ => rfl

theorem durs_typed (c : PCmd) (ht : c.typed = true) : ∀ d ∈ c.durs, d.typed = true := by
  intro d hd
  obtain ⟨p, hp, hpd⟩ := List.mem_filterMap.mp hd
  have := List.all_eq_true.mp (shape_durTyped c ht) p hp
  cases p <;> simp at hpd
  · subst hpd; exact this
  · subst hpd; exact this

end Mpd.ReqL
