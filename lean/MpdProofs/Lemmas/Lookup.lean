import MpdProofs.Lemmas.Records
import MpdSpec.Records
/-!
Lookup of keys in encoded lines, and the inversion lemmas for the field-extraction combinators
(what an `ok` result says about the lines that were looked up).
-/
namespace Mpd.C16
open Mpd Mpd.Typed Spec

/-- first-occurrence lookup in a list of lines -/
def findKey (k : Bytes) (l : List Line) : Option Bytes := (l.find? (·.1 == k)).map (·.2)

theorem find_mk (l : List Line) (b) (k) : (AFrame.mk l b).find k = findKey k l := rfl

theorem findKey_nil (k) : findKey k [] = none := rfl
theorem findKey_cons_eq (k v l) : findKey k ((k, v) :: l) = some v := by simp [findKey]
theorem findKey_cons_ne (k k' v l) (h : (k' == k) = false) : findKey k ((k', v) :: l) = findKey k l := by
  simp [findKey, h]
theorem findKey_opt_ne (k k' o l) (h : (k' == k) = false) : findKey k (opt k' o ++ l) = findKey k l := by
  cases o with
  | none => rfl
  | some v => exact findKey_cons_ne k k' v l h
theorem findKey_opt_eq (k o l) : findKey k (opt k o ++ l) = o.orElse fun _ => findKey k l := by
  cases o with
  | none => rfl
  | some v => exact findKey_cons_eq k v l
theorem findKey_opt_last_ne (k k' o) (h : (k' == k) = false) : findKey k (opt k' o) = none := by
  cases o with
  | none => rfl
  | some v => exact findKey_cons_ne k k' v [] h
theorem findKey_opt_last_eq (k o) : findKey k (opt k o) = o := by
  cases o <;> simp [opt, findKey]

theorem orElse_none {α} (o : Option α) : (o.orElse fun _ => none) = o := by cases o <;> rfl

theorem keys_opt_append_sub {k o l ks} (h : (AFrame.keys l).Sublist ks) :
    (AFrame.keys (opt k o ++ l)).Sublist (k :: ks) := by
  cases o with
  | none => exact List.Sublist.cons _ h
  | some v => exact List.Sublist.cons_cons _ h
theorem keys_cons_sub {k : Bytes} {v : Bytes} {l ks} (h : (AFrame.keys l).Sublist ks) :
    (AFrame.keys ((k, v) :: l)).Sublist (k :: ks) := List.Sublist.cons_cons _ h
theorem keys_opt_sub (k o) : (AFrame.keys (opt k o)).Sublist [k] := by
  cases o with
  | none => exact List.Sublist.cons _ List.Sublist.slnil
  | some v => exact List.Sublist.cons_cons _ List.Sublist.slnil


theorem all_some {α} {p : α → Bool} {o : Option α} (h : o.all p = true) (a : α) (ha : o = some a) : p a = true := by
  subst ha; simpa using h

/-- required field: the line is there and its value converts to the decoded value -/
def Req {α} (look : Bytes → Option Bytes) (k : Bytes) (conv : Bytes → Option α) (x : α) : Prop :=
  ∃ v, look k = some v ∧ conv v = some x

/-- optional field: absent ⇔ `none`; present ⇒ its value converts to the decoded value -/
def Opt {α} (look : Bytes → Option Bytes) (k : Bytes) (conv : Bytes → Option α) (x : Option α) : Prop :=
  match look k with
  | none => x = none
  | some v => ∃ a, conv v = some a ∧ x = some a

/-- position/id pair: absent position ⇔ `none`; present ⇒ both lines are there and convert -/
def SongRel (look : Bytes → Option Bytes) (pk ik : Bytes) (x : Option (Nat × Nat)) : Prop :=
  match look pk with
  | none => x = none
  | some v => ∃ p i, parseUsize v = some p ∧ Req look ik parseU64 i ∧ x = some (p, i)

theorem Opt.none_iff {α} {look k} {conv : Bytes → Option α} {x} (h : Opt look k conv x) : x = none ↔ look k = none := by
  unfold Opt at h
  cases hl : look k with
  | none => simp [hl] at h; simp [h]
  | some v => simp [hl] at h; obtain ⟨a, _, rfl⟩ := h; simp

theorem runF_pValue_ok {α β} {conv : Bytes → Option α} {k} {c : α → Prog β} {look} {s}
    (h : (pValue conv k c).runF look = .ok s) : ∃ a, Req look k conv a ∧ (c a).runF look = .ok s := by
  rw [runF_pValue] at h
  cases hl : look k with
  | none => simp [hl] at h
  | some v =>
    simp only [hl] at h
    cases hc : conv v with
    | none => simp [hc] at h
    | some a => simp only [hc] at h; exact ⟨a, ⟨v, hl, hc⟩, h⟩

theorem runF_pOptional_ok {α β} {conv : Bytes → Option α} {k} {c : Option α → Prog β} {look} {s}
    (h : (pOptional conv k c).runF look = .ok s) : ∃ o, Opt look k conv o ∧ (c o).runF look = .ok s := by
  rw [runF_pOptional] at h
  unfold Opt
  cases hl : look k with
  | none => simp only [hl] at h; exact ⟨none, rfl, h⟩
  | some v =>
    simp only [hl] at h
    cases hc : conv v with
    | none => simp [hc] at h
    | some a => simp only [hc] at h; exact ⟨some a, ⟨a, hc, rfl⟩, h⟩

theorem runF_pSongIdentifier_ok {β} {pk ik} {c : Option (Nat × Nat) → Prog β} {look} {s}
    (h : (pSongIdentifier pk ik c).runF look = .ok s) : ∃ o, SongRel look pk ik o ∧ (c o).runF look = .ok s := by
  unfold pSongIdentifier at h
  obtain ⟨o, ho, h⟩ := runF_pOptional_ok h
  unfold Opt at ho
  unfold SongRel
  cases hl : look pk with
  | none => simp only [hl] at ho; subst ho; exact ⟨none, rfl, h⟩
  | some v =>
    simp only [hl] at ho
    obtain ⟨p, hp, rfl⟩ := ho
    obtain ⟨i, hi, h⟩ := runF_pValue_ok h
    exact ⟨some (p, i), ⟨p, i, hp, hi, rfl⟩, h⟩

/-- field with a default: the default exactly when the line is omitted -/
def Def {α} (look : Bytes → Option Bytes) (k : Bytes) (conv : Bytes → Option α) (d x : α) : Prop :=
  match look k with
  | none => x = d
  | some v => conv v = some x

theorem Opt.getD {α} {look k} {conv : Bytes → Option α} {o} (h : Opt look k conv o) (d : α) :
    Def look k conv d (o.getD d) := by
  unfold Opt at h
  unfold Def
  cases hl : look k with
  | none => simp only [hl] at h ⊢; subst h; rfl
  | some v => simp only [hl] at h ⊢; obtain ⟨a, ha, rfl⟩ := h; exact ha


end Mpd.C16
