import MpdProofs.Lemmas.Resume
/-!
# Any number of failed reads is invisible (async connection)

`recvLoopA_resume` (Lemmas/Resume.lean) is about ONE failed read. Here: a caller that calls `receive`
again after every reported read failure — any number of them, anywhere in the stream, also several
in a row — gets from each logical receive exactly what one uninterrupted call on the script without
the failures returns, leaves the same buffer and builder state behind, and so the whole session is
the session of the script without the failures.
-/
namespace Mpd.Conn
open Mpd Mpd.Parser Mpd.Builder

/-- a call that returns before it needed the end of the script does not depend on what comes later -/
theorem recvLoopA_prefix (k : Nat) (t2 : Term) (cs2 : List Bytes) (cs1 : List Bytes) (σ : BState) (buf : Bytes)
    (h : (recvLoopA σ buf cs1 (.ioerr k)).1 ≠ .io k) :
    recvLoopA σ buf (cs1 ++ cs2) t2 =
      ((recvLoopA σ buf cs1 (.ioerr k)).1, (recvLoopA σ buf cs1 (.ioerr k)).2.1,
       (recvLoopA σ buf cs1 (.ioerr k)).2.2.1 ++ cs2, (recvLoopA σ buf cs1 (.ioerr k)).2.2.2) := by
  induction cs1 generalizing σ buf with
  | nil =>
    rw [List.nil_append]
    rcases hf : feed σ buf with ⟨σ', rest, out⟩
    cases out with
    | done r =>
      have hL : recvLoopA σ buf cs2 t2 = (.resp r, rest, cs2, σ') := by rw [recvLoopA, hf]
      have hR : recvLoopA σ buf [] (.ioerr k) = (.resp r, rest, [], σ') := by rw [recvLoopA, hf]
      rw [hL, hR]; rfl
    | invalid =>
      have hL : recvLoopA σ buf cs2 t2 = (.invalid, rest, cs2, σ') := by rw [recvLoopA, hf]
      have hR : recvLoopA σ buf [] (.ioerr k) = (.invalid, rest, [], σ') := by rw [recvLoopA, hf]
      rw [hL, hR]; rfl
    | panic =>
      have hL : recvLoopA σ buf cs2 t2 = (.panic, rest, cs2, σ') := by rw [recvLoopA, hf]
      have hR : recvLoopA σ buf [] (.ioerr k) = (.panic, rest, [], σ') := by rw [recvLoopA, hf]
      rw [hL, hR]; rfl
    | pending => rw [recvLoopA_nil, hf] at h; exact absurd rfl h
  | cons c cs ih =>
    rw [List.cons_append]
    rcases hf : feed σ buf with ⟨σ', rest, out⟩
    cases out with
    | done r =>
      have hL : recvLoopA σ buf (c :: (cs ++ cs2)) t2 = (.resp r, rest, c :: (cs ++ cs2), σ') := by rw [recvLoopA, hf]
      have hR : recvLoopA σ buf (c :: cs) (.ioerr k) = (.resp r, rest, c :: cs, σ') := by rw [recvLoopA, hf]
      rw [hL, hR]; rfl
    | invalid =>
      have hL : recvLoopA σ buf (c :: (cs ++ cs2)) t2 = (.invalid, rest, c :: (cs ++ cs2), σ') := by rw [recvLoopA, hf]
      have hR : recvLoopA σ buf (c :: cs) (.ioerr k) = (.invalid, rest, c :: cs, σ') := by rw [recvLoopA, hf]
      rw [hL, hR]; rfl
    | panic =>
      have hL : recvLoopA σ buf (c :: (cs ++ cs2)) t2 = (.panic, rest, c :: (cs ++ cs2), σ') := by rw [recvLoopA, hf]
      have hR : recvLoopA σ buf (c :: cs) (.ioerr k) = (.panic, rest, c :: cs, σ') := by rw [recvLoopA, hf]
      rw [hL, hR]; rfl
    | pending =>
      by_cases hc : c.isEmpty
      · have hL : recvLoopA σ buf (c :: (cs ++ cs2)) t2 = (eofItem σ' rest, rest, cs ++ cs2, σ') := by
          rw [recvLoopA, hf]; simp only [hc, if_true]
        have hR : recvLoopA σ buf (c :: cs) (.ioerr k) = (eofItem σ' rest, rest, cs, σ') := by
          rw [recvLoopA, hf]; simp only [hc, if_true]
        rw [hL, hR]
      · have hL : recvLoopA σ buf (c :: cs) (.ioerr k) = recvLoopA σ' (rest ++ c) cs (.ioerr k) := by
          rw [recvLoopA, hf]; simp only [hc]; rfl
        have hR : recvLoopA σ buf (c :: (cs ++ cs2)) t2 = recvLoopA σ' (rest ++ c) (cs ++ cs2) t2 := by
          rw [recvLoopA, hf]; simp only [hc]; rfl
        rw [hL] at h ⊢
        rw [hR]
        exact ih σ' (rest ++ c) h

/-- a reported read failure is the scripted one, at the end of the piece -/
theorem recvLoopA_io (σ : BState) (buf : Bytes) (cs : List Bytes) (k j : Nat)
    (h : (recvLoopA σ buf cs (.ioerr k)).1 = .io j) : j = k := by
  induction cs generalizing σ buf with
  | nil =>
    rw [recvLoopA_nil] at h
    rcases hf : feed σ buf with ⟨σ', rest, out⟩
    rw [hf] at h
    cases out <;> simp [termItem] at h
    exact h.symm
  | cons c cs ih =>
    rw [recvLoopA] at h
    rcases hf : feed σ buf with ⟨σ', rest, out⟩
    rw [hf] at h
    cases out with
    | done r => simp at h
    | invalid => simp at h
    | panic => simp at h
    | pending =>
      by_cases hc : c.isEmpty
      · simp only [hc, if_true] at h
        exact absurd h (eofItem_ne_io _ _ _)
      · simp only [hc] at h
        exact ih _ _ h

theorem flatScript_cons (cs : List Bytes) (p : ScriptPiece) (more : List ScriptPiece) :
    flatScript cs (p :: more) = cs ++ flatScript p.1 more := by
  simp [flatScript]

/-- **one logical receive, any number of failed reads**: item, buffer and builder state are those of
one uninterrupted call on the script without the failures, and what is left of the script is what
that call leaves -/
theorem recvRetryA_eq (more : List ScriptPiece) (σ : BState) (buf : Bytes) (cs : List Bytes) (t : Term)
    (hio : IoChain t more) :
    (recvRetryA σ buf cs t more).1 = (recvLoopA σ buf (flatScript cs more) (lastTerm t more)).1 ∧
    (recvRetryA σ buf cs t more).2.1 = (recvLoopA σ buf (flatScript cs more) (lastTerm t more)).2.1 ∧
    (recvRetryA σ buf cs t more).2.2.1 = (recvLoopA σ buf (flatScript cs more) (lastTerm t more)).2.2.2 ∧
    flatScript (recvRetryA σ buf cs t more).2.2.2.1 (recvRetryA σ buf cs t more).2.2.2.2.2 =
      (recvLoopA σ buf (flatScript cs more) (lastTerm t more)).2.2.1 ∧
    lastTerm (recvRetryA σ buf cs t more).2.2.2.2.1 (recvRetryA σ buf cs t more).2.2.2.2.2 = lastTerm t more ∧
    IoChain (recvRetryA σ buf cs t more).2.2.2.2.1 (recvRetryA σ buf cs t more).2.2.2.2.2 := by
  induction more generalizing σ buf cs t with
  | nil => simp [recvRetryA, flatScript, lastTerm, IoChain]
  | cons p more ih =>
    obtain ⟨⟨k, rfl⟩, hio'⟩ := hio
    rw [flatScript_cons]
    simp only [lastTerm]
    by_cases hk : (recvLoopA σ buf cs (.ioerr k)).1 = .io k
    · -- the piece ends in the reported failure: the caller calls again
      have hres := recvLoopA_resume k (lastTerm p.2 more) (flatScript p.1 more) cs σ buf hk
      have hstep : recvRetryA σ buf cs (.ioerr k) (p :: more) =
          recvRetryA (recvLoopA σ buf cs (.ioerr k)).2.2.2 (recvLoopA σ buf cs (.ioerr k)).2.1 p.1 p.2 more := by
        rcases hr : recvLoopA σ buf cs (.ioerr k) with ⟨it, buf', cs', σ'⟩
        rw [hr] at hk
        simp only at hk
        subst hk
        simp [recvRetryA, hr]
      rw [hstep, ← hres]
      exact ih _ _ p.1 p.2 hio'
    · -- the call returned before the failure: later pieces are untouched
      have hpre := recvLoopA_prefix k (lastTerm p.2 more) (flatScript p.1 more) cs σ buf hk
      have hstep : recvRetryA σ buf cs (.ioerr k) (p :: more) =
          ((recvLoopA σ buf cs (.ioerr k)).1, (recvLoopA σ buf cs (.ioerr k)).2.1, (recvLoopA σ buf cs (.ioerr k)).2.2.2,
           (recvLoopA σ buf cs (.ioerr k)).2.2.1, .ioerr k, p :: more) := by
        rcases hr : recvLoopA σ buf cs (.ioerr k) with ⟨it, buf', cs', σ'⟩
        rw [hr] at hk
        simp only at hk
        cases it with
        | io j =>
          have := recvLoopA_io σ buf cs k j (by rw [hr])
          subst this
          exact absurd rfl hk
        | resp r => simp [recvRetryA, hr]
        | clean => simp [recvRetryA, hr]
        | invalid => simp [recvRetryA, hr]
        | unexpectedEof => simp [recvRetryA, hr]
        | panic => simp [recvRetryA, hr]
      rw [hstep, hpre]
      refine ⟨rfl, rfl, rfl, ?_, ?_, ?_⟩
      · simp only; rw [flatScript_cons]
      · simp only [lastTerm]
      · exact ⟨⟨k, rfl⟩, hio'⟩

/-- **the whole session**: calling again after every failed read gives the session of the script
without the failures -/
theorem sessionRetryA_eq (fuel : Nat) (extra : Nat) (σ : BState) (buf : Bytes) (cs : List Bytes) (t : Term)
    (more : List ScriptPiece) (hio : IoChain t more) :
    sessionRetryA fuel extra σ buf cs t more = sessionA fuel extra σ buf (flatScript cs more) (lastTerm t more) := by
  induction fuel generalizing extra σ buf cs t more with
  | zero => simp [sessionRetryA, sessionA]
  | succ fuel ih =>
    obtain ⟨h1, h2, h3, h4, h5, h6⟩ := recvRetryA_eq more σ buf cs t hio
    rw [sessionRetryA, sessionA, recvA]
    rcases hr : recvRetryA σ buf cs t more with ⟨it, buf', σ', cs', t', more'⟩
    rcases hl : recvLoopA σ buf (flatScript cs more) (lastTerm t more) with ⟨it2, buf2, cs2, σ2⟩
    rw [hr, hl] at h1 h2 h3 h4
    rw [hr] at h5 h6
    dsimp only at h1 h2 h3 h4 h5 h6
    subst h1 h2 h3 h4
    cases it with
    | resp r =>
      simp only
      rw [ih extra σ' buf' cs' t' more' h6, h5]
    | clean => cases extra <;> simp only <;> try rw [ih _ σ' buf' cs' t' more' h6, h5]
    | invalid => cases extra <;> simp only <;> try rw [ih _ σ' buf' cs' t' more' h6, h5]
    | unexpectedEof => cases extra <;> simp only <;> try rw [ih _ σ' buf' cs' t' more' h6, h5]
    | io j => cases extra <;> simp only <;> try rw [ih _ σ' buf' cs' t' more' h6, h5]
    | panic => cases extra <;> simp only <;> try rw [ih _ σ' buf' cs' t' more' h6, h5]

/-! ### `write_all` -/

/-- **short writes are invisible on the wire**: for any capacities ≥ 1, `write_all` succeeds and the
pieces it writes are, in order, exactly the buffer -/
theorem writeAll_flatten (caps : List Nat) (buf : Bytes) (h : ∀ c ∈ caps, 1 ≤ c) :
    ∃ ps, writeAll caps buf = some ps ∧ ps.flatten = buf ∧ ∀ p ∈ ps, p ≠ [] := by
  induction caps generalizing buf with
  | nil =>
    cases buf with
    | nil => exact ⟨[], rfl, rfl, by simp⟩
    | cons b bs => exact ⟨[b :: bs], rfl, by simp, by simp⟩
  | cons c cs ih =>
    cases buf with
    | nil => exact ⟨[], by simp [writeAll], rfl, by simp⟩
    | cons b bs =>
      have hc : 1 ≤ c := h c (by simp)
      obtain ⟨ps, h1, h2, h3⟩ := ih ((b :: bs).drop c) (fun x hx => h x (by simp [hx]))
      refine ⟨(b :: bs).take c :: ps, ?_, ?_, ?_⟩
      · have : c ≠ 0 := by omega
        simp [writeAll, this, h1]
      · simp only [List.flatten_cons, h2, List.take_append_drop]
      · intro p hp
        rw [List.mem_cons] at hp
        rcases hp with rfl | hp
        · cases c with
          | zero => omega
          | succ n => simp
        · exact h3 p hp

/-- a transport that accepts nothing (`Ok(0)`) is reported, not retried forever -/
theorem writeAll_zero (cs : List Nat) (b : UInt8) (bs : Bytes) : writeAll (0 :: cs) (b :: bs) = none := by
  simp [writeAll]

end Mpd.Conn
