import Mpd.Utf8
/-!
# The bytewise model of `command.rs` equals its `char`-level transcription on every string
-/
namespace Mpd.Utf8
open Mpd Mpd.Cmd

theorem high_not_special (b : UInt8) (h : 128 ≤ b.toNat) :
    shouldEscape b = false ∧ (b ≤ SPACE) = False ∧ isValidCommandChar b = false ∧ isAlpha b = false := by
  have h1 : b ≠ 92 := by intro e; subst e; simp at h
  have h2 : b ≠ 34 := by intro e; subst e; simp at h
  have h3 : b ≠ 39 := by intro e; subst e; simp at h
  have h4 : b ≠ 95 := by intro e; subst e; simp at h
  have hle : ∀ k : UInt8, k.toNat < 128 → ¬ (b ≤ k) := by
    intro k hk hbk
    have := UInt8.le_iff_toNat_le.mp hbk
    omega
  have hA : isAlpha b = false := by
    simp only [isAlpha, isUpper, isLower, Bool.or_eq_false_iff, Bool.and_eq_false_iff, decide_eq_false_iff_not]
    exact ⟨Or.inr (hle 90 (by decide)), Or.inr (hle 122 (by decide))⟩
  refine ⟨?_, ?_, ?_, hA⟩
  · simp [shouldEscape, BSLASH, QUOTE, SQUOTE, h1, h2, h3]
  · simp only [SPACE, eq_iff_iff, iff_false]; exact hle 32 (by decide)
  · simp [isValidCommandChar, hA, USCORE, h4]

theorem toNat_ofNat_lt (n : Nat) (h : n < 256) : (UInt8.ofNat n).toNat = n := by
  simp [Nat.mod_eq_of_lt h]

/-- every byte of the encoding of a non-ASCII char has its high bit set -/
theorem encodeCp_high (c : Nat) (h1 : 0x80 ≤ c) (h2 : c < 0x110000) : ∀ b ∈ encodeCp c, 128 ≤ b.toNat := by
  intro b hb
  unfold encodeCp at hb
  split at hb
  · omega
  · split at hb
    · simp only [List.mem_cons, List.mem_nil_iff, or_false] at hb
      rcases hb with rfl | rfl <;> rw [toNat_ofNat_lt _ (by omega)] <;> omega
    · split at hb
      · simp only [List.mem_cons, List.mem_nil_iff, or_false] at hb
        rcases hb with rfl | rfl | rfl <;> rw [toNat_ofNat_lt _ (by omega)] <;> omega
      · simp only [List.mem_cons, List.mem_nil_iff, or_false] at hb
        rcases hb with rfl | rfl | rfl | rfl <;> rw [toNat_ofNat_lt _ (by omega)] <;> omega

theorem encodeCp_ascii (c : Nat) (h : c < 0x80) : encodeCp c = [UInt8.ofNat c] := by
  simp [encodeCp, h]

theorem ofNat_eq_iff (c k : Nat) (hc : c < 256) (hk : k < 256) : (UInt8.ofNat c = UInt8.ofNat k) ↔ c = k := by
  constructor
  · intro h
    have := congrArg UInt8.toNat h
    rwa [toNat_ofNat_lt _ hc, toNat_ofNat_lt _ hk] at this
  · intro h; rw [h]

theorem ofNat_le_iff (c k : Nat) (hc : c < 256) (hk : k < 256) : (UInt8.ofNat c ≤ UInt8.ofNat k) ↔ c ≤ k := by
  rw [UInt8.le_iff_toNat_le, toNat_ofNat_lt _ hc, toNat_ofNat_lt _ hk]

/-- on ASCII the byte classes are the char classes -/
theorem ascii_classes (c : Nat) (h : c < 0x80) :
    shouldEscape (UInt8.ofNat c) = shouldEscapeC c ∧
    decide (UInt8.ofNat c ≤ SPACE) = decide (c ≤ 32) ∧
    isAlpha (UInt8.ofNat c) = isAsciiAlphaC c ∧
    isValidCommandChar (UInt8.ofNat c) = isValidCommandCharC c := by
  have e : ∀ k : Nat, k < 256 → ((UInt8.ofNat c == UInt8.ofNat k) = (c == k)) := by
    intro k hk
    rw [Bool.eq_iff_iff]; simp only [beq_iff_eq]
    exact ofNat_eq_iff c k (by omega) hk
  have l1 : ∀ k : Nat, k < 256 → (decide (UInt8.ofNat c ≤ UInt8.ofNat k) = decide (c ≤ k)) := by
    intro k hk
    rw [decide_eq_decide]
    exact ofNat_le_iff c k (by omega) hk
  have l2 : ∀ k : Nat, k < 256 → (decide (UInt8.ofNat k ≤ UInt8.ofNat c) = decide (k ≤ c)) := by
    intro k hk
    rw [decide_eq_decide]
    exact ofNat_le_iff k c hk (by omega)
  have hA : isAlpha (UInt8.ofNat c) = isAsciiAlphaC c := by
    have := l2 65 (by decide); have := l1 90 (by decide); have := l2 97 (by decide); have := l1 122 (by decide)
    simp only [isAlpha, isUpper, isLower, isAsciiAlphaC]
    simp_all
  refine ⟨?_, ?_, hA, ?_⟩
  · have := e 92 (by decide); have := e 34 (by decide); have := e 39 (by decide)
    simp only [shouldEscape, shouldEscapeC, BSLASH, QUOTE, SQUOTE]
    simp_all
  · exact l1 32 (by decide)
  · have := e 95 (by decide)
    simp only [isValidCommandChar, isValidCommandCharC, USCORE, hA]
    simp_all

/-- a string: every char is at most `char::MAX` (surrogates need not even be excluded) -/
def Chars (cs : List Nat) : Prop := ∀ c ∈ cs, c < 0x110000

theorem encodeStr_cons (c : Nat) (cs : List Nat) : encodeStr (c :: cs) = encodeCp c ++ encodeStr cs := by
  simp [encodeStr]

theorem encodeStr_append (a b : List Nat) : encodeStr (a ++ b) = encodeStr a ++ encodeStr b := by
  simp [encodeStr]

theorem high_charclass (c : Nat) (h : 0x80 ≤ c) :
    shouldEscapeC c = false ∧ isValidCommandCharC c = false ∧ isAsciiAlphaC c = false := by
  refine ⟨?_, ?_, ?_⟩
  · simp only [shouldEscapeC, Bool.or_eq_false_iff, beq_eq_false_iff_ne]; omega
  · simp only [isValidCommandCharC, isAsciiAlphaC, Bool.or_eq_false_iff, Bool.and_eq_false_iff,
      decide_eq_false_iff_not, beq_eq_false_iff_ne]; omega
  · simp only [isAsciiAlphaC, Bool.or_eq_false_iff, Bool.and_eq_false_iff, decide_eq_false_iff_not]; omega

theorem escBody_high_append (p rest : Bytes) (h : ∀ b ∈ p, 128 ≤ b.toNat) :
    escBody (p ++ rest) = p ++ escBody rest := by
  induction p with
  | nil => rfl
  | cons b bs ih =>
    have hb := (high_not_special b (h b (by simp))).1
    simp only [List.cons_append, escBody, hb]
    rw [ih (fun x hx => h x (by simp [hx]))]
    rfl

theorem any_high_append (f : UInt8 → Bool) (p rest : Bytes) (h : ∀ b ∈ p, f b = false) :
    (p ++ rest).any f = rest.any f := by
  induction p with
  | nil => rfl
  | cons b bs ih =>
    simp only [List.cons_append, List.any_cons, h b (by simp), Bool.false_or]
    exact ih (fun x hx => h x (by simp [hx]))

/-- the escaping loop -/
theorem escBody_encode (cs : List Nat) (h : Chars cs) : escBody (encodeStr cs) = encodeStr (escBodyC cs) := by
  induction cs with
  | nil => rfl
  | cons c cs ih =>
    have ih := ih (fun x hx => h x (by simp [hx]))
    rw [encodeStr_cons]
    by_cases hc : c < 0x80
    · rw [encodeCp_ascii c hc]
      have hcl := (ascii_classes c hc).1
      have hb : encodeCp 92 = [BSLASH] := by decide
      cases he : shouldEscapeC c
      · simp [escBody, escBodyC, hcl, he, encodeStr_cons, encodeCp_ascii c hc, ih]
      · simp [escBody, escBodyC, hcl, he, encodeStr_cons, encodeCp_ascii c hc, ih, hb]
    · have hh := encodeCp_high c (by omega) (h c (by simp))
      rw [escBody_high_append _ _ hh, ih]
      simp [escBodyC, (high_charclass c (by omega)).1, encodeStr_cons]

theorem any_shouldEscape_encode (cs : List Nat) (h : Chars cs) :
    (encodeStr cs).any shouldEscape = cs.any shouldEscapeC := by
  induction cs with
  | nil => rfl
  | cons c cs ih =>
    have ih := ih (fun x hx => h x (by simp [hx]))
    rw [encodeStr_cons]
    by_cases hc : c < 0x80
    · rw [encodeCp_ascii c hc]
      simp only [List.cons_append, List.nil_append, List.any_cons, (ascii_classes c hc).1, ih]
    · have hh := encodeCp_high c (by omega) (h c (by simp))
      rw [any_high_append _ _ _ (fun b hb => (high_not_special b (hh b hb)).1), ih]
      simp only [List.any_cons, (high_charclass c (by omega)).1, Bool.false_or]

theorem filter_length_zero (cs : List Nat) :
    ((cs.filter shouldEscapeC).length == 0) = !(cs.any shouldEscapeC) := by
  induction cs with
  | nil => rfl
  | cons c cs ih =>
    by_cases he : shouldEscapeC c
    · simp [List.filter_cons, he]
    · simp only [List.filter_cons, he, List.any_cons, Bool.false_or]
      exact ih

/-- **`escape_argument` on the chars of a string = the bytewise model on its bytes** -/
theorem escapeArgument_encode (cs : List Nat) (h : Chars cs) :
    escapeArgument (encodeStr cs) = encodeStr (escapeArgumentC cs) := by
  simp only [escapeArgument, escapeArgumentC, needsQuotes]
  rw [any_shouldEscape_encode cs h, filter_length_zero]
  have hq : encodeCp 34 = [QUOTE] := by decide
  rw [escBody_encode cs h]
  rcases Bool.eq_false_or_eq_true ((encodeStr cs).isEmpty || (encodeStr cs).any (· ≤ SPACE)) with hq2 | hq2 <;>
  rcases Bool.eq_false_or_eq_true (cs.any shouldEscapeC) with he | he <;>
  simp only [hq2, he] <;> simp [encodeStr_append, encodeStr_cons, hq] <;> simp [encodeStr]

theorem encodeCp_ne_nil (c : Nat) : ∃ b tl, encodeCp c = b :: tl := by
  unfold encodeCp
  split
  · exact ⟨_, _, rfl⟩
  · split
    · exact ⟨_, _, rfl⟩
    · split <;> exact ⟨_, _, rfl⟩

/-- `char_indices().find(…)`: the byte offset of the first unacceptable char is the index of the first
unacceptable byte -/
theorem firstBadNameChar_encode (cs : List Nat) (h : Chars cs) (i : Nat) :
    firstBadNameChar i (encodeStr cs) = firstBadNameCharC i cs := by
  induction cs generalizing i with
  | nil => rfl
  | cons c cs ih =>
    have ih := ih (fun x hx => h x (by simp [hx]))
    rw [encodeStr_cons]
    by_cases hc : c < 0x80
    · rw [encodeCp_ascii c hc]
      obtain ⟨_, _, hA, hV⟩ := ascii_classes c hc
      simp only [List.cons_append, List.nil_append, firstBadNameChar, firstBadNameCharC, hA, hV,
        encodeCp_ascii c hc, List.length_cons, List.length_nil, ih]
    · obtain ⟨b, tl, hbt⟩ := encodeCp_ne_nil c
      have hh := encodeCp_high c (by omega) (h c (by simp)) b (by rw [hbt]; simp)
      rw [hbt]
      simp only [List.cons_append, firstBadNameChar, firstBadNameCharC,
        (high_not_special b hh).2.2.1, (high_charclass c (by omega)).2.1]
      simp

/-- **`validate_command_part` on the chars of a string = the bytewise model on its bytes** -/
theorem validateCommandPart_encode (cs : List Nat) (h : Chars cs) :
    validateCommandPart (encodeStr cs) = validateCommandPartC cs := by
  unfold validateCommandPart validateCommandPartC
  rw [firstBadNameChar_encode cs h 0]
  rfl

/-! ## filter values -/

theorem replaceByte_high_append (k : UInt8) (hk : k.toNat < 128) (rep p rest : Bytes) (h : ∀ b ∈ p, 128 ≤ b.toNat) :
    Filter.replaceByte k rep (p ++ rest) = p ++ Filter.replaceByte k rep rest := by
  induction p with
  | nil => rfl
  | cons b bs ih =>
    have hb : (b == k) = false := by
      rw [beq_eq_false_iff_ne]; intro e; subst e
      have := h b (by simp); omega
    simp only [List.cons_append, Filter.replaceByte, hb]
    rw [ih (fun x hx => h x (by simp [hx]))]
    rfl

theorem replaceC_chars (k : Nat) (rep cs : List Nat) (hr : Chars rep) (h : Chars cs) : Chars (replaceC k rep cs) := by
  induction cs with
  | nil => intro c hc; simp [replaceC] at hc
  | cons c cs ih =>
    have ih := ih (fun x hx => h x (by simp [hx]))
    intro x hx
    simp only [replaceC] at hx
    split at hx
    · rw [List.mem_append] at hx
      rcases hx with hx | hx
      · exact hr x hx
      · exact ih x hx
    · rw [List.mem_cons] at hx
      rcases hx with rfl | hx
      · exact h x (by simp)
      · exact ih x hx

/-- `str::replace` of an ASCII char on the chars = `replaceByte` on the bytes -/
theorem replaceByte_encode (k : Nat) (hk : k < 0x80) (rep cs : List Nat) (h : Chars cs) :
    Filter.replaceByte (UInt8.ofNat k) (encodeStr rep) (encodeStr cs) = encodeStr (replaceC k rep cs) := by
  induction cs with
  | nil => rfl
  | cons c cs ih =>
    have ih := ih (fun x hx => h x (by simp [hx]))
    rw [encodeStr_cons]
    by_cases hc : c < 0x80
    · rw [encodeCp_ascii c hc]
      have e : (UInt8.ofNat c == UInt8.ofNat k) = (c == k) := by
        rw [Bool.eq_iff_iff]; simp only [beq_iff_eq]
        exact ofNat_eq_iff c k (by omega) (by omega)
      cases hck : (c == k)
      · simp [Filter.replaceByte, replaceC, e, hck, ih, encodeStr_cons, encodeCp_ascii c hc]
      · simp [Filter.replaceByte, replaceC, e, hck, ih, encodeStr_append]
    · have hh := encodeCp_high c (by omega) (h c (by simp))
      rw [replaceByte_high_append _ (by rw [toNat_ofNat_lt _ (by omega)]; exact hk) _ _ _ hh, ih]
      have hck : (c == k) = false := by rw [beq_eq_false_iff_ne]; omega
      simp [replaceC, hck, encodeStr_cons]

theorem any_quote_bslash_encode (cs : List Nat) (h : Chars cs) :
    (encodeStr cs).any (fun b => b == QUOTE || b == BSLASH) = cs.any (fun c => c == 0x22 || c == 0x5C) := by
  induction cs with
  | nil => rfl
  | cons c cs ih =>
    have ih := ih (fun x hx => h x (by simp [hx]))
    rw [encodeStr_cons]
    by_cases hc : c < 0x80
    · rw [encodeCp_ascii c hc]
      have e1 : (UInt8.ofNat c == QUOTE) = (c == 0x22) := by
        rw [Bool.eq_iff_iff]; simp only [beq_iff_eq]
        exact ofNat_eq_iff c 0x22 (by omega) (by decide)
      have e2 : (UInt8.ofNat c == BSLASH) = (c == 0x5C) := by
        rw [Bool.eq_iff_iff]; simp only [beq_iff_eq]
        exact ofNat_eq_iff c 0x5C (by omega) (by decide)
      simp only [List.cons_append, List.nil_append, List.any_cons, e1, e2, ih]
    · have hh := encodeCp_high c (by omega) (h c (by simp))
      rw [any_high_append _ _ _ (fun b hb => by
        have := hh b hb
        have h1 : b ≠ 34 := by intro e; subst e; simp at this
        have h2 : b ≠ 92 := by intro e; subst e; simp at this
        simp [QUOTE, BSLASH, h1, h2]), ih]
      have : (c == 0x22 || c == 0x5C) = false := by
        simp only [Bool.or_eq_false_iff, beq_eq_false_iff_ne]; omega
      simp only [List.any_cons, this, Bool.false_or]

/-- **`escape_filter_value` on the chars of a string = the bytewise model on its bytes** -/
theorem escapeFilterValue_encode (cs : List Nat) (h : Chars cs) :
    Filter.escapeFilterValue (encodeStr cs) = encodeStr (escapeFilterValueC cs) := by
  unfold Filter.escapeFilterValue escapeFilterValueC
  rw [any_quote_bslash_encode cs h]
  have r1 : ([BSLASH, BSLASH, BSLASH, BSLASH] : Bytes) = encodeStr [0x5C, 0x5C, 0x5C, 0x5C] := by decide
  have r2 : ([BSLASH, BSLASH, QUOTE] : Bytes) = encodeStr [0x5C, 0x5C, 0x22] := by decide
  have k1 : BSLASH = UInt8.ofNat 0x5C := by decide
  have k2 : QUOTE = UInt8.ofNat 0x22 := by decide
  rcases Bool.eq_false_or_eq_true (cs.any (fun c => c == 0x22 || c == 0x5C)) with he | he
  · simp only [he, if_true]
    rw [r1, r2, k1, k2, replaceByte_encode 0x5C (by decide) _ cs h,
      replaceByte_encode 0x22 (by decide) _ _ (replaceC_chars _ _ _ (by intro c hc; simp at hc; omega) h)]
  · simp [he]

/-! ## tag names -/

theorem ascii_tagChar (c : Nat) (h : c < 0x80) : isTagChar (UInt8.ofNat c) = isTagCharC c := by
  obtain ⟨_, _, hA, _⟩ := ascii_classes c h
  have e1 : (UInt8.ofNat c == USCORE) = (c == 0x5F) := by
    rw [Bool.eq_iff_iff]; simp only [beq_iff_eq]
    exact ofNat_eq_iff c 0x5F (by omega) (by decide)
  have e2 : (UInt8.ofNat c == DASH) = (c == 0x2D) := by
    rw [Bool.eq_iff_iff]; simp only [beq_iff_eq]
    exact ofNat_eq_iff c 0x2D (by omega) (by decide)
  simp only [isTagChar, isTagCharC, hA, e1, e2]

theorem high_tagChar (b : UInt8) (h : 128 ≤ b.toNat) : isTagChar b = false := by
  have h1 : b ≠ 95 := by intro e; subst e; simp at h
  have h2 : b ≠ 45 := by intro e; subst e; simp at h
  simp [isTagChar, (high_not_special b h).2.2.2, USCORE, DASH, h1, h2]

/-- the validity scan of `Tag::try_from`: the byte offset of the first unacceptable char is the index of
the first unacceptable byte -/
theorem firstBad_tag_encode (cs : List Nat) (h : Chars cs) :
    firstBad isTagChar (encodeStr cs) = firstBadC isTagCharC cs := by
  induction cs with
  | nil => rfl
  | cons c cs ih =>
    have ih := ih (fun x hx => h x (by simp [hx]))
    rw [encodeStr_cons]
    by_cases hc : c < 0x80
    · rw [encodeCp_ascii c hc]
      simp only [List.cons_append, List.nil_append, firstBad, firstBadC, ascii_tagChar c hc, ih,
        encodeCp_ascii c hc, List.length_cons, List.length_nil]
    · obtain ⟨b, tl, hbt⟩ := encodeCp_ne_nil c
      have hh := encodeCp_high c (by omega) (h c (by simp)) b (by rw [hbt]; simp)
      have hcC : isTagCharC c = false := by
        simp only [isTagCharC, (high_charclass c (by omega)).2.2, Bool.false_or, Bool.or_eq_false_iff,
          beq_eq_false_iff_ne]; omega
      rw [hbt]
      simp [firstBad, firstBadC, high_tagChar b hh, hcC]

end Mpd.Utf8

namespace Mpd.Utf8
open Mpd

/-- `0x80 + n` with `n < 64` is a continuation byte -/
theorem isCont_ofNat (n : Nat) (h : n < 64) : isCont (UInt8.ofNat (0x80 + n)) = true := by
  simp only [isCont, Bool.and_eq_true, decide_eq_true_eq]
  constructor
  · rw [show (0x80 : UInt8) = UInt8.ofNat 0x80 from rfl, ofNat_le_iff _ _ (by decide) (by omega)]; omega
  · rw [show (0xBF : UInt8) = UInt8.ofNat 0xBF from rfl, ofNat_le_iff _ _ (by omega) (by decide)]; omega

theorem ofNat_lt_iff (c k : Nat) (hc : c < 256) (hk : k < 256) : (UInt8.ofNat c < UInt8.ofNat k) ↔ c < k := by
  rw [UInt8.lt_iff_toNat_lt, toNat_ofNat_lt _ hc, toNat_ofNat_lt _ hk]


theorem u8_of_toNat (b : UInt8) (n : Nat) (hn : n < 256) (h : b.toNat = n) : b = UInt8.ofNat n := by
  apply UInt8.toNat_inj.mp
  rw [toNat_ofNat_lt _ hn, h]

theorem isCont_iff (b : UInt8) : isCont b = true ↔ 0x80 ≤ b.toNat ∧ b.toNat ≤ 0xBF := by
  simp only [isCont, Bool.and_eq_true, decide_eq_true_eq, UInt8.le_iff_toNat_le]
  simp

theorem valid3 (b0 b1 b2 : UInt8) (rest : Bytes)
    (h0 : 0xE0 ≤ b0.toNat ∧ b0.toNat ≤ 0xEF) (h1 : 0x80 ≤ b1.toNat ∧ b1.toNat ≤ 0xBF)
    (h2 : 0x80 ≤ b2.toNat ∧ b2.toNat ≤ 0xBF)
    (hE0 : b0.toNat = 0xE0 → 0xA0 ≤ b1.toNat) (hED : b0.toNat = 0xED → b1.toNat ≤ 0x9F) :
    validUtf8 (b0 :: b1 :: b2 :: rest) = validUtf8 rest := by
  have c1 : isCont b1 = true := (isCont_iff b1).mpr h1
  have c2 : isCont b2 = true := (isCont_iff b2).mpr h2
  have hcases : b0.toNat = 0xE0 ∨ b0.toNat = 0xED ∨ (0xE1 ≤ b0.toNat ∧ b0.toNat ≤ 0xEC) ∨ b0.toNat = 0xEE ∨ b0.toNat = 0xEF := by omega
  rw [validUtf8]
  have g1 : ¬ (b0 < 0x80) := by rw [UInt8.lt_iff_toNat_lt]; simp; omega
  have g2 : (0xC2 ≤ b0 && b0 ≤ 0xDF) = false := by
    simp only [Bool.and_eq_false_iff, decide_eq_false_iff_not, UInt8.le_iff_toNat_le]; simp; omega
  simp only [g1, g2, if_false]
  rcases hcases with h | h | h | h | h
  · have : b0 = 0xE0 := u8_of_toNat b0 _ (by decide) h
    subst this
    have : (0xA0 ≤ b1 && b1 ≤ 0xBF) = true := by
      simp only [Bool.and_eq_true, decide_eq_true_eq, UInt8.le_iff_toNat_le]; simp; have := hE0 h; omega
    simp [this, c2]
  · have : b0 = 0xED := u8_of_toNat b0 _ (by decide) h
    subst this
    have : (0x80 ≤ b1 && b1 ≤ 0x9F) = true := by
      simp only [Bool.and_eq_true, decide_eq_true_eq, UInt8.le_iff_toNat_le]; simp; have := hED h; omega
    simp [this, c2]
  · have t0 : (b0 == 0xE0) = false := by
      rw [beq_eq_false_iff_ne]; intro e; subst e; simp at h
    have t1 : ((0xE1 ≤ b0 && b0 ≤ 0xEC) || b0 == 0xEE || b0 == 0xEF) = true := by
      have : (0xE1 ≤ b0 && b0 ≤ 0xEC) = true := by
        simp only [Bool.and_eq_true, decide_eq_true_eq, UInt8.le_iff_toNat_le]; simp; omega
      simp [this]
    simp only [t0, t1, c1, c2]
    simp
  · have : b0 = 0xEE := u8_of_toNat b0 _ (by decide) h
    subst this
    simp [c1, c2]
  · have : b0 = 0xEF := u8_of_toNat b0 _ (by decide) h
    subst this
    simp [c1, c2]

theorem valid1 (b0 : UInt8) (rest : Bytes) (h0 : b0.toNat < 0x80) : validUtf8 (b0 :: rest) = validUtf8 rest := by
  have g1 : b0 < 0x80 := by rw [UInt8.lt_iff_toNat_lt]; simpa using h0
  rw [validUtf8.eq_def]
  simp only [g1, if_true]

theorem valid2 (b0 b1 : UInt8) (rest : Bytes) (h0 : 0xC2 ≤ b0.toNat ∧ b0.toNat ≤ 0xDF)
    (h1 : 0x80 ≤ b1.toNat ∧ b1.toNat ≤ 0xBF) : validUtf8 (b0 :: b1 :: rest) = validUtf8 rest := by
  have c1 : isCont b1 = true := (isCont_iff b1).mpr h1
  rw [validUtf8]
  have g1 : ¬ (b0 < 0x80) := by rw [UInt8.lt_iff_toNat_lt]; simp; omega
  have g2 : (0xC2 ≤ b0 && b0 ≤ 0xDF) = true := by
    simp only [Bool.and_eq_true, decide_eq_true_eq, UInt8.le_iff_toNat_le]; simp; omega
  simp only [g1, g2, if_false, if_true, c1, Bool.true_and]

theorem valid4 (b0 b1 b2 b3 : UInt8) (rest : Bytes)
    (h0 : 0xF0 ≤ b0.toNat ∧ b0.toNat ≤ 0xF4) (h1 : 0x80 ≤ b1.toNat ∧ b1.toNat ≤ 0xBF)
    (h2 : 0x80 ≤ b2.toNat ∧ b2.toNat ≤ 0xBF) (h3 : 0x80 ≤ b3.toNat ∧ b3.toNat ≤ 0xBF)
    (hF0 : b0.toNat = 0xF0 → 0x90 ≤ b1.toNat) (hF4 : b0.toNat = 0xF4 → b1.toNat ≤ 0x8F) :
    validUtf8 (b0 :: b1 :: b2 :: b3 :: rest) = validUtf8 rest := by
  have c1 : isCont b1 = true := (isCont_iff b1).mpr h1
  have c2 : isCont b2 = true := (isCont_iff b2).mpr h2
  have c3 : isCont b3 = true := (isCont_iff b3).mpr h3
  have hcases : b0.toNat = 0xF0 ∨ b0.toNat = 0xF1 ∨ b0.toNat = 0xF2 ∨ b0.toNat = 0xF3 ∨ b0.toNat = 0xF4 := by omega
  rw [validUtf8]
  rcases hcases with h | h | h | h | h
  · have : b0 = 0xF0 := u8_of_toNat b0 _ (by decide) h
    subst this
    have : (0x90 ≤ b1 && b1 ≤ 0xBF) = true := by
      simp only [Bool.and_eq_true, decide_eq_true_eq, UInt8.le_iff_toNat_le]; simp; have := hF0 h; omega
    simp [this, c2, c3]
  · have : b0 = 0xF1 := u8_of_toNat b0 _ (by decide) h
    subst this
    simp [c1, c2, c3]
  · have : b0 = 0xF2 := u8_of_toNat b0 _ (by decide) h
    subst this
    simp [c1, c2, c3]
  · have : b0 = 0xF3 := u8_of_toNat b0 _ (by decide) h
    subst this
    simp [c1, c2, c3]
  · have : b0 = 0xF4 := u8_of_toNat b0 _ (by decide) h
    subst this
    have : (0x80 ≤ b1 && b1 ≤ 0x8F) = true := by
      simp only [Bool.and_eq_true, decide_eq_true_eq, UInt8.le_iff_toNat_le]; simp; have := hF4 h; omega
    simp [this, c2, c3]

/-- the encoding of a scalar value is one well-formed UTF-8 sequence -/
theorem validUtf8_encodeCp (c : Nat) (hs : isScalar c = true) (rest : Bytes) :
    validUtf8 (encodeCp c ++ rest) = validUtf8 rest := by
  simp only [isScalar, Bool.or_eq_true, Bool.and_eq_true, decide_eq_true_eq] at hs
  unfold encodeCp
  split
  · exact valid1 _ _ (by rw [toNat_ofNat_lt _ (by omega)]; omega)
  · split
    · exact valid2 _ _ _ (by rw [toNat_ofNat_lt _ (by omega)]; omega) (by rw [toNat_ofNat_lt _ (by omega)]; omega)
    · split
      · exact valid3 _ _ _ _ (by rw [toNat_ofNat_lt _ (by omega)]; omega) (by rw [toNat_ofNat_lt _ (by omega)]; omega)
          (by rw [toNat_ofNat_lt _ (by omega)]; omega)
          (by rw [toNat_ofNat_lt _ (by omega), toNat_ofNat_lt _ (by omega)]; omega)
          (by rw [toNat_ofNat_lt _ (by omega), toNat_ofNat_lt _ (by omega)]; omega)
      · exact valid4 _ _ _ _ _ (by rw [toNat_ofNat_lt _ (by omega)]; omega) (by rw [toNat_ofNat_lt _ (by omega)]; omega)
          (by rw [toNat_ofNat_lt _ (by omega)]; omega) (by rw [toNat_ofNat_lt _ (by omega)]; omega)
          (by rw [toNat_ofNat_lt _ (by omega), toNat_ofNat_lt _ (by omega)]; omega)
          (by rw [toNat_ofNat_lt _ (by omega), toNat_ofNat_lt _ (by omega)]; omega)

/-- **every Rust string is in the model's domain**: the bytes of a `str` (the encodings of scalar values)
pass the model's `validUtf8` (the predicate the model applies where the code calls `from_utf8`) -/
theorem validUtf8_encodeStr (cs : List Nat) (h : ∀ c ∈ cs, isScalar c = true) : validUtf8 (encodeStr cs) = true := by
  induction cs with
  | nil => rfl
  | cons c cs ih =>
    rw [encodeStr_cons, validUtf8_encodeCp c (h c (by simp))]
    exact ih (fun x hx => h x (by simp [hx]))

theorem chars_of_scalar (cs : List Nat) (h : ∀ c ∈ cs, isScalar c = true) : Chars cs := by
  intro c hc
  have := h c hc
  simp only [isScalar, Bool.or_eq_true, Bool.and_eq_true, decide_eq_true_eq] at this
  omega

end Mpd.Utf8
