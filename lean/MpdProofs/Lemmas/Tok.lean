import Mpd.Command
import MpdSpec.Tokenizer
/-!
# Lemmas relating the command encoder (`Mpd.Cmd`) to MPD's tokenizer (`Spec.Tok`)

Used by C06, C07 and C13 (framing) — and available to C11/C15 for filter/URI arguments.
-/
namespace Mpd.TokL
open Mpd Mpd.Cmd Spec.Tok

theorem forall_uint8 (P : UInt8 → Prop) (h : ∀ n, n < 256 → P (UInt8.ofNat n)) : ∀ a, P a := by
  intro a
  have := h a.toNat a.toNat_lt
  simpa using this

/-! ## byte classes -/

theorem ws_SPACE : isWs SPACE = true := by decide
theorem ws_QUOTE : isWs QUOTE = false := by decide
theorem ws_BSLASH : isWs BSLASH = false := by decide

/-- a command-name byte is a word byte of MPD and no whitespace, quote, NUL or LF -/
theorem cmdChar_facts : ∀ b : UInt8, isValidCommandChar b = true →
    isWs b = false ∧ validWordChar b = true ∧ b ≠ 0 ∧ b ≠ LF := by
  apply forall_uint8; decide +kernel

theorem alpha_cmdChar : ∀ b : UInt8, isAlpha b = true → isValidCommandChar b = true := by
  intro b h; simp [isValidCommandChar, h]

theorem ws_zero : isWs 0 = true := by decide
theorem ws_LF : isWs LF = true := by decide

/-- `b ≤ SPACE` in `needsQuotes` is the tokenizer's whitespace class -/
theorem le_space_eq_isWs (b : UInt8) : decide (b ≤ SPACE) = isWs b := rfl

theorem shouldEscape_not_ws : ∀ b : UInt8, shouldEscape b = true → isWs b = false := by
  apply forall_uint8; decide +kernel

theorem validUnquoted_iff (b : UInt8) :
    validUnquoted b = true ↔ isWs b = false ∧ b ≠ QUOTE ∧ b ≠ SQUOTE := by
  simp [validUnquoted, and_assoc]

theorem shouldEscape_false_iff (b : UInt8) :
    shouldEscape b = false ↔ b ≠ BSLASH ∧ b ≠ QUOTE ∧ b ≠ SQUOTE := by
  simp [shouldEscape, and_assoc]

/-! ## `stripLeft`, `stripRight`, `cstr` -/

theorem stripLeft_head {b : UInt8} {t : Bytes} (h : isWs b = false) : stripLeft (b :: t) = b :: t := by
  simp [stripLeft, h]

theorem stripLeft_ws {b : UInt8} {t : Bytes} (h : isWs b = true) : stripLeft (b :: t) = stripLeft t := by
  simp [stripLeft, h]

theorem stripLeft_append (x y : Bytes) :
    stripLeft (x ++ y) = if x.all isWs then stripLeft y else stripLeft x ++ y := by
  induction x with
  | nil => simp
  | cons b bs ih =>
    by_cases hb : isWs b = true
    · simp [stripLeft, hb, ih]
    · simp [stripLeft, hb]

theorem stripRight_append (l r : Bytes) :
    stripRight (l ++ r) = if r.all isWs then stripRight l else l ++ stripRight r := by
  unfold stripRight
  rw [List.reverse_append, stripLeft_append]
  simp only [List.all_reverse]
  split <;> simp

theorem stripRight_nil : stripRight [] = [] := rfl

/-- a line that ends in a non-whitespace byte is not changed by `StripRight` -/
theorem stripRight_of_last {init : Bytes} {b : UInt8} (h : isWs b = false) :
    stripRight (init ++ [b]) = init ++ [b] := by
  rw [stripRight_append]
  simp [h, stripRight, stripLeft]

theorem cstr_of_no_nul (l : Bytes) (h : (0 : UInt8) ∉ l) : cstr l = l := by
  induction l with
  | nil => rfl
  | cons b bs ih =>
    simp only [List.mem_cons, not_or] at h
    have hb : (b == 0) = false := by simpa using fun e => h.1 e.symm
    simp [cstr, hb, ih h.2]

/-- "ends in a non-whitespace byte" -/
def EndsNW (l : Bytes) : Prop := ∃ init b, l = init ++ [b] ∧ isWs b = false

theorem EndsNW.append_left {r : Bytes} (l : Bytes) (h : EndsNW r) : EndsNW (l ++ r) := by
  obtain ⟨i, b, rfl, hb⟩ := h
  exact ⟨l ++ i, b, by simp, hb⟩

theorem EndsNW.stripRight {l : Bytes} (h : EndsNW l) : stripRight l = l := by
  obtain ⟨i, b, rfl, hb⟩ := h
  exact stripRight_of_last hb

theorem EndsNW.of_noWs {l : Bytes} (hne : l ≠ []) (h : ∀ b ∈ l, isWs b = false) : EndsNW l :=
  ⟨l.dropLast, l.getLast hne, (List.dropLast_concat_getLast hne).symm, h _ (List.getLast_mem hne)⟩

/-! ## `escBody` / `escapeArgument` -/

theorem escBody_plain (a : Bytes) (h : a.any shouldEscape = false) : escBody a = a := by
  induction a with
  | nil => rfl
  | cons b bs ih =>
    simp only [List.any_cons, Bool.or_eq_false_iff] at h
    simp [escBody, h.1, ih h.2]

theorem escBody_length (a : Bytes) : a.length ≤ (escBody a).length := by
  induction a with
  | nil => simp [escBody]
  | cons b bs ih => simp only [escBody]; split <;> simp <;> omega

theorem escBody_length_lt (a : Bytes) (h : a.any shouldEscape = true) : a.length < (escBody a).length := by
  induction a with
  | nil => simp at h
  | cons b bs ih =>
    simp only [List.any_cons, Bool.or_eq_true] at h
    simp only [escBody]
    by_cases hb : shouldEscape b = true
    · have := escBody_length bs
      simp [hb]; omega
    · have := ih (by simpa [hb] using h)
      simp [hb]; omega

theorem escBody_ne_of_any (a : Bytes) (h : a.any shouldEscape = true) : escBody a ≠ a := by
  intro e
  have := escBody_length_lt a h
  rw [e] at this
  exact Nat.lt_irrefl _ this

theorem mem_escBody {a : Bytes} {x : UInt8} (h : x ∈ escBody a) : x ∈ a ∨ x = BSLASH := by
  induction a with
  | nil => simp [escBody] at h
  | cons b bs ih =>
    simp only [escBody] at h
    split at h
    · simp only [List.mem_cons] at h
      rcases h with h | h | h
      · exact .inr h
      · exact .inl (by simp [h])
      · rcases ih h with h | h
        · exact .inl (by simp [h])
        · exact .inr h
    · simp only [List.mem_cons] at h
      rcases h with h | h
      · exact .inl (by simp [h])
      · rcases ih h with h | h
        · exact .inl (by simp [h])
        · exact .inr h

theorem escBody_ne_nil {a : Bytes} (h : a ≠ []) : escBody a ≠ [] := by
  cases a with
  | nil => exact absurd rfl h
  | cons b bs => simp only [escBody]; split <;> simp

theorem escapeArgument_eq (a : Bytes) :
    escapeArgument a = if needsQuotes a then QUOTE :: escBody a ++ [QUOTE] else escBody a := by
  unfold escapeArgument
  by_cases hq : needsQuotes a = true
  · simp [hq]
  · by_cases he : a.any shouldEscape = true
    · simp [hq, he]
    · have he' : a.any shouldEscape = false := by simpa using he
      simp [hq, he', escBody_plain a he']

theorem needsQuotes_false_iff (a : Bytes) :
    needsQuotes a = false ↔ a ≠ [] ∧ ∀ b ∈ a, isWs b = false := by
  cases a with
  | nil => simp [needsQuotes]
  | cons x xs =>
    simp only [needsQuotes, List.isEmpty_cons, Bool.false_or, le_space_eq_isWs]
    constructor
    · intro h
      refine ⟨by simp, fun b hb => ?_⟩
      have := List.any_eq_false.mp h b hb
      simpa using this
    · intro ⟨_, h⟩
      exact List.any_eq_false.mpr fun b hb => by simp [h b hb]

/-- the rendering of a string argument is never empty and starts with a non-whitespace byte -/
theorem escapeArgument_head (a : Bytes) : ∃ b t, escapeArgument a = b :: t ∧ isWs b = false := by
  rw [escapeArgument_eq]
  by_cases hq : needsQuotes a = true
  · exact ⟨QUOTE, escBody a ++ [QUOTE], by simp [hq], ws_QUOTE⟩
  · have hq' : needsQuotes a = false := by simpa using hq
    obtain ⟨hne, hws⟩ := (needsQuotes_false_iff a).mp hq'
    simp only [hq', Bool.false_eq_true, if_false]
    cases h : escBody a with
    | nil => exact absurd h (escBody_ne_nil hne)
    | cons b t =>
      refine ⟨b, t, rfl, ?_⟩
      have hb : b ∈ escBody a := by simp [h]
      rcases mem_escBody hb with hb | hb
      · exact hws b hb
      · subst hb; exact ws_BSLASH

/-- … and ends in a non-whitespace byte (closing quote, or the last byte of an unquoted argument) -/
theorem escapeArgument_endsNW (a : Bytes) : EndsNW (escapeArgument a) := by
  rw [escapeArgument_eq]
  by_cases hq : needsQuotes a = true
  · simp only [hq, if_true]
    exact ⟨QUOTE :: escBody a, QUOTE, by simp, ws_QUOTE⟩
  · have hq' : needsQuotes a = false := by simpa using hq
    obtain ⟨hne, hws⟩ := (needsQuotes_false_iff a).mp hq'
    simp only [hq', Bool.false_eq_true, if_false]
    refine EndsNW.of_noWs (escBody_ne_nil hne) fun b hb => ?_
    rcases mem_escBody hb with hb | hb
    · exact hws b hb
    · subst hb; exact ws_BSLASH

theorem mem_escapeArgument {a : Bytes} {x : UInt8} (h : x ∈ escapeArgument a) :
    x ∈ a ∨ x = BSLASH ∨ x = QUOTE := by
  rw [escapeArgument_eq] at h
  split at h
  · simp only [List.cons_append, List.mem_cons, List.mem_append, List.not_mem_nil, or_false] at h
    rcases h with h | h | h
    · exact .inr (.inr h)
    · rcases mem_escBody h with h | h
      · exact .inl h
      · exact .inr (.inl h)
    · exact .inr (.inr h)
  · rcases mem_escBody h with h | h
    · exact .inl h
    · exact .inr (.inl h)

theorem mem_escBody_of_mem {a : Bytes} {x : UInt8} (h : x ∈ a) : x ∈ escBody a := by
  induction a with
  | nil => simp at h
  | cons b bs ih =>
    simp only [List.mem_cons] at h
    simp only [escBody]
    split
    · rcases h with h | h
      · simp [h]
      · simp [ih h]
    · rcases h with h | h
      · simp [h]
      · simp [ih h]

theorem mem_escapeArgument_of_mem {a : Bytes} {x : UInt8} (h : x ∈ a) : x ∈ escapeArgument a := by
  rw [escapeArgument_eq]
  split
  · simp [mem_escBody_of_mem h]
  · exact mem_escBody_of_mem h

/-! ## `NextString` reads back an escaped body -/

theorem stringBody_quote_nil : stringBody [QUOTE] = some ([], []) := by
  rw [stringBody.eq_def]; simp

theorem stringBody_quote_ws (c : UInt8) (t : Bytes) (h : isWs c = true) :
    stringBody (QUOTE :: c :: t) = some ([], stripLeft (c :: t)) := by
  rw [stringBody.eq_def]; simp [h]

theorem stringBody_bslash (c : UInt8) (r : Bytes) :
    stringBody (BSLASH :: c :: r) = (stringBody r).map fun (v, r') => (c :: v, r') := by
  rw [stringBody.eq_def]; simp [BSLASH, QUOTE]

theorem stringBody_plain (b : UInt8) (r : Bytes) (h : shouldEscape b = false) :
    stringBody (b :: r) = (stringBody r).map fun (v, r') => (b :: v, r') := by
  rw [stringBody.eq_def]
  obtain ⟨h1, h2, _⟩ := (shouldEscape_false_iff b).mp h
  simp [h1, h2]

/-- "end of line or whitespace follows" -/
def WsOrEnd (rest : Bytes) : Prop := rest = [] ∨ ∃ c t, rest = c :: t ∧ isWs c = true

/-- `NextString` on `escBody a ++ '"' :: rest` returns exactly `a`, for **every** `a` -/
theorem stringBody_escBody (a rest : Bytes) (hr : WsOrEnd rest) :
    stringBody (escBody a ++ QUOTE :: rest) = some (a, stripLeft rest) := by
  induction a with
  | nil =>
    rcases hr with rfl | ⟨c, t, rfl, hc⟩
    · simpa [escBody, stripLeft] using stringBody_quote_nil
    · simpa [escBody] using stringBody_quote_ws c t hc
  | cons b bs ih =>
    simp only [escBody]
    by_cases hs : shouldEscape b = true
    · simp [hs, stringBody_bslash, ih]
    · have hs' : shouldEscape b = false := by simpa using hs
      simp [hs', stringBody_plain b _ hs', ih]

/-! ## `NextUnquoted` on a run of non-whitespace bytes -/

theorem unquotedBody_run (w rest : Bytes) (hw : ∀ b ∈ w, isWs b = false) (hr : WsOrEnd rest) :
    unquotedBody (w ++ rest) = if w.all validUnquoted then some (w, stripLeft rest) else none := by
  induction w with
  | nil =>
    rcases hr with rfl | ⟨c, t, rfl, hc⟩
    · simp [unquotedBody, stripLeft]
    · simp [unquotedBody, hc, stripLeft]
  | cons b bs ih =>
    have hb : isWs b = false := hw b (by simp)
    have ih' := ih fun x hx => hw x (by simp [hx])
    simp only [List.cons_append, unquotedBody, hb, Bool.false_eq_true, if_false, List.all_cons]
    by_cases hv : validUnquoted b = true
    · simp only [hv, if_true, ih', Bool.true_and]
      split <;> simp
    · simp [hv]

theorem nextUnquoted_run (w rest : Bytes) (hne : w ≠ []) (hw : ∀ b ∈ w, isWs b = false)
    (hr : WsOrEnd rest) :
    nextUnquoted (w ++ rest) = if w.all validUnquoted then some (w, stripLeft rest) else none := by
  cases w with
  | nil => exact absurd rfl hne
  | cons b bs =>
    have h := unquotedBody_run (b :: bs) rest hw hr
    have hb : isWs b = false := hw b (by simp)
    simp only [List.cons_append, unquotedBody, hb, Bool.false_eq_true, if_false] at h
    simpa only [List.cons_append, nextUnquoted] using h

/-! ## `NextWord` on a valid command name -/

theorem wordBody_name (t rest : Bytes) (ht : t.all isValidCommandChar = true) (hr : WsOrEnd rest) :
    wordBody (t ++ rest) = some (t, stripLeft rest) := by
  induction t with
  | nil =>
    rcases hr with rfl | ⟨c, r, rfl, hc⟩
    · simp [wordBody, stripLeft]
    · simp [wordBody, hc, stripLeft]
  | cons b bs ih =>
    simp only [List.all_cons, Bool.and_eq_true] at ht
    obtain ⟨h1, h2, _, _⟩ := cmdChar_facts b ht.1
    simp [wordBody, h1, h2, ih ht.2]

/-- a name the builder accepts is one word for MPD -/
structure NameOk (n : Bytes) : Prop where
  ne : n ≠ []
  first : ∃ b t, n = b :: t ∧ isAlpha b = true
  chars : n.all isValidCommandChar = true
  notList : startsWith n (str "command_list") = false

theorem nextWord_name {n : Bytes} (hn : NameOk n) (rest : Bytes) (hr : WsOrEnd rest) :
    nextWord (n ++ rest) = some (n, stripLeft rest) := by
  obtain ⟨b, t, rfl, hb⟩ := hn.first
  have hc := hn.chars
  simp only [List.all_cons, Bool.and_eq_true] at hc
  simp [nextWord, validWordFirst, hb, wordBody_name t rest hc.2 hr]

theorem NameOk.endsNW {n : Bytes} (hn : NameOk n) : EndsNW n :=
  EndsNW.of_noWs hn.ne fun b hb => (cmdChar_facts b (List.all_eq_true.mp hn.chars b hb)).1

theorem NameOk.no_nul {n : Bytes} (hn : NameOk n) : (0 : UInt8) ∉ n := fun h =>
  (cmdChar_facts 0 (List.all_eq_true.mp hn.chars 0 h)).2.2.1 rfl

theorem NameOk.no_lf {n : Bytes} (hn : NameOk n) : LF ∉ n := fun h =>
  (cmdChar_facts LF (List.all_eq_true.mp hn.chars LF h)).2.2.2 rfl

/-! ## `splitLines` -/

theorem go_line (l rest acc : Bytes) (h : LF ∉ l) :
    splitLines.go (l ++ LF :: rest) acc = (splitLines.go rest []).map ((acc.reverse ++ l) :: ·) := by
  induction l generalizing acc with
  | nil => simp [splitLines.go]
  | cons b bs ih =>
    simp only [List.mem_cons, not_or] at h
    have hb : (b == LF) = false := by simpa using fun e => h.1 e.symm
    simp [splitLines.go, hb, ih _ h.2]

theorem splitLines_eq_go (l : Bytes) : splitLines l = splitLines.go l [] := by
  cases l <;> simp [splitLines, splitLines.go]

/-- a stream made of LF-free lines, each followed by LF, splits into exactly those lines -/
theorem splitLines_lines (ls : List Bytes) (h : ∀ l ∈ ls, LF ∉ l) :
    splitLines (ls.flatMap fun l => l ++ [LF]) = some ls := by
  rw [splitLines_eq_go]
  induction ls with
  | nil => simp [splitLines.go]
  | cons l ls ih =>
    have h1 := h l (by simp)
    have h2 := ih fun x hx => h x (by simp [hx])
    simp only [List.flatMap_cons, List.append_assoc, List.singleton_append]
    rw [go_line l _ [] h1, h2]
    simp

theorem splitLines_one (l : Bytes) (h : LF ∉ l) : splitLines (l ++ [LF]) = some [l] := by
  have := splitLines_lines [l] (by simpa using h)
  simpa using this

/-! ## `Command::build` accepts exactly the `NameOk` names -/

theorem firstBad_succ (i : Nat) (l : Bytes) :
    firstBadNameChar (i + 1) l = none ↔ l.all isValidCommandChar = true := by
  induction l generalizing i with
  | nil => simp [firstBadNameChar]
  | cons b bs ih =>
    by_cases hb : isValidCommandChar b = true
    · simp [firstBadNameChar, hb, ih]
    · simp [firstBadNameChar, hb]

theorem firstBad_zero (l : Bytes) :
    firstBadNameChar 0 l = none ↔
      l.all isValidCommandChar = true ∧ (l = [] ∨ ∃ b t, l = b :: t ∧ isAlpha b = true) := by
  cases l with
  | nil => simp [firstBadNameChar]
  | cons b bs =>
    by_cases hb : isValidCommandChar b = true
    · by_cases ha : isAlpha b = true
      · simp [firstBadNameChar, hb, ha, firstBad_succ]
      · simp [firstBadNameChar, hb, ha]
    · simp [firstBadNameChar, hb]

theorem build_ok_iff (n c : Bytes) : build n = .ok c ↔ c = n ∧ NameOk n := by
  unfold build validateCommandPart
  cases n with
  | nil =>
    simp only [List.isEmpty_nil, if_true]
    constructor
    · intro h; cases h
    · intro ⟨_, h⟩; exact absurd rfl h.ne
  | cons b bs =>
    simp only [List.isEmpty_cons, Bool.false_eq_true, if_false]
    cases hf : firstBadNameChar 0 (b :: bs) with
    | some i =>
      simp only
      constructor
      · intro h; cases h
      · intro ⟨_, h⟩
        have := (firstBad_zero (b :: bs)).mpr ⟨h.chars, .inr h.first⟩
        rw [hf] at this; cases this
    | none =>
      obtain ⟨hc, hfst⟩ := (firstBad_zero (b :: bs)).mp hf
      have hfst' : ∃ x t, b :: bs = x :: t ∧ isAlpha x = true := by
        rcases hfst with h | h
        · cases h
        · exact h
      simp only [isCommandListCommand]
      by_cases hl : startsWith (b :: bs) (str "command_list") = true
      · simp only [hl, if_true]
        constructor
        · intro h; cases h
        · intro ⟨_, h⟩
          have := h.notList
          rw [hl] at this; cases this
      · have hl' : startsWith (b :: bs) (str "command_list") = false := by simpa using hl
        simp only [hl', Bool.false_eq_true, if_false]
        constructor
        · intro h
          cases h
          exact ⟨rfl, ⟨by simp, hfst', hc, hl'⟩⟩
        · intro ⟨h, _⟩; rw [h]

/-! ## `validate_argument` / `Command::add_argument` on arbitrary rendered bytes -/

/-- the rendered bytes pass `validate_argument` -/
def Clean (r : Bytes) : Prop := LF ∉ r ∧ (0 : UInt8) ∉ r

instance (r : Bytes) : Decidable (Clean r) := by unfold Clean; infer_instance

theorem firstForbidden_none_iff (r : Bytes) : firstForbidden r = none ↔ Clean r := by
  unfold Clean
  induction r with
  | nil => simp [firstForbidden]
  | cons b bs ih =>
    simp only [firstForbidden, List.mem_cons, not_or]
    by_cases h1 : b = LF
    · simp [h1]
    · by_cases h2 : b = 0
      · simp [h2]
      · have e1 : ¬ LF = b := fun e => h1 e.symm
        have e2 : ¬ (0 : UInt8) = b := fun e => h2 e.symm
        simp [h1, h2, e1, e2, ih]

theorem drop_rendered (c r : Bytes) : (c ++ SPACE :: r).drop (c.length + 1) = r := by
  induction c with
  | nil => simp
  | cons x xs ih => simp

theorem take_rendered (c r : Bytes) : (c ++ SPACE :: r).take c.length = c := by
  simp

theorem addRendered_clean (c r : Bytes) (h : Clean r) :
    addRendered c r = (.ok (c ++ SPACE :: r), c ++ SPACE :: r) := by
  simp [addRendered, validateArgument, (firstForbidden_none_iff r).mpr h]

theorem addRendered_unclean (c r : Bytes) (h : ¬ Clean r) :
    ∃ i, addRendered c r = (.error (.invalidChar i), c) := by
  cases hf : firstForbidden r with
  | none => exact absurd ((firstForbidden_none_iff r).mp hf) h
  | some i => exact ⟨i, by simp [addRendered, validateArgument, hf]⟩

/-- a string argument is rendered clean iff it is clean itself -/
theorem clean_escapeArgument (a : Bytes) : Clean (escapeArgument a) ↔ Clean a := by
  unfold Clean
  constructor
  · intro ⟨h1, h2⟩
    exact ⟨fun h => h1 (mem_escapeArgument_of_mem h), fun h => h2 (mem_escapeArgument_of_mem h)⟩
  · intro ⟨h1, h2⟩
    constructor
    · intro h
      rcases mem_escapeArgument h with h | h | h
      · exact h1 h
      · exact absurd h (by decide)
      · exact absurd h (by decide)
    · intro h
      rcases mem_escapeArgument h with h | h | h
      · exact h2 h
      · exact absurd h (by decide)
      · exact absurd h (by decide)

end Mpd.TokL
