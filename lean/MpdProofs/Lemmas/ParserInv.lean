import Mpd.Parser
/-!
# Exact characterisation of when the parser primitives succeed

`p i = ok v r ↔ …` for every primitive, from which the wire format accepted by each production
is derived (`MpdProofs/Lemmas/Wire.lean`).
-/
namespace Mpd.Parser

theorem tag_ok_iff (t i r : Bytes) : tag t i = .ok () r ↔ i = t ++ r := by
  induction t generalizing i with
  | nil => simp [tag, eq_comm]
  | cons a ts ih =>
    cases i with
    | nil => simp [tag]
    | cons b bs =>
      simp only [tag, List.cons_append, List.cons.injEq]
      split
      · rename_i h; subst h; simp [ih]
      · rename_i h; simp; intro h'; exact absurd h'.symm h

theorem char_ok_iff (c : UInt8) (i r : Bytes) : char c i = .ok () r ↔ i = c :: r := by
  cases i with
  | nil => simp [char]
  | cons b bs =>
    simp only [char, List.cons.injEq]
    split
    · rename_i h; subst h; simp [eq_comm]
    · rename_i h; simp; intro h'; exact absurd h' h

/-- the result of a run-parser: the longest non-empty prefix satisfying `p`, followed by a byte that
does not -/
theorem takeWhile1_ok_iff (p : UInt8 → Bool) (i v r : Bytes) :
    takeWhile1 p i = .ok v r ↔
      v ≠ [] ∧ v.all p = true ∧ i = v ++ r ∧ ∃ b r', r = b :: r' ∧ p b = false := by
  induction i generalizing v with
  | nil => simp [takeWhile1]; intro h1 _ h3; exact absurd h3 h1
  | cons b bs ih =>
    simp only [takeWhile1]
    by_cases hb : p b = true
    · simp only [hb, if_true]
      cases h : takeWhile1 p bs with
      | ok v' r' =>
        have := (ih v').mp
        simp only [Res.ok.injEq]
        constructor
        · rintro ⟨rfl, rfl⟩
          obtain ⟨h1, h2, h3, h4⟩ := (ih v').mp (by rw [h])
          exact ⟨by simp, by simp [hb, h2], by simp [h3], h4⟩
        · rintro ⟨h1, h2, h3, h4⟩
          cases v with
          | nil => exact absurd rfl h1
          | cons x xs =>
            simp only [List.cons_append, List.cons.injEq] at h3
            obtain ⟨rfl, h3⟩ := h3
            simp only [List.all_cons, Bool.and_eq_true] at h2
            cases xs with
            | nil =>
              -- then bs = r starts with a failing byte, so takeWhile1 p bs = error
              obtain ⟨c, r'', rfl, hc⟩ := h4
              simp only [List.nil_append] at h3
              subst h3
              simp [takeWhile1, hc] at h
            | cons y ys =>
              have := (ih (y :: ys)).mpr ⟨by simp, h2.2, h3, h4⟩
              rw [h] at this
              simp only [Res.ok.injEq] at this
              simp [this.1, this.2]
      | incomplete =>
        simp only [reduceCtorEq, false_iff]
        rintro ⟨h1, h2, h3, h4⟩
        cases v with
        | nil => exact h1 rfl
        | cons x xs =>
          simp only [List.cons_append, List.cons.injEq] at h3
          simp only [List.all_cons, Bool.and_eq_true] at h2
          cases xs with
          | nil =>
            obtain ⟨c, r'', rfl, hc⟩ := h4
            simp only [List.nil_append] at h3
            rw [h3.2] at h
            simp [takeWhile1, hc] at h
          | cons y ys =>
            have := (ih (y :: ys)).mpr ⟨by simp, h2.2, h3.2, h4⟩
            rw [h] at this
            simp at this
      | error =>
        simp only [Res.ok.injEq]
        -- bs starts with a failing byte (or is…): takeWhile1 p bs = error means bs = c :: _ with ¬p c
        have hbs : ∃ c r'', bs = c :: r'' ∧ p c = false := by
          cases bs with
          | nil => simp [takeWhile1] at h
          | cons c r'' =>
            refine ⟨c, r'', rfl, ?_⟩
            simp only [takeWhile1] at h
            split at h
            · split at h <;> simp at h
            · rename_i hc; simpa using hc
        constructor
        · rintro ⟨rfl, rfl⟩
          exact ⟨by simp, by simp [hb], by simp, hbs⟩
        · rintro ⟨h1, h2, h3, h4⟩
          cases v with
          | nil => exact absurd rfl h1
          | cons x xs =>
            simp only [List.cons_append, List.cons.injEq] at h3
            obtain ⟨rfl, h3⟩ := h3
            simp only [List.all_cons, Bool.and_eq_true] at h2
            cases xs with
            | nil => simp at h3; simp [h3]
            | cons y ys =>
              have := (ih (y :: ys)).mpr ⟨by simp, h2.2, h3, h4⟩
              rw [h] at this
              simp at this
      | failure =>
        -- impossible: takeWhile1 never fails hard
        exfalso
        clear ih
        induction bs with
        | nil => simp [takeWhile1] at h
        | cons c cs ih2 =>
          simp only [takeWhile1] at h
          split at h
          · split at h <;> simp at h
          · simp at h
    · simp only [hb]
      simp only [Bool.false_eq_true, if_false, reduceCtorEq, false_iff]
      rintro ⟨h1, h2, h3, _⟩
      cases v with
      | nil => exact h1 rfl
      | cons x xs =>
        simp only [List.cons_append, List.cons.injEq] at h3
        simp only [List.all_cons, Bool.and_eq_true] at h2
        rw [← h3.1] at h2
        exact hb h2.1

theorem takeWhile_ok_iff (p : UInt8 → Bool) (i v r : Bytes) :
    takeWhile p i = .ok v r ↔ v.all p = true ∧ i = v ++ r ∧ ∃ b r', r = b :: r' ∧ p b = false := by
  induction i generalizing v with
  | nil => simp [takeWhile]; intro _ _ h3 x y h4; simp [h3] at h4
  | cons b bs ih =>
    simp only [takeWhile]
    by_cases hb : p b = true
    · simp only [hb, if_true]
      cases h : takeWhile p bs with
      | ok v' r' =>
        simp only [Res.ok.injEq]
        constructor
        · rintro ⟨rfl, rfl⟩
          obtain ⟨h2, h3, h4⟩ := (ih v').mp (by rw [h])
          exact ⟨by simp [hb, h2], by simp [h3], h4⟩
        · rintro ⟨h2, h3, h4⟩
          cases v with
          | nil =>
            obtain ⟨c, r'', rfl, hc⟩ := h4
            simp only [List.nil_append, List.cons.injEq] at h3
            rw [h3.1] at hb; simp [hb] at hc
          | cons x xs =>
            simp only [List.cons_append, List.cons.injEq] at h3
            obtain ⟨rfl, h3⟩ := h3
            simp only [List.all_cons, Bool.and_eq_true] at h2
            have := (ih xs).mpr ⟨h2.2, h3, h4⟩
            rw [h] at this
            simp only [Res.ok.injEq] at this
            simp [this.1, this.2]
      | incomplete =>
        simp only [reduceCtorEq, false_iff]
        rintro ⟨h2, h3, h4⟩
        cases v with
        | nil =>
          obtain ⟨c, r'', rfl, hc⟩ := h4
          simp only [List.nil_append, List.cons.injEq] at h3
          rw [h3.1] at hb; simp [hb] at hc
        | cons x xs =>
          simp only [List.cons_append, List.cons.injEq] at h3
          simp only [List.all_cons, Bool.and_eq_true] at h2
          have := (ih xs).mpr ⟨h2.2, h3.2, h4⟩
          rw [h] at this
          simp at this
      | error =>
        exfalso
        clear ih
        induction bs with
        | nil => simp [takeWhile] at h
        | cons c cs ih2 =>
          simp only [takeWhile] at h
          split at h
          · cases h' : takeWhile p cs <;> rw [h'] at h <;> simp at h
            exact ih2 h'
          · simp at h
      | failure =>
        exfalso
        clear ih
        induction bs with
        | nil => simp [takeWhile] at h
        | cons c cs ih2 =>
          simp only [takeWhile] at h
          split at h
          · cases h' : takeWhile p cs <;> rw [h'] at h <;> simp at h
            exact ih2 h'
          · simp at h
    · have hb' : p b = false := by simpa using hb
      simp only [hb', Bool.false_eq_true, if_false, Res.ok.injEq]
      constructor
      · rintro ⟨rfl, rfl⟩
        exact ⟨by simp, by simp, b, bs, rfl, hb'⟩
      · rintro ⟨h2, h3, h4⟩
        cases v with
        | nil => simp at h3; simp [h3]
        | cons x xs =>
          simp only [List.cons_append, List.cons.injEq] at h3
          simp only [List.all_cons, Bool.and_eq_true] at h2
          rw [← h3.1] at h2
          simp [hb'] at h2

theorem takeUntilLF_ok_iff (i v r : Bytes) :
    takeUntilLF i = .ok v r ↔ LF ∉ v ∧ i = v ++ r ∧ ∃ r', r = LF :: r' := by
  induction i generalizing v with
  | nil => simp [takeUntilLF]; intro _ _ h3 x h4; simp [h3] at h4
  | cons b bs ih =>
    simp only [takeUntilLF]
    by_cases hb : b = LF
    · subst hb
      simp only [if_true, Res.ok.injEq]
      constructor
      · rintro ⟨rfl, rfl⟩; exact ⟨by simp, by simp, bs, rfl⟩
      · rintro ⟨h1, h2, _⟩
        cases v with
        | nil => simp at h2; simp [h2]
        | cons x xs =>
          simp only [List.cons_append, List.cons.injEq] at h2
          rw [← h2.1] at h1
          simp at h1
    · simp only [hb, if_false]
      cases h : takeUntilLF bs with
      | ok v' r' =>
        simp only [Res.ok.injEq]
        constructor
        · rintro ⟨rfl, rfl⟩
          obtain ⟨h1, h2, h3⟩ := (ih v').mp (by rw [h])
          refine ⟨?_, by simp [h2], h3⟩
          simp only [List.mem_cons, not_or]
          exact ⟨fun h' => hb h'.symm, h1⟩
        · rintro ⟨h1, h2, h3⟩
          cases v with
          | nil =>
            obtain ⟨r'', rfl⟩ := h3
            simp only [List.nil_append, List.cons.injEq] at h2
            exact absurd h2.1 hb
          | cons x xs =>
            simp only [List.cons_append, List.cons.injEq] at h2
            obtain ⟨rfl, h2⟩ := h2
            simp only [List.mem_cons, not_or] at h1
            have := (ih xs).mpr ⟨h1.2, h2, h3⟩
            rw [h] at this
            simp only [Res.ok.injEq] at this
            simp [this.1, this.2]
      | incomplete =>
        simp only [reduceCtorEq, false_iff]
        rintro ⟨h1, h2, h3⟩
        cases v with
        | nil =>
          obtain ⟨r'', rfl⟩ := h3
          simp only [List.nil_append, List.cons.injEq] at h2
          exact absurd h2.1 hb
        | cons x xs =>
          simp only [List.cons_append, List.cons.injEq] at h2
          simp only [List.mem_cons, not_or] at h1
          have := (ih xs).mpr ⟨h1.2, h2.2, h3⟩
          rw [h] at this
          simp at this
      | error =>
        exfalso
        clear ih
        induction bs with
        | nil => simp [takeUntilLF] at h
        | cons c cs ih2 =>
          simp only [takeUntilLF] at h
          split at h
          · simp at h
          · cases h' : takeUntilLF cs <;> rw [h'] at h <;> simp at h
            exact ih2 h'
      | failure =>
        exfalso
        clear ih
        induction bs with
        | nil => simp [takeUntilLF] at h
        | cons c cs ih2 =>
          simp only [takeUntilLF] at h
          split at h
          · simp at h
          · cases h' : takeUntilLF cs <;> rw [h'] at h <;> simp at h
            exact ih2 h'

theorem take_ok_iff (n : Nat) (i v r : Bytes) : take n i = .ok v r ↔ v.length = n ∧ i = v ++ r := by
  simp only [take]
  split
  · rename_i h
    simp only [reduceCtorEq, false_iff]
    rintro ⟨h1, h2⟩
    subst h2
    simp at h
    omega
  · rename_i h
    simp only [Res.ok.injEq]
    constructor
    · rintro ⟨rfl, rfl⟩
      exact ⟨by simp; omega, by simp⟩
    · rintro ⟨h1, h2⟩
      subst h2
      subst h1
      simp

end Mpd.Parser
