/-!
# Message-level skeleton of the idle/noidle discipline: client ∥ wires ∥ MPD server

A closed system at the level of whole protocol messages: the client's control skeleton (the program
points of `Mpd/Loop.lean` with the byte-level detail abstracted away), the two FIFO wires, and an
MPD server obeying the idle rules of `MpdSpec/Server.lean`. All interleavings of callers
(`enqueue`), client steps, server steps, server-side changes and the re-idle timer are actions;
the theorems quantify over ALL action sequences.

* `Skel`: the reachable shapes of (program point, in-flight client lines, in-flight replies,
  server idle flag) — in particular at most ONE reply is ever in flight and the server never reads
  anything but `noidle` while it waits in idle (`viol = false`);
* `Pairing`: every answer handed to a caller is the server's reply to that caller's own request —
  never an idle reply, never another caller's;
* `Events`: events delivered ++ changes still in flight = changes reported, in order.

The tie between this skeleton and the byte-level task model is NOT a theorem: it is validated per
trace by the correspondence run, whose oracle replays the implementation's own writes through the
specification server.
-/
namespace Mpd.Skeleton

abbrev Req := Nat
inductive Line | idle | noidle | req (r : Req) deriving DecidableEq, Repr
inductive Msg | idleReply (chs : List Nat) | reply (r : Req) deriving DecidableEq, Repr
inductive Pc | idling | cancelWait (r : Req) | waiting (r : Req) | waitNext | exited deriving DecidableEq, Repr

structure Sys where
  pc : Pc := .idling
  c2s : List Line := [.idle]
  s2c : List Msg := []
  svIdle : Bool := false
  svPend : List Nat := []
  queue : List Req := []
  events : List Nat := []
  answered : List (Req × Msg) := []
  reported : List Nat := []
  viol : Bool := false
  enq : List Req := []          -- ghost: every request ever issued, in issue order
deriving Repr

inductive Act | enqueue (r : Req) | client | takeCmd | server | change (n : Nat) | tick deriving Repr

def step (s : Sys) : Act → Sys
  | .enqueue r => { s with queue := s.queue ++ [r], enq := s.enq ++ [r] }
  | .change n =>
    if s.svIdle then
      { s with svIdle := false, svPend := [], s2c := s.s2c ++ [.idleReply (s.svPend ++ [n])], reported := s.reported ++ (s.svPend ++ [n]) }
    else { s with svPend := s.svPend ++ [n] }
  | .server =>
    match s.c2s with
    | [] => s
    | .idle :: rest =>
      if s.svPend ≠ [] then { s with c2s := rest, svPend := [], s2c := s.s2c ++ [.idleReply s.svPend], reported := s.reported ++ s.svPend }
      else { s with c2s := rest, svIdle := true }
    | .noidle :: rest =>
      if s.svIdle then { s with c2s := rest, svIdle := false, s2c := s.s2c ++ [.idleReply []] }
      else { s with c2s := rest }
    | .req r :: rest =>
      if s.svIdle then { s with c2s := rest, viol := true }
      else { s with c2s := rest, s2c := s.s2c ++ [.reply r] }
  | .takeCmd =>
    match s.pc, s.queue with
    | .idling, r :: q => { s with pc := .cancelWait r, queue := q, c2s := s.c2s ++ [.noidle] }
    | .waitNext, r :: q => { s with pc := .waiting r, queue := q, c2s := s.c2s ++ [.req r] }
    | _, _ => s
  | .tick =>
    match s.pc with
    | .waitNext => { s with pc := .idling, c2s := s.c2s ++ [.idle] }
    | _ => s
  | .client =>
    match s.pc, s.s2c with
    | .idling, .idleReply chs :: rest => { s with s2c := rest, events := s.events ++ chs, c2s := s.c2s ++ [.idle] }
    | .idling, .reply _ :: rest => { s with s2c := rest, c2s := s.c2s ++ [.idle] } -- (treated as idle reply w/o changes)
    | .cancelWait r, .idleReply chs :: rest => { s with s2c := rest, events := s.events ++ chs, pc := .waiting r, c2s := s.c2s ++ [.req r] }
    | .cancelWait r, .reply _ :: rest => { s with s2c := rest, pc := .waiting r, c2s := s.c2s ++ [.req r] }
    | .waiting r, m :: rest => { s with s2c := rest, answered := s.answered ++ [(r, m)], pc := .waitNext }
    | _, _ => s

/-- the control skeleton: which (pc, c2s, s2c, svIdle) shapes are reachable -/
def Skel (s : Sys) : Prop :=
  s.viol = false ∧
  match s.pc with
  | .idling =>
      (s.c2s = [.idle] ∧ s.s2c = [] ∧ s.svIdle = false) ∨
      (s.c2s = [] ∧ s.s2c = [] ∧ s.svIdle = true) ∨
      (s.c2s = [] ∧ (∃ chs, s.s2c = [.idleReply chs]) ∧ s.svIdle = false)
  | .cancelWait _ =>
      (s.c2s = [.idle, .noidle] ∧ s.s2c = [] ∧ s.svIdle = false) ∨
      (s.c2s = [.noidle] ∧ s.s2c = [] ∧ s.svIdle = true) ∨
      (s.c2s = [.noidle] ∧ (∃ chs, s.s2c = [.idleReply chs]) ∧ s.svIdle = false) ∨
      (s.c2s = [] ∧ (∃ chs, s.s2c = [.idleReply chs]) ∧ s.svIdle = false)
  | .waiting r =>
      (s.c2s = [.noidle, .req r] ∧ s.s2c = [] ∧ s.svIdle = false) ∨
      (s.c2s = [.req r] ∧ s.s2c = [] ∧ s.svIdle = false) ∨
      (s.c2s = [] ∧ s.s2c = [.reply r] ∧ s.svIdle = false)
  | .waitNext => s.c2s = [] ∧ s.s2c = [] ∧ s.svIdle = false
  | .exited => False

def Pairing (s : Sys) : Prop := ∀ p ∈ s.answered, p.2 = .reply p.1

theorem skel_init : Skel {} := by simp [Skel]

theorem skel_step (s : Sys) (a : Act) (h : Skel s) : Skel (step s a) := by
  obtain ⟨hv, hs⟩ := h
  cases a <;> cases hpc : s.pc <;> simp only [hpc] at hs
  all_goals (simp only [step]; try split) <;> simp_all [Skel] <;> grind

theorem pairing_step (s : Sys) (a : Act) (h : Skel s) (hp : Pairing s) : Pairing (step s a) := by
  obtain ⟨hv, hs⟩ := h
  cases a <;> cases hpc : s.pc <;> simp only [hpc] at hs
  all_goals (simp only [step]; try split) <;> simp_all [Pairing] <;> grind

def chsOf : Msg → List Nat
  | .idleReply chs => chs
  | .reply _ => []

def inflight (s : Sys) : List Nat := s.s2c.flatMap chsOf

def Events (s : Sys) : Prop := s.events ++ inflight s = s.reported

theorem events_step (s : Sys) (a : Act) (h : Skel s) (he : Events s) : Events (step s a) := by
  obtain ⟨hv, hs⟩ := h
  cases a <;> cases hpc : s.pc <;> simp only [hpc] at hs
  all_goals (simp only [step]; try split) <;>
    simp_all [Events, inflight, chsOf, List.flatMap_append, List.flatMap_cons, List.flatMap_nil] <;>
    (try (obtain ⟨chs, hchs⟩ := hs.2.1; simp_all [chsOf])) <;> (try grind [chsOf])

theorem reach_inv (as : List Act) : Skel (as.foldl step {}) ∧ Pairing (as.foldl step {}) := by
  suffices ∀ s, Skel s → Pairing s → Skel (as.foldl step s) ∧ Pairing (as.foldl step s) from
    this {} skel_init (by simp [Pairing])
  induction as with
  | nil => intro s h1 h2; exact ⟨h1, h2⟩
  | cons a as ih => intro s h1 h2; exact ih _ (skel_step s a h1) (pairing_step s a h1 h2)

/-- the request being served, if any -/
def serving : Pc → List Req
  | .cancelWait r => [r]
  | .waiting r => [r]
  | _ => []

/-- **FIFO**: answered ++ being served ++ queued = issued, in issue order -/
def Fifo (s : Sys) : Prop := s.answered.map (·.1) ++ serving s.pc ++ s.queue = s.enq

theorem fifo_step (s : Sys) (a : Act) (h : Skel s) (hf : Fifo s) : Fifo (step s a) := by
  obtain ⟨hv, hs⟩ := h
  cases a <;> cases hpc : s.pc <;> simp only [hpc] at hs
  all_goals (simp only [step]; try split) <;> simp_all [Fifo, serving] <;> grind

theorem reach_all (as : List Act) :
    Skel (as.foldl step {}) ∧ Pairing (as.foldl step {}) ∧ Events (as.foldl step {}) ∧ Fifo (as.foldl step {}) := by
  suffices ∀ s, Skel s → Pairing s → Events s → Fifo s →
      Skel (as.foldl step s) ∧ Pairing (as.foldl step s) ∧ Events (as.foldl step s) ∧ Fifo (as.foldl step s) from
    this {} skel_init (by simp [Pairing]) (by simp [Events, inflight]) (by simp [Fifo, serving])
  induction as with
  | nil => intro s h1 h2 h3 h4; exact ⟨h1, h2, h3, h4⟩
  | cons a as ih =>
    intro s h1 h2 h3 h4
    exact ih _ (skel_step s a h1) (pairing_step s a h1 h2) (events_step s a h1 h3) (fifo_step s a h1 h4)

/-- **legality** for every schedule: the server never reads anything but `noidle` while idling -/
theorem legal (as : List Act) : (as.foldl step {}).viol = false := (reach_all as).1.1

/-- **at most one reply in flight**, whatever the schedule -/
theorem one_reply_in_flight (as : List Act) : (as.foldl step {}).s2c.length ≤ 1 := by
  obtain ⟨_, hs⟩ := (reach_all as).1
  cases hpc : (as.foldl step {}).pc <;> simp only [hpc] at hs <;> grind

/-- **at most one request outstanding**: the client→server wire never holds two request lines -/
theorem one_request_outstanding (as : List Act) :
    ((as.foldl step {}).c2s.filter fun l => match l with | .req _ => true | _ => false).length ≤ 1 := by
  obtain ⟨_, hs⟩ := (reach_all as).1
  cases hpc : (as.foldl step {}).pc <;> simp only [hpc] at hs <;> grind

/-! ### non-vacuity: the noidle race — the server answers idle at the moment the client cancels it -/
example :
    let s := [Act.change 3, .server, .enqueue 7, .takeCmd, .server, .client, .server, .client].foldl step {}
    s.answered = [(7, .reply 7)] ∧ s.events = [3] ∧ s.viol = false := by decide

end Mpd.Skeleton



