import MpdProofs.Lemmas.StreamRun
/-!
# Once the read side is dead the task exits — bounded progress (C08)

`Dead s`: the stream has ended (`eof`) or the read fault is set; both are persistent ("faults are
final"). `μ` is a termination measure. With no further input from the environment:

* `step_decreases`: every step the task takes from a dead state strictly decreases `μ` (and the state
  stays dead) — for either poll order of the `select!`;
* `blocked_only_on_timer`: a dead state in which the task is suspended is terminal (`exited` /
  `failed`) or is waiting for the 100 ms timer with nothing to do;
* `tick_decreases`: letting that timer expire strictly decreases `μ`.

Hence (`drain_exits`) the task reaches `exited`/`failed` within `μ s` moves, whatever the scheduler
does; at that point every queued request has been answered (`exitLoop_spec`) and none was lost on
the way (`step_accounted`).
-/
namespace Mpd.Loop
open Mpd Mpd.Builder Mpd.Conn

def Dead (s : St) : Prop := s.eof = true ∨ s.rerr.isSome = true

def bytesLeft (s : St) : Nat := 2 * s.avail.length + s.buf.length

def phase (s : St) : Nat :=
  match s.pc with
  | .exited => 0
  | .failed => 0
  | .idling _ => 1
  | .spawned => 2
  | .waitNext d => if s.now ≥ d then 3 else 4
  | .waiting _ _ => 5
  | .cancelWait _ _ => 5
  | .pwWait _ => 6
  | .connecting => 7

def μ (s : St) : Nat := 16 * bytesLeft s + 8 * s.queue.length + phase s

/-! ## a poll on a dead connection is always ready and never gains bytes -/

theorem pollRecv_dead (s : St) (σ : BState) (h : Dead s) :
    (∃ it, (pollRecv s σ).2 = .ready it) ∧ bytesLeft (pollRecv s σ).1 ≤ bytesLeft s ∧
    (∀ r, (pollRecv s σ).2 = .ready (.resp r) → bytesLeft (pollRecv s σ).1 < bytesLeft s) ∧
    Dead (pollRecv s σ).1 := by
  unfold pollRecv
  have hl := feed_rest_length σ s.buf
  have hp := feed_done_progress σ s.buf
  rcases hf : feed σ s.buf with ⟨σ1, rest1, out⟩
  rw [hf] at hl hp
  simp only at hl hp
  cases out with
  | done r =>
    have := hp r rfl
    refine ⟨⟨_, rfl⟩, ?_, ?_, h⟩
    · simp only [bytesLeft]; omega
    · intro _ _; simp only [bytesLeft]; omega
  | invalid => exact ⟨⟨_, rfl⟩, by simp only [bytesLeft]; omega, by intro r hr; simp at hr, h⟩
  | panic => exact ⟨⟨_, rfl⟩, by simp only [bytesLeft]; omega, by intro r hr; simp at hr, h⟩
  | pending =>
    simp only
    cases hr : s.rerr with
    | some k =>
      refine ⟨⟨_, rfl⟩, by simp only [bytesLeft]; omega, by intro r hr; simp at hr, ?_⟩
      right; simp [hr]
    | none =>
      have he : s.eof = true := by
        rcases h with h | h
        · exact h
        · simp [hr] at h
      simp only
      by_cases ha : s.avail.isEmpty = true
      · simp only [ha, if_true, he]
        refine ⟨⟨_, rfl⟩, by simp only [bytesLeft]; omega, ?_, Or.inl rfl⟩
        intro r hr'
        simp only [RecvPoll.ready.injEq] at hr'
        unfold eofItem at hr'
        split at hr' <;> simp at hr'
      · simp only [ha, Bool.false_eq_true, if_false]
        have hav : 0 < s.avail.length := by
          cases hh : s.avail with
          | nil => simp [hh] at ha
          | cons x xs => simp
        have hl2 := feed_rest_length σ1 (rest1 ++ s.avail)
        have hp2 := feed_done_progress σ1 (rest1 ++ s.avail)
        rcases hf2 : feed σ1 (rest1 ++ s.avail) with ⟨σ2, rest2, out2⟩
        rw [hf2] at hl2 hp2
        simp only [List.length_append] at hl2 hp2
        cases out2 with
        | done r =>
          refine ⟨⟨_, rfl⟩, ?_, ?_, Or.inl he⟩
          · simp only [bytesLeft, List.length_nil]; omega
          · intro _ _; simp only [bytesLeft, List.length_nil]; omega
        | invalid =>
          exact ⟨⟨_, rfl⟩, by simp only [bytesLeft, List.length_nil]; omega, by intro r hr'; simp at hr', Or.inl he⟩
        | panic =>
          exact ⟨⟨_, rfl⟩, by simp only [bytesLeft, List.length_nil]; omega, by intro r hr'; simp at hr', Or.inl he⟩
        | pending =>
          simp only [he, if_true]
          refine ⟨⟨_, rfl⟩, by simp only [bytesLeft, List.length_nil]; omega, ?_, Or.inl rfl⟩
          intro r hr'
          simp only [RecvPoll.ready.injEq] at hr'
          unfold eofItem at hr'
          split at hr' <;> simp at hr'

/-! ## the sub-routines -/

/-- everything but the log, the program point and the queue is untouched -/
def Kept (s s' : St) : Prop :=
  s'.avail = s.avail ∧ s'.buf = s.buf ∧ s'.now = s.now ∧ s'.eof = s.eof ∧ s'.rerr = s.rerr ∧
  s'.senders = s.senders ∧ s'.werr = s.werr

theorem kept_refl (s : St) : Kept s s := ⟨rfl, rfl, rfl, rfl, rfl, rfl, rfl⟩
theorem kept_trans {a b c : St} (h1 : Kept a b) (h2 : Kept b c) : Kept a c := by
  obtain ⟨a1, a2, a3, a4, a5, a6, a7⟩ := h1
  obtain ⟨b1, b2, b3, b4, b5, b6, b7⟩ := h2
  exact ⟨b1.trans a1, b2.trans a2, b3.trans a3, b4.trans a4, b5.trans a5, b6.trans a6, b7.trans a7⟩

theorem kept_dead {s s' : St} (h : Kept s s') (hd : Dead s) : Dead s' := by
  unfold Dead at *; rw [h.2.2.2.1, h.2.2.2.2.1]; exact hd

theorem kept_bytes {s s' : St} (h : Kept s s') : bytesLeft s' = bytesLeft s := by
  unfold bytesLeft; rw [h.1, h.2.1]

theorem kept_foldl_emit (q : List Req) (s : St) :
    Kept s (q.foldl (fun s r => emit s (.resolved r.id .closed)) s) := by
  induction q generalizing s with
  | nil => exact kept_refl s
  | cons r rest ih => exact kept_trans (a := s) (b := emit s (.resolved r.id .closed)) (kept_refl s) (ih _)

theorem kept_exitLoop (s : St) : Kept s (exitLoop s) := by
  unfold exitLoop
  have := kept_foldl_emit s.queue s
  exact this

theorem μ_exitLoop (s : St) : μ (exitLoop s) = 16 * bytesLeft s := by
  have hk := kept_exitLoop s
  obtain ⟨h1, h2, _⟩ := exitLoop_spec s
  unfold μ phase
  rw [kept_bytes hk, h1, h2]
  simp

theorem kept_emitEvents (s : St) (f : AFrame) : Kept s (emitEvents s f) ∧ (emitEvents s f).queue = s.queue := by
  unfold emitEvents
  generalize changedValues f = l
  induction l generalizing s with
  | nil => exact ⟨kept_refl s, rfl⟩
  | cons n rest ih =>
    have := ih (emit s (.event n))
    exact ⟨kept_trans (a := s) (b := emit s (.event n)) (kept_refl s) this.1, this.2⟩

theorem write_cases (s : St) (b : Bytes) (w : WKind) :
    (s.werr = none ∧ write s b w = (emit s (.wrote b w), none)) ∨ (∃ k, s.werr = some k ∧ write s b w = (s, some k)) := by
  unfold write
  cases h : s.werr with
  | none => left; exact ⟨rfl, rfl⟩
  | some k => right; exact ⟨k, rfl, rfl⟩

theorem kept_emit (s : St) (o : Obs) : Kept s (emit s o) := ⟨rfl, rfl, rfl, rfl, rfl, rfl, rfl⟩

theorem kept_exit_emit {s x : St} (o : Obs) (h : Kept s x) : Kept s (exitLoop (emit x o)) :=
  kept_trans h (kept_trans (kept_emit x o) (kept_exitLoop _))

theorem μ_exit_emit {s x : St} (o : Obs) (h : Kept s x) : μ (exitLoop (emit x o)) = 16 * bytesLeft s := by
  rw [μ_exitLoop, kept_bytes (kept_emit x o), kept_bytes h]

theorem afterReply_μ (s : St) (d : Nat) :
    Kept s (afterReply s d) ∧
    μ (afterReply s d) ≤ 16 * bytesLeft s +
      (match s.queue with
       | [] => if s.now ≥ d then 1 else 4
       | _ :: q => 8 * q.length + 5) := by
  unfold afterReply
  cases hq : s.queue with
  | nil =>
    simp only
    by_cases hs : s.senders = 0
    · simp only [hs, if_true]
      refine ⟨kept_exitLoop s, ?_⟩
      rw [μ_exitLoop]; split <;> omega
    · simp only [hs, if_false]
      by_cases hd : s.now ≥ d
      · simp only [hd, if_true]
        rcases write_cases s IDLE _ with ⟨_, h⟩ | ⟨k, _, h⟩ <;> rw [h] <;> simp only
        · refine ⟨⟨rfl, rfl, rfl, rfl, rfl, rfl, rfl⟩, ?_⟩
          simp [μ, phase, bytesLeft, emit, hq]
        · exact ⟨kept_exit_emit _ (kept_refl s), by rw [μ_exit_emit _ (kept_refl s)]; omega⟩
      · simp only [hd, if_false]
        refine ⟨kept_refl _, ?_⟩
        simp [μ, phase, bytesLeft, hq, hd]
  | cons r q =>
    simp only
    have hk : Kept s { s with queue := q } := ⟨rfl, rfl, rfl, rfl, rfl, rfl, rfl⟩
    rcases write_cases { s with queue := q } r.bytes _ with ⟨_, h⟩ | ⟨k, _, h⟩ <;> rw [h] <;> simp only
    · refine ⟨⟨rfl, rfl, rfl, rfl, rfl, rfl, rfl⟩, ?_⟩
      simp [μ, phase, bytesLeft, emit] <;> omega
    · exact ⟨kept_exit_emit _ hk, by rw [μ_exit_emit _ hk]; omega⟩

theorem startCancel_μ (s : St) :
    Kept s (startCancel s) ∧
    μ (startCancel s) ≤ 16 * bytesLeft s + (match s.queue with | [] => 0 | _ :: q => 8 * q.length + 5) := by
  unfold startCancel
  cases hq : s.queue with
  | nil => exact ⟨kept_exitLoop s, by rw [μ_exitLoop]; simp⟩
  | cons r q =>
    simp only
    have hk : Kept s { s with queue := q } := ⟨rfl, rfl, rfl, rfl, rfl, rfl, rfl⟩
    rcases write_cases { s with queue := q } NOIDLE _ with ⟨_, h⟩ | ⟨k, _, h⟩ <;> rw [h] <;> simp only
    · refine ⟨⟨rfl, rfl, rfl, rfl, rfl, rfl, rfl⟩, ?_⟩
      simp [μ, phase, bytesLeft, emit] <;> omega
    · exact ⟨kept_exit_emit _ hk, by rw [μ_exit_emit _ hk]; omega⟩

theorem idleResponse_μ (s : St) (r : Response) :
    Kept s (idleResponse s r) ∧ μ (idleResponse s r) ≤ 16 * bytesLeft s + 8 * s.queue.length + 1 := by
  unfold idleResponse
  cases intoSingleFrame r with
  | none => exact ⟨kept_exitLoop s, by rw [μ_exitLoop]; omega⟩
  | some x =>
    cases x with
    | error e => exact ⟨kept_exit_emit _ (kept_refl s), by rw [μ_exit_emit _ (kept_refl s)]; omega⟩
    | ok f =>
      simp only
      obtain ⟨hk, hqq⟩ := kept_emitEvents s f
      rcases write_cases (emitEvents s f) IDLE _ with ⟨_, h⟩ | ⟨k, _, h⟩ <;> rw [h] <;> simp only
      · refine ⟨kept_trans hk ⟨rfl, rfl, rfl, rfl, rfl, rfl, rfl⟩, ?_⟩
        have hb := kept_bytes hk
        simp only [μ, phase, bytesLeft, emit] at hb ⊢
        rw [hqq]; omega
      · exact ⟨kept_exit_emit _ hk, by rw [μ_exit_emit _ hk]; omega⟩

/-! ## every step from a dead state decreases the measure -/

theorem dead_emit {s : St} (o : Obs) (h : Dead s) : Dead (emit s o) := h

/-- facts about the poll of `t = { s with fresh := false }` -/
theorem poll_facts (s t s1 : St) (σ : BState) (rp : RecvPoll) (ht : t = { s with fresh := false })
    (hd : Dead s) (hp : pollRecv t σ = (s1, rp)) :
    (∃ it, rp = .ready it) ∧ bytesLeft s1 ≤ bytesLeft s ∧
    (∀ r, rp = .ready (.resp r) → bytesLeft s1 < bytesLeft s) ∧ Dead s1 ∧
    s1.queue = s.queue ∧ s1.now = s.now ∧ s1.senders = s.senders := by
  have hdt : Dead t := by rw [ht]; exact hd
  have := pollRecv_dead t σ hdt
  have ho := pollRecv_obs t σ
  rw [hp] at this ho
  obtain ⟨h1, h2, h3, h4⟩ := this
  obtain ⟨_, o2, _, _, o5, o6⟩ := ho
  have hb : bytesLeft t = bytesLeft s := by rw [ht]; rfl
  refine ⟨h1, by rw [← hb]; exact h2, fun r hr => by rw [← hb]; exact h3 r hr, h4, ?_, ?_, ?_⟩
  · rw [o2, ht]
  · rw [o6, ht]
  · rw [o5, ht]

theorem μ_eq (s : St) : μ s = 16 * bytesLeft s + 8 * s.queue.length + phase s := rfl

theorem step_decreases (s s' : St) (rf : Bool) (hc : s.pc ≠ .connecting) (hd : Dead s)
    (h : step s rf = some s') : μ s' < μ s ∧ Dead s' := by
  unfold step at h
  obtain ⟨t, ht⟩ : ∃ t : St, t = { s with fresh := false } := ⟨_, rfl⟩
  rw [← ht] at h
  have hμ := μ_eq s
  cases hpc : s.pc with
  | exited => rw [hpc] at h; simp at h
  | failed => rw [hpc] at h; simp at h
  | connecting => exact absurd hpc hc
  | spawned =>
    rw [hpc] at h
    have hph : phase s = 2 := by simp [phase, hpc]
    rcases write_cases s IDLE _ with ⟨_, hw⟩ | ⟨k, _, hw⟩ <;> rw [hw] at h <;>
      simp only [Option.some.injEq] at h <;> subst h
    · refine ⟨?_, hd⟩
      have key : ∀ x : St, bytesLeft x = bytesLeft s → x.queue = s.queue → phase x = 1 → μ x < μ s := by
        intro x h1 h2 h3
        have := μ_eq x
        rw [h1, h2, h3] at this
        omega
      exact key _ rfl rfl rfl
    · refine ⟨?_, kept_dead (kept_exit_emit _ (kept_refl s)) hd⟩
      rw [μ_exit_emit _ (kept_refl s)]; omega
  | waitNext d =>
    rw [hpc] at h
    simp only at h
    split at h
    · rename_i hcond
      simp only [Option.some.injEq] at h; subst h
      obtain ⟨hk, hm⟩ := afterReply_μ s d
      refine ⟨?_, kept_dead hk hd⟩
      have hph : phase s = if s.now ≥ d then 3 else 4 := by simp [phase, hpc]
      cases hq : s.queue with
      | nil =>
        rw [hq] at hm
        simp only at hm
        simp only [hq, List.isEmpty_nil, Bool.not_true, Bool.false_or, Bool.or_eq_true, decide_eq_true_eq] at hcond
        by_cases hs : s.senders = 0
        · have : afterReply s d = exitLoop s := by unfold afterReply; simp [hq, hs]
          rw [this, μ_exitLoop]
          split at hph <;> omega
        · have hnd : s.now ≥ d := by
            rcases hcond with hcond | hcond
            · exact absurd hcond hs
            · exact hcond
          simp only [hnd, if_true] at hm hph
          rw [hq] at hμ; simp only [List.length_nil] at hμ
          omega
      | cons r q =>
        rw [hq] at hm hμ
        simp only [List.length_cons] at hm hμ
        split at hph <;> omega
    · simp at h
  | pwWait σ =>
    rw [hpc] at h
    have hph : phase s = 6 := by simp [phase, hpc]
    simp only [failConnect] at h
    split at h
    · simp at h
    · rcases hp : pollRecv t σ with ⟨s1, rp⟩
      rw [hp] at h
      obtain ⟨⟨it, hit⟩, hb, _, hd1, hq1, _, _⟩ := poll_facts s t s1 σ rp ht hd hp
      subst hit
      simp only at h
      have fin : ∀ x : St, bytesLeft x = bytesLeft s1 → x.queue = s1.queue → phase x ≤ 2 → μ x < μ s := by
        intro x h1 h2 h3
        have := μ_eq x
        rw [h1, h2, hq1] at this
        omega
      cases it with
      | resp r =>
        simp only at h
        split at h <;> (simp only [Option.some.injEq] at h; subst h)
        · exact ⟨fin _ rfl rfl (by simp [phase, emit]), hd1⟩
        · exact ⟨fin _ rfl rfl (by simp [phase, emit]), hd1⟩
      | clean => simp only [Option.some.injEq] at h; subst h; exact ⟨fin _ rfl rfl (by simp [phase, emit]), hd1⟩
      | invalid => simp only [Option.some.injEq] at h; subst h; exact ⟨fin _ rfl rfl (by simp [phase, emit]), hd1⟩
      | unexpectedEof => simp only [Option.some.injEq] at h; subst h; exact ⟨fin _ rfl rfl (by simp [phase, emit]), hd1⟩
      | io k => simp only [Option.some.injEq] at h; subst h; exact ⟨fin _ rfl rfl (by simp [phase, emit]), hd1⟩
      | panic => simp only [Option.some.injEq] at h; subst h; exact ⟨fin _ rfl rfl (by simp [phase, emit]), hd1⟩
  | waiting r σ =>
    rw [hpc] at h
    have hph : phase s = 5 := by simp [phase, hpc]
    simp only at h
    split at h
    · simp at h
    · rcases hp : pollRecv t σ with ⟨s1, rp⟩
      rw [hp] at h
      obtain ⟨⟨it, hit⟩, hb, hlt, hd1, hq1, hn1, _⟩ := poll_facts s t s1 σ rp ht hd hp
      subst hit
      simp only at h
      have hql : s.queue.length = s1.queue.length := by rw [hq1]
      -- `afterReply` after answering the caller: the deadline is in the future
      have after : ∀ o : Obs,
          μ (afterReply (emit s1 o) (s1.now + TIMEOUT_MS)) ≤ 16 * bytesLeft s1 + 8 * s1.queue.length + 4 ∧
          Dead (afterReply (emit s1 o) (s1.now + TIMEOUT_MS)) := by
        intro o
        obtain ⟨hk, hm⟩ := afterReply_μ (emit s1 o) (s1.now + TIMEOUT_MS)
        refine ⟨?_, kept_dead hk (dead_emit o hd1)⟩
        have hb' : bytesLeft (emit s1 o) = bytesLeft s1 := rfl
        have hq' : (emit s1 o).queue = s1.queue := rfl
        have hn' : (emit s1 o).now = s1.now := rfl
        rw [hb', hq', hn'] at hm
        cases hq : s1.queue with
        | nil =>
          rw [hq] at hm
          have hno : ¬ (s1.now ≥ s1.now + TIMEOUT_MS) := by simp [TIMEOUT_MS]
          simp only [hno, if_false] at hm
          simp only [List.length_nil]; omega
        | cons r q => rw [hq] at hm; simp only [List.length_cons] at hm ⊢; omega
      have exitc : ∀ o : Obs, μ (exitLoop (emit s1 o)) < μ s ∧ Dead (exitLoop (emit s1 o)) := by
        intro o
        refine ⟨?_, kept_dead (kept_exit_emit o (kept_refl s1)) hd1⟩
        rw [μ_exit_emit o (kept_refl s1)]; omega
      cases it with
      | resp resp =>
        simp only [Option.some.injEq] at h; subst h
        have hlt' := hlt resp rfl
        obtain ⟨h1, h2⟩ := after (.resolved r.id (.response resp))
        exact ⟨by omega, h2⟩
      | clean => simp only [Option.some.injEq] at h; subst h; exact exitc _
      | invalid =>
        simp only [Option.some.injEq] at h; subst h
        obtain ⟨h1, h2⟩ := after (.resolved r.id (.protocol (itemErr .invalid)))
        exact ⟨by omega, h2⟩
      | unexpectedEof =>
        simp only [Option.some.injEq] at h; subst h
        obtain ⟨h1, h2⟩ := after (.resolved r.id (.protocol (itemErr .unexpectedEof)))
        exact ⟨by omega, h2⟩
      | io k =>
        simp only [Option.some.injEq] at h; subst h
        obtain ⟨h1, h2⟩ := after (.resolved r.id (.protocol (itemErr (.io k))))
        exact ⟨by omega, h2⟩
      | panic =>
        simp only [Option.some.injEq] at h; subst h
        obtain ⟨h1, h2⟩ := after (.resolved r.id (.protocol (itemErr .panic)))
        exact ⟨by omega, h2⟩
  | cancelWait r σ =>
    rw [hpc] at h
    have hph : phase s = 5 := by simp [phase, hpc]
    simp only at h
    split at h
    · simp at h
    · rcases hp : pollRecv t σ with ⟨s1, rp⟩
      rw [hp] at h
      obtain ⟨⟨it, hit⟩, hb, hlt, hd1, hq1, hn1, _⟩ := poll_facts s t s1 σ rp ht hd hp
      subst hit
      simp only at h
      have exitc : ∀ (x : St) (o : Obs), Kept s1 x → μ (exitLoop (emit x o)) < μ s ∧ Dead (exitLoop (emit x o)) := by
        intro x o hk
        refine ⟨?_, kept_dead (kept_exit_emit o hk) hd1⟩
        rw [μ_exit_emit o hk]; omega
      cases it with
      | resp resp =>
        simp only at h
        have hlt' := hlt resp rfl
        cases hsf : intoSingleFrame resp with
        | none =>
          rw [hsf] at h
          simp only [Option.some.injEq] at h; subst h
          exact exitc s1 _ (kept_refl s1)
        | some ef =>
          rw [hsf] at h
          cases ef with
          | error e =>
            simp only [Option.some.injEq] at h; subst h
            exact exitc (emit s1 (.closing none)) _ (kept_emit s1 _)
          | ok f =>
            simp only at h
            obtain ⟨hk, hqq⟩ := kept_emitEvents s1 f
            rcases write_cases (emitEvents s1 f) r.bytes _ with ⟨_, hw⟩ | ⟨k, _, hw⟩ <;> rw [hw] at h <;>
              simp only [Option.some.injEq] at h <;> subst h
            · refine ⟨?_, kept_dead (kept_trans hk ⟨rfl, rfl, rfl, rfl, rfl, rfl, rfl⟩) hd1⟩
              have hbb := kept_bytes hk
              have key : ∀ x : St, bytesLeft x = bytesLeft (emitEvents s1 f) → x.queue = (emitEvents s1 f).queue →
                  phase x = 5 → μ x < μ s := by
                intro x h1 h2 h3
                have := μ_eq x
                rw [h1, h2, h3, hbb, hqq, hq1] at this
                omega
              exact key _ rfl rfl rfl
            · exact exitc (emitEvents s1 f) _ hk
      | clean => simp only [Option.some.injEq] at h; subst h; exact exitc s1 _ (kept_refl s1)
      | invalid => simp only [Option.some.injEq] at h; subst h; exact exitc s1 _ (kept_refl s1)
      | unexpectedEof => simp only [Option.some.injEq] at h; subst h; exact exitc s1 _ (kept_refl s1)
      | io k => simp only [Option.some.injEq] at h; subst h; exact exitc s1 _ (kept_refl s1)
      | panic => simp only [Option.some.injEq] at h; subst h; exact exitc s1 _ (kept_refl s1)
  | idling σ =>
    rw [hpc] at h
    have hph : phase s = 1 := by simp [phase, hpc]
    simp only at h
    split at h
    · -- command branch
      rename_i hcond
      simp only [Option.some.injEq] at h; subst h
      obtain ⟨hk, hm⟩ := startCancel_μ (dropFuture s σ)
      refine ⟨?_, kept_dead hk hd⟩
      have hb' : bytesLeft (dropFuture s σ) = bytesLeft s := rfl
      have hq' : (dropFuture s σ).queue = s.queue := rfl
      rw [hb', hq'] at hm
      cases hq : s.queue with
      | nil => rw [hq] at hm hμ; simp only [List.length_nil] at hm hμ; omega
      | cons r q => rw [hq] at hm hμ; simp only [List.length_cons] at hm hμ; omega
    · split at h
      · rcases hp : pollRecv t σ with ⟨s1, rp⟩
        rw [hp] at h
        obtain ⟨⟨it, hit⟩, hb, hlt, hd1, hq1, hn1, _⟩ := poll_facts s t s1 σ rp ht hd hp
        subst hit
        simp only at h
        cases it with
        | resp resp =>
          simp only [Option.some.injEq] at h; subst h
          have hlt' := hlt resp rfl
          obtain ⟨hk, hm⟩ := idleResponse_μ s1 resp
          refine ⟨?_, kept_dead hk hd1⟩
          rw [hq1] at hm
          omega
        | clean =>
          simp only [Option.some.injEq] at h; subst h
          refine ⟨?_, kept_dead (kept_exitLoop s1) hd1⟩
          rw [μ_exitLoop]; omega
        | invalid =>
          simp only [Option.some.injEq] at h; subst h
          refine ⟨?_, kept_dead (kept_exit_emit _ (kept_refl s1)) hd1⟩
          rw [μ_exit_emit _ (kept_refl s1)]; omega
        | unexpectedEof =>
          simp only [Option.some.injEq] at h; subst h
          refine ⟨?_, kept_dead (kept_exit_emit _ (kept_refl s1)) hd1⟩
          rw [μ_exit_emit _ (kept_refl s1)]; omega
        | io k =>
          simp only [Option.some.injEq] at h; subst h
          refine ⟨?_, kept_dead (kept_exit_emit _ (kept_refl s1)) hd1⟩
          rw [μ_exit_emit _ (kept_refl s1)]; omega
        | panic =>
          simp only [Option.some.injEq] at h; subst h
          refine ⟨?_, kept_dead (kept_exit_emit _ (kept_refl s1)) hd1⟩
          rw [μ_exit_emit _ (kept_refl s1)]; omega
      · simp at h

/-! ## suspended on a dead connection = terminal, or waiting for the timer -/

theorem dead_pollable (s : St) (hd : Dead s) : recvPollable s = true := by
  unfold recvPollable
  rcases hd with h | h <;> simp [h]

theorem blocked_only_on_timer (s : St) (rf : Bool) (hc : s.pc ≠ .connecting) (hd : Dead s)
    (h : step s rf = none) :
    s.pc = .exited ∨ s.pc = .failed ∨ ∃ d, s.pc = .waitNext d ∧ s.now < d ∧ s.queue = [] ∧ s.senders ≠ 0 := by
  have hpoll := dead_pollable s hd
  unfold step at h
  cases hpc : s.pc with
  | exited => left; rfl
  | failed => right; left; rfl
  | connecting => exact absurd hpc hc
  | waitNext d =>
    right; right
    rw [hpc] at h
    simp only at h
    split at h
    · simp at h
    · rename_i hcond
      simp only [Bool.or_eq_true, Bool.not_eq_true', decide_eq_true_eq, not_or] at hcond
      refine ⟨d, rfl, by omega, ?_, hcond.1.2⟩
      cases hq : s.queue with
      | nil => rfl
      | cons r q => simp [hq] at hcond
  | spawned =>
    rw [hpc] at h; simp only at h
    repeat' split at h
    all_goals simp at h
  | pwWait σ =>
    rw [hpc] at h; simp only [hpoll, Bool.not_true, Bool.false_eq_true, if_false] at h
    repeat' split at h
    all_goals simp at h
  | waiting r σ =>
    rw [hpc] at h; simp only [hpoll, Bool.not_true, Bool.false_eq_true, if_false] at h
    repeat' split at h
    all_goals simp at h
  | cancelWait r σ =>
    rw [hpc] at h; simp only [hpoll, Bool.not_true, Bool.false_eq_true, if_false] at h
    repeat' split at h
    all_goals simp at h
  | idling σ =>
    rw [hpc] at h; simp only [hpoll, Bool.and_true, if_true] at h
    repeat' split at h
    all_goals simp at h

/-- the 100 ms timer of `waitNext` expires -/
def tick (s : St) (d : Nat) : St := { s with now := d }

theorem tick_decreases (s : St) (d : Nat) (hpc : s.pc = .waitNext d) (hlt : s.now < d) (hd : Dead s) :
    μ (tick s d) < μ s ∧ Dead (tick s d) ∧ (tick s d).pc = s.pc := by
  refine ⟨?_, hd, rfl⟩
  have h1 : phase s = 4 := by simp [phase, hpc]; omega
  have h2 : phase (tick s d) = 3 := by simp [phase, tick, hpc]
  have e1 := μ_eq s
  have e2 := μ_eq (tick s d)
  have : bytesLeft (tick s d) = bytesLeft s := rfl
  have : (tick s d).queue = s.queue := rfl
  rw [h2] at e2; rw [h1] at e1
  simp only [*] at e2
  omega

/-! ## draining -/

/-- one move of the closed system "task + its timer", no input from the environment: a task step if
one is possible (`rf` = the scheduler's choice), otherwise the timer fires -/
def move (rf : Bool) (s : St) : St :=
  match step s rf with
  | some s' => s'
  | none =>
    match s.pc with
    | .waitNext d => if s.now < d then tick s d else s
    | _ => s

/-- `sched` = the scheduler's policy for the `select!` poll order; it may depend on the whole state,
which includes the log of everything observed so far -/
def drain (sched : St → Bool) : Nat → St → St
  | 0, s => s
  | n + 1, s => drain sched n (move (sched s) s)


theorem move_spec (rf : Bool) (s : St) (hc : s.pc ≠ .connecting) (hd : Dead s) (hnt : ¬ Terminal s) :
    μ (move rf s) < μ s ∧ Dead (move rf s) ∧ (move rf s).pc ≠ .connecting := by
  unfold move
  cases hs : step s rf with
  | some s' =>
    obtain ⟨h1, h2⟩ := step_decreases s s' rf hc hd hs
    exact ⟨h1, h2, step_nc s s' rf hc hs⟩
  | none =>
    rcases blocked_only_on_timer s rf hc hd hs with h | h | ⟨d, hpc, hlt, _, _⟩
    · exact absurd (Or.inl h) hnt
    · exact absurd (Or.inr h) hnt
    · simp only [hpc, hlt, if_true]
      obtain ⟨h1, h2, h3⟩ := tick_decreases s d hpc hlt hd
      exact ⟨h1, h2, by rw [h3, hpc]; simp⟩

/-- **bounded progress**: once the read side is dead, the task reaches `exited`/`failed` within
`μ s` moves, whatever the scheduler chooses -/
theorem drain_exits (sched : St → Bool) (s : St) (hc : s.pc ≠ .connecting) (hd : Dead s) :
    ∃ n, n ≤ μ s ∧ Terminal (drain sched n s) := by
  generalize hm : μ s = m
  induction m using Nat.strongRecOn generalizing s with
  | _ m ih =>
    by_cases hnt : Terminal s
    · exact ⟨0, Nat.zero_le _, hnt⟩
    · obtain ⟨h1, h2, h3⟩ := move_spec (sched s) s hc hd hnt
      obtain ⟨n, hn, ht⟩ := ih (μ (move (sched s) s)) (by omega) (move (sched s) s) h3 h2 rfl
      exact ⟨n + 1, by omega, ht⟩

/-! ## after the handshake the task can only end in `exited`, with an empty queue -/

def Live : Pc → Prop
  | .connecting => False
  | .pwWait _ => False
  | .failed => False
  | _ => True

/-- connected, and if the loop has returned the queue is empty -/
def Post (s : St) : Prop := Live s.pc ∧ (s.pc = .exited → s.queue = [])

theorem post_exitLoop (s : St) : Post (exitLoop s) := by
  obtain ⟨h1, h2, _⟩ := exitLoop_spec s
  exact ⟨by rw [h1]; trivial, fun _ => h2⟩

theorem post_afterReply (s : St) (d : Nat) : Post (afterReply s d) := by
  unfold afterReply
  cases s.queue with
  | nil =>
    simp only
    by_cases hs : s.senders = 0
    · simp only [hs, if_true]; exact post_exitLoop s
    · simp only [hs, if_false]
      by_cases hd : s.now ≥ d
      · simp only [hd, if_true]
        rcases write_cases s IDLE _ with ⟨_, h⟩ | ⟨k, _, h⟩ <;> rw [h] <;> simp only
        · exact ⟨trivial, by intro h; cases h⟩
        · exact post_exitLoop _
      · simp only [hd, if_false]; exact ⟨trivial, by intro h; cases h⟩
  | cons r q =>
    simp only
    rcases write_cases { s with queue := q } r.bytes _ with ⟨_, h⟩ | ⟨k, _, h⟩ <;> rw [h] <;> simp only
    · exact ⟨trivial, by intro h; cases h⟩
    · exact post_exitLoop _

theorem post_startCancel (s : St) : Post (startCancel s) := by
  unfold startCancel
  cases s.queue with
  | nil => exact post_exitLoop s
  | cons r q =>
    simp only
    rcases write_cases { s with queue := q } NOIDLE _ with ⟨_, h⟩ | ⟨k, _, h⟩ <;> rw [h] <;> simp only
    · exact ⟨trivial, by intro h; cases h⟩
    · exact post_exitLoop _

theorem post_idleResponse (s : St) (r : Response) : Post (idleResponse s r) := by
  unfold idleResponse
  cases intoSingleFrame r with
  | none => exact post_exitLoop s
  | some x =>
    cases x with
    | error e => exact post_exitLoop _
    | ok f =>
      simp only
      rcases write_cases (emitEvents s f) IDLE _ with ⟨_, h⟩ | ⟨k, _, h⟩ <;> rw [h] <;> simp only
      · exact ⟨trivial, by intro h; cases h⟩
      · exact post_exitLoop _

theorem step_post (s s' : St) (rf : Bool) (hl : Live s.pc) (h : step s rf = some s') : Post s' := by
  unfold step at h
  cases hpc : s.pc with
  | connecting => rw [hpc] at hl; exact absurd hl (by simp [Live])
  | pwWait σ => rw [hpc] at hl; exact absurd hl (by simp [Live])
  | failed => rw [hpc] at hl; exact absurd hl (by simp [Live])
  | exited => rw [hpc] at h; simp at h
  | _ =>
    rw [hpc] at h
    simp only [write] at h
    repeat' split at h
    all_goals first
      | (simp at h; done)
      | (simp only [Option.some.injEq] at h; subst h
         first
          | exact post_exitLoop _
          | exact post_afterReply _ _
          | exact post_startCancel _
          | exact post_idleResponse _ _
          | exact ⟨trivial, by intro h; cases h⟩)

theorem move_post (rf : Bool) (s : St) (hp : Post s) : Post (move rf s) := by
  unfold move
  cases hs : step s rf with
  | some s' => exact step_post s s' rf hp.1 hs
  | none =>
    simp only
    split
    · split
      · rename_i d hpc _
        exact ⟨by simp [tick, hpc, Live], by intro h; simp [tick, hpc] at h⟩
      · exact hp
    · exact hp

theorem drain_post (sched : St → Bool) (n : Nat) (s : St) (hp : Post s) : Post (drain sched n s) := by
  induction n generalizing s with
  | zero => exact hp
  | succ n ih => exact ih _ (move_post _ s hp)

/-- draining loses no request: the ids in (answered ++ in flight ++ queued) are preserved -/
theorem move_accounted (rf : Bool) (s : St) : SameIds (accounted (move rf s)) (accounted s) := by
  unfold move
  cases hs : step s rf with
  | some s' => exact step_accounted s s' rf hs
  | none =>
    simp only
    split
    · split
      · exact sameIds_refl _
      · exact sameIds_refl _
    · exact sameIds_refl _

theorem drain_accounted (sched : St → Bool) (n : Nat) (s : St) :
    SameIds (accounted (drain sched n s)) (accounted s) := by
  induction n generalizing s with
  | zero => exact sameIds_refl _
  | succ n ih => exact sameIds_trans (ih _) (move_accounted _ s)

/-- **C08, whole drain**: from any connected state whose read side is dead, with no further input
and whatever the scheduler chooses, within `μ s` moves the loop has returned, the queue is empty and
every request that was queued or in flight has been answered exactly as often as it was accounted
for (i.e. once) -/
theorem dead_connection_drains (sched : St → Bool) (s : St) (hp : Post s) (hd : Dead s) :
    ∃ n, n ≤ μ s ∧ (drain sched n s).pc = .exited ∧ (drain sched n s).queue = [] ∧
      ∀ id, (resolvedIds (drain sched n s).obs).count id = (accounted s).count id := by
  have hc : s.pc ≠ .connecting := by intro h; have := hp.1; rw [h] at this; exact this
  obtain ⟨n, hn, ht⟩ := drain_exits sched s hc hd
  have hpost := drain_post sched n s hp
  have hex : (drain sched n s).pc = .exited := by
    rcases ht with h | h
    · exact h
    · have := hpost.1; rw [h] at this; exact absurd this (by simp [Live])
  refine ⟨n, hn, hex, hpost.2 hex, fun id => ?_⟩
  have := drain_accounted sched n s id
  rw [← this]
  simp [accounted, hex, inFlight, hpost.2 hex]

end Mpd.Loop
