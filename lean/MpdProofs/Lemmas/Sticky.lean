import MpdProofs.Lemmas.Conn
import MpdProofs.Lemmas.Encode
/-!
# The end of a stream is sticky

Once a `receive` call has reported something else than a response and the transport has nothing more
to deliver (persistent end of stream or persistent read fault), every further call reports the same
thing and leaves the connection as it is: an unclean end never turns into a clean one, an invalid
message stays invalid (C10; the model side of the oracle clause "the result after the end repeats the
end"). After fix F12 this includes the builder state carried from call to call.
-/
namespace Mpd.Conn
open Mpd Mpd.Parser Mpd.Builder

/-- parsing again what `feed` left behind changes nothing, when it stopped for lack of bytes or on an
invalid component -/
theorem feed_idem (σ : BState) (buf : Bytes) :
    (feed σ buf).2.2 = .pending ∨ (feed σ buf).2.2 = .invalid →
    feed (feed σ buf).1 (feed σ buf).2.1 = feed σ buf := by
  fun_induction feed σ buf with
  | case1 σ buf c rest h hlt hp => intro hh; simp at hh
  | case2 σ buf c rest h hlt pc hpc σ' r hb => intro hh; simp at hh
  | case3 σ buf c rest h hlt pc hpc σ' hb ih => intro hh; exact ih hh
  | case4 σ buf h =>
    intro _
    simp only
    rw [feed]
    split <;> rename_i h2 <;> rw [h] at h2 <;> first | (simp at h2; done) | rfl
  | case5 σ buf h =>
    intro _
    simp only
    rw [feed]
    split <;> rename_i h2 <;> rw [h] at h2 <;> first | (simp at h2; done) | rfl
  | case6 σ buf h =>
    intro _
    simp only
    rw [feed]
    split <;> rename_i h2 <;> rw [h] at h2 <;> first | (simp at h2; done) | rfl

theorem recvLoopA_nil (σ : BState) (buf : Bytes) (term : Term) :
    recvLoopA σ buf [] term =
      match feed σ buf with
      | (σ', rest, .done r) => (.resp r, rest, [], σ')
      | (σ', rest, .invalid) => (.invalid, rest, [], σ')
      | (σ', rest, .panic) => (.panic, rest, [], σ')
      | (σ', rest, .pending) => (termItem term σ' rest, rest, [], σ') := by
  rw [recvLoopA]
  rcases feed σ buf with ⟨σ', rest, out⟩
  cases out <;> rfl

/-- **sticky end (async)**: with the script exhausted, a call that does not yield a response is a
fixpoint: calling again from the state it left returns the same item and the same state -/
theorem recvLoopA_sticky (σ : BState) (buf : Bytes) (term : Term)
    (h : ∀ r, (recvLoopA σ buf [] term).1 ≠ .resp r) :
    recvLoopA (recvLoopA σ buf [] term).2.2.2 (recvLoopA σ buf [] term).2.1 [] term = recvLoopA σ buf [] term := by
  have hid := feed_idem σ buf
  have hnp := feed_no_panic σ buf
  have hv := recvLoopA_nil σ buf term
  rcases hf : feed σ buf with ⟨σ', rest, out⟩
  rw [hf] at hid hv hnp
  cases out with
  | done r => rw [hv] at h; exact absurd rfl (h r)
  | panic => exact absurd rfl hnp
  | invalid =>
    simp only at hv
    rw [hv]
    simp only
    rw [recvLoopA_nil, hid (Or.inr rfl)]
  | pending =>
    simp only at hv
    rw [hv]
    simp only
    rw [recvLoopA_nil, hid (Or.inl rfl)]

/-- every further call of an async session after its end repeats the end -/
theorem sessionA_sticky (extra : Nat) (σ : BState) (buf : Bytes) (term : Term)
    (h : ∀ r, (recvLoopA σ buf [] term).1 ≠ .resp r) :
    sessionA (extra + 1) extra σ buf [] term = List.replicate (extra + 1) (recvLoopA σ buf [] term).1 := by
  induction extra generalizing σ buf with
  | zero =>
    rw [sessionA]
    unfold recvA
    rcases hr : recvLoopA σ buf [] term with ⟨it, buf', cs', σ'⟩
    rw [hr] at h
    cases it with
    | resp r => exact absurd rfl (h r)
    | _ => rfl
  | succ e ih =>
    rw [sessionA]
    unfold recvA
    have hs := recvLoopA_sticky σ buf term h
    have hcs : (recvLoopA σ buf [] term).2.2.1 = [] := by
      rw [recvLoopA_nil]
      rcases feed σ buf with ⟨σ', rest, out⟩
      cases out <;> rfl
    rcases hr : recvLoopA σ buf [] term with ⟨it, buf', cs', σ'⟩
    rw [hr] at h hs hcs
    simp only at hs hcs
    subst hcs
    have ih' := ih σ' buf' (by rw [hs]; exact h)
    rw [hs] at ih'
    cases it with
    | resp r => exact absurd rfl (h r)
    | _ => simp only [List.replicate_succ]; rw [ih']; rfl

theorem eofItem_ne_invalid (σ : BState) (u : Bytes) : eofItem σ u ≠ .invalid := by
  unfold eofItem; split <;> simp

/-- **invalid is final (async)**: once a call has reported an invalid message, every later call reports
it again and consumes nothing — whatever the transport still delivers, whatever its end. Nobody is
ever handed what is left of a rejected reply. -/
theorem recvLoopA_invalid_forever (cs : List Bytes) (t : Term) (σ : BState) (buf : Bytes)
    (h : (recvLoopA σ buf cs t).1 = .invalid) (cs' : List Bytes) (t' : Term) :
    recvLoopA (recvLoopA σ buf cs t).2.2.2 (recvLoopA σ buf cs t).2.1 cs' t' =
      (.invalid, (recvLoopA σ buf cs t).2.1, cs', (recvLoopA σ buf cs t).2.2.2) := by
  induction cs generalizing σ buf with
  | nil =>
    have hid := feed_idem σ buf
    rcases hf : feed σ buf with ⟨σ', rest, out⟩
    rw [hf] at hid
    cases out with
    | done r => rw [recvLoopA, hf] at h; simp at h
    | panic => rw [recvLoopA, hf] at h; simp at h
    | pending =>
      rw [recvLoopA, hf] at h
      simp only at h
      cases t with
      | eof => exact absurd h (eofItem_ne_invalid _ _)
      | ioerr k => simp [termItem] at h
    | invalid =>
      have hL : recvLoopA σ buf [] t = (.invalid, rest, [], σ') := by rw [recvLoopA, hf]
      rw [hL]
      simp only
      rw [recvLoopA, hid (Or.inr rfl)]
  | cons c cs ih =>
    have hid := feed_idem σ buf
    rcases hf : feed σ buf with ⟨σ', rest, out⟩
    rw [hf] at hid
    cases out with
    | done r => rw [recvLoopA, hf] at h; simp at h
    | panic => rw [recvLoopA, hf] at h; simp at h
    | invalid =>
      have hL : recvLoopA σ buf (c :: cs) t = (.invalid, rest, c :: cs, σ') := by rw [recvLoopA, hf]
      rw [hL]
      simp only
      rw [recvLoopA, hid (Or.inr rfl)]
    | pending =>
      by_cases hc : c.isEmpty
      · rw [recvLoopA, hf] at h
        simp only [hc, if_true] at h
        exact absurd h (eofItem_ne_invalid _ _)
      · have hL : recvLoopA σ buf (c :: cs) t = recvLoopA σ' (rest ++ c) cs t := by
          rw [recvLoopA, hf]; simp only [hc]; rfl
        rw [hL] at h ⊢
        exact ih σ' (rest ++ c) h

/-! ### blocking connection -/

theorem recvLoopS_nil (fuel : Nat) (σ : BState) (b : SBuf) (term : Term) (hcap : ¬ b.cap < b.data.length) :
    recvLoopS (fuel + 1) σ b [] term =
      match feed σ b.data with
      | (σ', rest, .done r) => (.resp r, { b with data := rest }, [], σ')
      | (σ', rest, .invalid) => (.invalid, { b with data := rest }, [], σ')
      | (σ', rest, .panic) => (.panic, { b with data := rest }, [], σ')
      | (σ', rest, .pending) => (termItem term σ' rest, { b with data := rest }, [], σ') := by
  rw [recvLoopS]
  simp only [hcap, if_false]
  rcases feed σ b.data with ⟨σ', rest, out⟩
  cases out <;> simp [readChunk]

/-- **sticky end (blocking)**: the same for the fixed, doubling buffer — the valid prefix left behind
is what `feed` left, and parsing it again changes nothing -/
theorem recvLoopS_sticky (f1 f2 : Nat) (σ : BState) (b : SBuf) (term : Term) (hcap : ¬ b.cap < b.data.length)
    (h : ∀ r, (recvLoopS (f1 + 1) σ b [] term).1 ≠ .resp r) :
    recvLoopS (f2 + 1) (recvLoopS (f1 + 1) σ b [] term).2.2.2 (recvLoopS (f1 + 1) σ b [] term).2.1 [] term =
      recvLoopS (f1 + 1) σ b [] term := by
  have hid := feed_idem σ b.data
  have hnp := feed_no_panic σ b.data
  have hrl := feed_rest_length σ b.data
  have hv := recvLoopS_nil f1 σ b term hcap
  rcases hf : feed σ b.data with ⟨σ', rest, out⟩
  rw [hf] at hid hv hnp hrl
  simp only at hrl
  have hcap' : ¬ ({ b with data := rest } : SBuf).cap < ({ b with data := rest } : SBuf).data.length := by
    simp only; omega
  cases out with
  | done r => rw [hv] at h; exact absurd rfl (h r)
  | panic => exact absurd rfl hnp
  | invalid =>
    simp only at hv
    rw [hv]
    simp only
    rw [recvLoopS_nil f2 σ' { b with data := rest } term hcap']
    simp only
    rw [hid (Or.inr rfl)]
  | pending =>
    simp only at hv
    rw [hv]
    simp only
    rw [recvLoopS_nil f2 σ' { b with data := rest } term hcap']
    simp only
    rw [hid (Or.inl rfl)]

/-- every further call of a blocking session after its end repeats the end -/
theorem sessionS_sticky (extra : Nat) (σ : BState) (b : SBuf) (term : Term) (hcap : ¬ b.cap < b.data.length)
    (h : ∀ r, (recvS σ b [] term).1 ≠ .resp r) :
    sessionS (extra + 1) extra σ b [] term = List.replicate (extra + 1) (recvS σ b [] term).1 := by
  induction extra generalizing σ b with
  | zero =>
    rw [sessionS]
    rcases hr : recvS σ b [] term with ⟨it, b', cs', σ'⟩
    rw [hr] at h
    cases it with
    | resp r => exact absurd rfl (h r)
    | _ => rfl
  | succ e ih =>
    rw [sessionS]
    unfold recvS at h ⊢
    have hs := recvLoopS_sticky (scriptLen ([] : List Bytes)) (scriptLen ([] : List Bytes)) σ b term hcap h
    have hnil := recvLoopS_nil (scriptLen ([] : List Bytes)) σ b term hcap
    have hrl := feed_rest_length σ b.data
    have hcs : (recvLoopS (scriptLen ([] : List Bytes) + 1) σ b [] term).2.2.1 = [] ∧
        ¬ (recvLoopS (scriptLen ([] : List Bytes) + 1) σ b [] term).2.1.cap <
          (recvLoopS (scriptLen ([] : List Bytes) + 1) σ b [] term).2.1.data.length := by
      rw [hnil]
      rcases hf : feed σ b.data with ⟨σ', rest, out⟩
      rw [hf] at hrl
      simp only at hrl
      cases out <;> exact ⟨rfl, by simp only; omega⟩
    rcases hr : recvLoopS (scriptLen ([] : List Bytes) + 1) σ b [] term with ⟨it, b', cs', σ'⟩
    rw [hr] at h hs hcs
    simp only at hs hcs
    obtain ⟨hcs, hcap'⟩ := hcs
    subst hcs
    have ih' := ih σ' b' hcap' (by unfold recvS; rw [hs]; exact h)
    unfold recvS at ih'
    rw [hs] at ih'
    cases it with
    | resp r => exact absurd rfl (h r)
    | _ => simp only [List.replicate_succ]; rw [ih']; rfl

/-- **invalid is final (blocking)** -/
theorem recvLoopS_invalid_forever (f : Nat) (cs : List Bytes) (t : Term) (σ : BState) (b : SBuf)
    (h : (recvLoopS f σ b cs t).1 = .invalid) (f' : Nat) (cs' : List Bytes) (t' : Term) :
    recvLoopS (f' + 1) (recvLoopS f σ b cs t).2.2.2 (recvLoopS f σ b cs t).2.1 cs' t' =
      (.invalid, (recvLoopS f σ b cs t).2.1, cs', (recvLoopS f σ b cs t).2.2.2) := by
  induction f generalizing cs σ b with
  | zero => rw [recvLoopS] at h; simp at h
  | succ n ih =>
    by_cases hcap : b.cap < b.data.length
    · rw [recvLoopS] at h; simp [hcap] at h
    · have hid := feed_idem σ b.data
      have hrl := feed_rest_length σ b.data
      rcases hf : feed σ b.data with ⟨σ', rest, out⟩
      rw [hf] at hid hrl
      simp only at hrl
      cases out with
      | done r => rw [recvLoopS] at h; simp [hcap, hf] at h
      | panic => rw [recvLoopS] at h; simp [hcap, hf] at h
      | invalid =>
        have hL : recvLoopS (n + 1) σ b cs t = (.invalid, { b with data := rest }, cs, σ') := by
          rw [recvLoopS]; simp only [hcap, if_false, hf]
        rw [hL]
        simp only
        have hcap' : ¬ ({ b with data := rest } : SBuf).cap < ({ b with data := rest } : SBuf).data.length := by
          simp only; omega
        rw [recvLoopS]
        simp only [hcap', if_false, hid (Or.inr rfl)]
      | pending =>
        cases hrc : readChunk (b.cap - rest.length) cs with
        | none =>
          rw [recvLoopS] at h
          simp only [hcap, if_false, hf, hrc] at h
          cases t with
          | eof => exact absurd h (eofItem_ne_invalid _ _)
          | ioerr k => simp [termItem] at h
        | some p =>
          obtain ⟨got, cs2⟩ := p
          by_cases hg : got.isEmpty
          · rw [recvLoopS] at h
            simp only [hcap, if_false, hf, hrc, hg, if_true] at h
            exact absurd h (eofItem_ne_invalid _ _)
          · have hL : recvLoopS (n + 1) σ b cs t = recvLoopS n σ' (afterRead b rest got) cs2 t := by
              rw [recvLoopS]; simp only [hcap, if_false, hf, hrc, hg]; rfl
            rw [hL] at h ⊢
            exact ih cs2 σ' (afterRead b rest got) h

end Mpd.Conn
