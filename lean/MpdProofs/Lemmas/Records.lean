import MpdProofs.Lemmas.Prog
import Mpd.Typed.Records
/-!
Every record decoder reads each key at most once, hence (by `Prog.run_eq_runF`) is a function of
the first-occurrence lookup of the frame it is given — on every frame, duplicate keys included.
-/
namespace Mpd.Typed
open Mpd

theorem statusRest_fresh (s d) : Fresh [K.Time, K.duration, K.single] (statusRest s d) := by
  unfold statusRest
  repeat fresh_step

theorem statusProg_fresh : Fresh [] statusProg := by
  unfold statusProg
  fresh_step
  split
  · fresh_step
  fresh_step
  split
  · split
    · fresh_step
    · exact (statusRest_fresh _ _).mono (by intro k hk; simp only [List.mem_cons] at hk ⊢; exact Or.inr hk)
  · fresh_step
    split
    · split
      · fresh_step
      · exact statusRest_fresh _ _
    · exact statusRest_fresh _ _

theorem statsProg_fresh : Fresh [] statsProg := by unfold statsProg; repeat fresh_step
theorem replayGainProg_fresh : Fresh [] replayGainProg := by unfold replayGainProg; repeat fresh_step
theorem countProg_fresh : Fresh [] countProg := by unfold countProg; repeat fresh_step
theorem updateProg_fresh : Fresh [] updateProg := by unfold updateProg; repeat fresh_step
theorem addIdProg_fresh : Fresh [] addIdProg := by unfold addIdProg; repeat fresh_step

theorem decStatus_eq (f : AFrame) : decStatus f = statusProg.runF f.find := Prog.run_eq_runF _ statusProg_fresh f
theorem decStats_eq (f : AFrame) : decStats f = statsProg.runF f.find := Prog.run_eq_runF _ statsProg_fresh f
theorem decReplayGain_eq (f : AFrame) : decReplayGain f = replayGainProg.runF f.find :=
  Prog.run_eq_runF _ replayGainProg_fresh f
theorem decCount_eq (f : AFrame) : decCount f = countProg.runF f.find := Prog.run_eq_runF _ countProg_fresh f
theorem decUpdate_eq (f : AFrame) : decUpdate f = updateProg.runF f.find := Prog.run_eq_runF _ updateProg_fresh f
theorem decAddId_eq (f : AFrame) : decAddId f = addIdProg.runF f.find := Prog.run_eq_runF _ addIdProg_fresh f

end Mpd.Typed
