import MpdProofs.Lemmas.Loop
/-!
# Invariants of the run-loop model, by case analysis over `step`

* request accounting: every request handed to the loop is, at every moment, in exactly one place —
  in the queue, in flight (the one request the loop is serving), or answered — and is answered
  at most once;
* at most one closing event, and only when the loop ends.
-/
namespace Mpd.Loop
open Mpd

def resolvedIds (obs : List Obs) : List Nat :=
  obs.filterMap fun o => match o with | .resolved id _ => some id | _ => none

def inFlight : Pc → List Nat
  | .cancelWait r _ => [r.id]
  | .waiting r _ => [r.id]
  | _ => []

/-- where the requests are -/
def accounted (s : St) : List Nat := resolvedIds s.obs ++ inFlight s.pc ++ s.queue.map (·.id)

def closings (obs : List Obs) : Nat :=
  (obs.filter fun o => match o with | .closing _ => true | _ => false).length

@[simp] theorem resolvedIds_append (a b : List Obs) : resolvedIds (a ++ b) = resolvedIds a ++ resolvedIds b := by
  simp [resolvedIds, List.filterMap_append]
@[simp] theorem closings_append (a b : List Obs) : closings (a ++ b) = closings a + closings b := by
  simp [closings, List.filter_append]

/-- the observable effect of a sub-routine: what it appends to the log -/
def Appends (s s' : St) (extra : List Obs) : Prop := s'.obs = s.obs ++ extra

theorem write_obs (s : St) (b : Bytes) (w : WKind) :
    ((write s b w).2 = none ∧ (write s b w).1 = emit s (.wrote b w)) ∨ (∃ k, (write s b w).2 = some k ∧ (write s b w).1 = s) := by
  unfold write
  cases s.werr with
  | none => left; exact ⟨rfl, rfl⟩
  | some k => right; exact ⟨k, rfl, rfl⟩

theorem emitEvents_obs (s : St) (f : AFrame) :
    (emitEvents s f).obs = s.obs ++ (changedValues f).map Obs.event ∧ (emitEvents s f).queue = s.queue ∧
    (emitEvents s f).pc = s.pc ∧ (emitEvents s f).werr = s.werr := by
  unfold emitEvents
  generalize changedValues f = l
  induction l generalizing s with
  | nil => simp
  | cons n rest ih =>
    simp only [List.foldl_cons, List.map_cons]
    obtain ⟨h1, h2, h3, h4⟩ := ih (emit s (.event n))
    exact ⟨by rw [h1]; simp [emit], h2, h3, h4⟩

theorem resolvedIds_events (l : List Bytes) : resolvedIds (l.map Obs.event) = [] := by
  induction l <;> simp_all [resolvedIds]
theorem closings_events (l : List Bytes) : closings (l.map Obs.event) = 0 := by
  induction l <;> simp_all [closings]

theorem dropFuture_obs (s : St) (σ : Builder.BState) :
    (dropFuture s σ).queue = s.queue ∧ (dropFuture s σ).pc = s.pc ∧ (dropFuture s σ).werr = s.werr ∧
    resolvedIds (dropFuture s σ).obs = resolvedIds s.obs ∧ closings (dropFuture s σ).obs = closings s.obs := by
  unfold dropFuture
  simp

theorem pollRecv_obs (s : St) (σ : Builder.BState) :
    (pollRecv s σ).1.obs = s.obs ∧ (pollRecv s σ).1.queue = s.queue ∧ (pollRecv s σ).1.werr = s.werr ∧
    (pollRecv s σ).1.pc = s.pc ∧ (pollRecv s σ).1.senders = s.senders ∧ (pollRecv s σ).1.now = s.now := by
  unfold pollRecv
  rcases Builder.feed σ s.buf with ⟨σ1, rest1, out⟩
  cases out with
  | done r => simp
  | invalid => simp
  | panic => simp
  | pending =>
    simp only
    cases s.rerr with
    | some k => simp
    | none =>
      simp only
      by_cases ha : s.avail.isEmpty = true
      · simp only [ha, if_true]
        split <;> simp
      · simp only [ha]
        rcases Builder.feed σ1 (rest1 ++ s.avail) with ⟨σ2, rest2, out2⟩
        cases out2 <;> simp
        split <;> simp

theorem pollRecv_obs' (t : St) (σ : Builder.BState) (p : St × RecvPoll) (hp : pollRecv t σ = p) :
    p.1.obs = t.obs ∧ p.1.queue = t.queue := by
  subst hp; exact ⟨(pollRecv_obs t σ).1, (pollRecv_obs t σ).2.1⟩

/-- count-based equality of the accounting lists -/
def SameIds (a b : List Nat) : Prop := ∀ id, a.count id = b.count id

theorem exitLoop_accounted (s : St) :
    SameIds (resolvedIds (exitLoop s).obs ++ inFlight (exitLoop s).pc ++ (exitLoop s).queue.map (·.id))
            (resolvedIds s.obs ++ s.queue.map (·.id)) := by
  obtain ⟨h1, h2, h3⟩ := exitLoop_spec s
  intro id
  rw [h1, h2, h3]
  simp [inFlight, resolvedIds, List.filterMap_append, List.count_append, List.filterMap_map, Function.comp_def]

/-- the requests that are not in flight -/
def base (s : St) : List Nat := resolvedIds s.obs ++ s.queue.map (·.id)

theorem sameIds_refl (a : List Nat) : SameIds a a := fun _ => rfl
theorem sameIds_trans {a b c : List Nat} (h1 : SameIds a b) (h2 : SameIds b c) : SameIds a c :=
  fun id => (h1 id).trans (h2 id)

theorem exitLoop_base (s : St) : SameIds (accounted (exitLoop s)) (base s) :=
  exitLoop_accounted s

theorem exitLoop_emit_resolved (s : St) (id : Nat) (r : Reply) :
    SameIds (accounted (exitLoop (emit s (.resolved id r)))) (resolvedIds s.obs ++ [id] ++ s.queue.map (·.id)) := by
  have := exitLoop_base (emit s (.resolved id r))
  intro x
  rw [this x]
  simp [base, emit, resolvedIds, List.count_append]

theorem exitLoop_emit_other (s : St) (o : Obs) (ho : ∀ id r, o ≠ .resolved id r) :
    SameIds (accounted (exitLoop (emit s o))) (base s) := by
  have := exitLoop_base (emit s o)
  intro x
  rw [this x]
  cases o <;> simp_all [base, emit, resolvedIds, List.count_append]

/-- `afterReply` starts with no request in flight -/
theorem afterReply_accounted (s : St) (d : Nat) : SameIds (accounted (afterReply s d)) (base s) := by
  unfold afterReply write
  cases hq : s.queue with
  | nil =>
    simp only
    by_cases hs : s.senders = 0
    · simp only [hs, if_true]
      have := exitLoop_base s
      intro x; rw [this x]
    · simp only [hs, if_false]
      by_cases hd : s.now ≥ d
      · simp only [hd, if_true]
        cases hw : s.werr with
        | none =>
          intro x
          simp [accounted, base, inFlight, emit, resolvedIds, hq]
        | some k =>
          simp only
          exact exitLoop_emit_other s _ (by intro id r h; cases h)
      · simp only [hd, if_false]
        intro x
        simp [accounted, base, inFlight, hq]
  | cons r q =>
    simp only
    cases hw : s.werr with
    | none =>
      intro x
      simp [accounted, base, inFlight, emit, resolvedIds, hq, List.count_append, List.count_cons]
    | some k =>
      simp only
      refine sameIds_trans (exitLoop_emit_resolved _ _ _) ?_
      intro x
      simp [base, hq, List.count_append, List.count_cons]

theorem startCancel_accounted (s : St) : SameIds (accounted (startCancel s)) (base s) := by
  unfold startCancel write
  cases hq : s.queue with
  | nil =>
    simp only
    have := exitLoop_base s
    intro x; rw [this x]
  | cons r q =>
    simp only
    cases hw : s.werr with
    | none =>
      intro x
      simp [accounted, base, inFlight, emit, resolvedIds, hq, List.count_append, List.count_cons]
    | some k =>
      simp only
      refine sameIds_trans (exitLoop_emit_resolved _ _ _) ?_
      intro x
      simp [base, hq, List.count_append, List.count_cons]

theorem base_emitEvents (s : St) (f : AFrame) : SameIds (base (emitEvents s f)) (base s) := by
  obtain ⟨h1, h2, _, _⟩ := emitEvents_obs s f
  intro x
  simp [base, h1, h2, resolvedIds_events]

theorem idleResponse_accounted (s : St) (r : Builder.Response) : SameIds (accounted (idleResponse s r)) (base s) := by
  unfold idleResponse
  cases intoSingleFrame r with
  | none => exact exitLoop_base s
  | some x =>
    cases x with
    | error e => exact exitLoop_emit_other s _ (by intro id r h; cases h)
    | ok f =>
      simp only
      unfold write
      obtain ⟨h1, h2, h3, h4⟩ := emitEvents_obs s f
      cases hw : (emitEvents s f).werr with
      | none =>
        simp only
        refine sameIds_trans ?_ (base_emitEvents s f)
        intro x
        simp [accounted, base, inFlight, emit, resolvedIds, List.count_append]
      | some k =>
        simp only
        exact sameIds_trans (exitLoop_emit_other _ _ (by intro id r h; cases h)) (base_emitEvents s f)

theorem base_dropFuture (s : St) (σ : Builder.BState) : SameIds (base (dropFuture s σ)) (base s) := by
  obtain ⟨h1, _, _, h4, _⟩ := dropFuture_obs s σ
  intro x
  simp [base, h1, h4]

theorem base_pollRecv (s : St) (σ : Builder.BState) : base (pollRecv s σ).1 = base s := by
  obtain ⟨h1, h2, _⟩ := pollRecv_obs s σ
  simp [base, h1, h2]

/-- **request accounting**: one step of the task never loses, duplicates or invents a request:
the ids in (answered ++ in flight ++ queued) are preserved as a multiset -/
theorem accounted_of_base (t : St) (hp : inFlight t.pc = []) : accounted t = base t := by
  simp [accounted, base, hp]

theorem base_emit_other (s : St) (o : Obs) (ho : ∀ id r, o ≠ .resolved id r) : base (emit s o) = base s := by
  cases o <;> simp_all [base, emit, resolvedIds]

theorem base_emit_resolved (s : St) (id : Nat) (r : Reply) :
    SameIds (base (emit s (.resolved id r))) (resolvedIds s.obs ++ [id] ++ s.queue.map (·.id)) := by
  intro x; simp [base, emit, resolvedIds, List.count_append]

theorem step_accounted (s s' : St) (rf : Bool) (h : step s rf = some s') :
    SameIds (accounted s') (accounted s) := by
  unfold step at h
  cases hpc : s.pc with
  | connecting =>
    rw [hpc] at h
    cases hw : s.werr <;> simp only [write, failConnect, hw] at h
    all_goals repeat' split at h
    all_goals (first | (simp at h; done) | (simp only [Option.some.injEq] at h; subst h; intro x; simp_all [accounted, inFlight, emit, resolvedIds]))
  | pwWait σ =>
    rw [hpc] at h
    obtain ⟨p1, p2, p3, p4, _⟩ := pollRecv_obs { s with fresh := false } σ
    simp only [failConnect] at h
    repeat' split at h
    all_goals (first | (simp at h; done) | (simp only [Option.some.injEq] at h; subst h; intro x; simp_all [accounted, inFlight, emit, resolvedIds]))
  | spawned =>
    rw [hpc] at h
    cases hw : s.werr <;> simp only [write, hw] at h
    · simp only [Option.some.injEq] at h; subst h; intro x; simp_all [accounted, inFlight, emit, resolvedIds]
    · simp only [Option.some.injEq] at h; subst h
      refine sameIds_trans (exitLoop_emit_other s _ (by intro id r h; cases h)) ?_
      rw [accounted_of_base s (by simp [hpc, inFlight])]
      exact sameIds_refl _
  | waitNext d =>
    rw [hpc] at h
    simp only at h
    split at h
    · simp only [Option.some.injEq] at h; subst h
      rw [accounted_of_base s (by simp [hpc, inFlight])]
      exact afterReply_accounted s d
    · simp at h
  | exited => rw [hpc] at h; simp at h
  | failed => rw [hpc] at h; simp at h
  | waiting r σ =>
    rw [hpc] at h
    simp only at h
    split at h
    · simp at h
    · generalize hp : pollRecv _ σ = p at h
      obtain ⟨p1, p2⟩ := pollRecv_obs' _ σ p hp
      rcases p with ⟨s1, rp⟩
      simp only at h p1 p2
      have hacc : ∀ x, (accounted s).count x = (resolvedIds s1.obs ++ [r.id] ++ s1.queue.map (·.id)).count x := by
        intro x; simp [accounted, hpc, inFlight, p1, p2]
      cases rp with
      | pending σ' =>
        simp only [Option.some.injEq] at h; subst h
        intro x; rw [hacc x]; simp [accounted, inFlight]
      | ready it =>
        cases it with
        | clean =>
          simp only [Option.some.injEq] at h; subst h
          intro x; rw [hacc x]; exact exitLoop_emit_resolved s1 r.id .closed x
        | resp resp =>
          simp only [Option.some.injEq] at h; subst h
          intro x; rw [hacc x]
          exact (sameIds_trans (afterReply_accounted _ _) (base_emit_resolved s1 r.id _)) x
        | invalid | unexpectedEof | io _ | panic =>
          simp only [Option.some.injEq] at h; subst h
          intro x; rw [hacc x]
          exact (sameIds_trans (afterReply_accounted _ _) (base_emit_resolved s1 r.id _)) x
  | cancelWait r σ =>
    rw [hpc] at h
    simp only at h
    split at h
    · simp at h
    · generalize hp : pollRecv _ σ = p at h
      obtain ⟨p1, p2⟩ := pollRecv_obs' _ σ p hp
      rcases p with ⟨s1, rp⟩
      simp only at h p1 p2
      have hacc : ∀ x, (accounted s).count x = (resolvedIds s1.obs ++ [r.id] ++ s1.queue.map (·.id)).count x := by
        intro x; simp [accounted, hpc, inFlight, p1, p2]
      cases rp with
      | pending σ' =>
        simp only [Option.some.injEq] at h; subst h
        intro x; rw [hacc x]; simp [accounted, inFlight]
      | ready it =>
        cases it with
        | clean =>
          simp only [Option.some.injEq] at h; subst h
          intro x; rw [hacc x]; exact exitLoop_emit_resolved s1 r.id .closed x
        | invalid | unexpectedEof | io _ | panic =>
          simp only [Option.some.injEq] at h; subst h
          intro x; rw [hacc x]; exact exitLoop_emit_resolved s1 r.id _ x
        | resp resp =>
          simp only at h
          cases hsf : intoSingleFrame resp with
          | none =>
            rw [hsf] at h
            simp only [Option.some.injEq] at h; subst h
            intro x; rw [hacc x]; exact exitLoop_emit_resolved s1 r.id .closed x
          | some ef =>
            rw [hsf] at h
            cases ef with
            | error e =>
              simp only [Option.some.injEq] at h; subst h
              intro x; rw [hacc x]
              rw [exitLoop_emit_resolved (emit s1 (.closing none)) r.id .closed x]
              simp [emit, resolvedIds]
            | ok f =>
              simp only at h
              obtain ⟨e1, e2, e3, e4⟩ := emitEvents_obs s1 f
              unfold write at h
              cases hw : (emitEvents s1 f).werr with
              | none =>
                rw [hw] at h
                simp only [Option.some.injEq] at h; subst h
                intro x; rw [hacc x]
                simp only [accounted, inFlight, emit, e1, e2, resolvedIds_append, resolvedIds_events]
                simp [resolvedIds]
              | some k =>
                rw [hw] at h
                simp only [Option.some.injEq] at h; subst h
                intro x; rw [hacc x]
                rw [exitLoop_emit_resolved (emitEvents s1 f) r.id _ x]
                simp [e1, e2, resolvedIds_events]
  | idling σ =>
    rw [hpc] at h
    simp only at h
    have hs : accounted s = base s := accounted_of_base s (by simp [hpc, inFlight])
    split at h
    · simp only [Option.some.injEq] at h; subst h
      rw [hs]
      exact sameIds_trans (startCancel_accounted _) (base_dropFuture s σ)
    · split at h
      · generalize hp : pollRecv _ σ = p at h
        obtain ⟨p1, p2⟩ := pollRecv_obs' _ σ p hp
        rcases p with ⟨s1, rp⟩
        simp only at h p1 p2
        have hb' : base s1 = base s := by simp [base, p1, p2]
        rw [hs, ← hb']
        cases rp with
        | pending σ' =>
          simp only at h
          split at h
          · simp only [Option.some.injEq] at h; subst h
            exact sameIds_trans (startCancel_accounted _) (base_dropFuture s1 σ')
          · simp only [Option.some.injEq] at h; subst h
            intro x; simp [accounted, base, inFlight]
        | ready it =>
          cases it with
          | resp r => simp only [Option.some.injEq] at h; subst h; exact idleResponse_accounted s1 r
          | clean => simp only [Option.some.injEq] at h; subst h; exact exitLoop_base s1
          | invalid | unexpectedEof | io _ | panic =>
            simp only [Option.some.injEq] at h; subst h
            exact exitLoop_emit_other s1 _ (by intro id r h; cases h)
      · simp at h

end Mpd.Loop

namespace Mpd.Loop
open Mpd

/-! ## at most one closing event, and only when the loop ends -/

/-- a transition either emits no closing event, or exactly one and ends the loop -/
def CloseOK (t t' : St) : Prop :=
  closings t'.obs = closings t.obs ∨ (closings t'.obs = closings t.obs + 1 ∧ t'.pc = .exited)

theorem closings_exitLoop (s : St) : closings (exitLoop s).obs = closings s.obs := by
  obtain ⟨_, _, h3⟩ := exitLoop_spec s
  rw [h3]
  simp only [closings_append]
  have : closings (s.queue.map fun r => Obs.resolved r.id .closed) = 0 := by
    induction s.queue <;> simp_all [closings]
  simp [this, closings]

theorem closeOK_exit (s : St) : CloseOK s (exitLoop s) := Or.inl (closings_exitLoop s)

theorem closeOK_exit_closing (s : St) (e : Option ProtoErr) : CloseOK s (exitLoop (emit s (.closing e))) := by
  right
  refine ⟨?_, (exitLoop_spec _).1⟩
  rw [closings_exitLoop]; simp [emit, closings]

theorem closeOK_exit_resolved (s : St) (id : Nat) (r : Reply) : CloseOK s (exitLoop (emit s (.resolved id r))) := by
  left; rw [closings_exitLoop]; simp [emit, closings]

theorem closeOK_exit_resolved' (s t : St) (h : closings t.obs = closings s.obs) (id : Nat) (r : Reply) :
    CloseOK s (exitLoop (emit t (.resolved id r))) := by
  left; rw [closings_exitLoop, ← h]; simp [emit, closings]

theorem closeOK_afterReply (s : St) (d : Nat) : CloseOK s (afterReply s d) := by
  unfold afterReply write
  cases hq : s.queue with
  | nil =>
    simp only
    by_cases hs : s.senders = 0
    · simp only [hs, if_true]; exact closeOK_exit s
    · simp only [hs, if_false]
      by_cases hd : s.now ≥ d
      · simp only [hd, if_true]
        cases hw : s.werr with
        | none => left; simp [emit, closings]
        | some k => exact closeOK_exit_closing s _
      · simp only [hd, if_false]; left; rfl
  | cons r q =>
    simp only
    cases hw : s.werr with
    | none => left; simp [emit, closings]
    | some k =>
      simp only
      exact closeOK_exit_resolved' s { s with werr := some k, queue := q } rfl _ _

theorem closeOK_startCancel (s : St) : CloseOK s (startCancel s) := by
  unfold startCancel write
  cases hq : s.queue with
  | nil => exact closeOK_exit s
  | cons r q =>
    simp only
    cases hw : s.werr with
    | none => left; simp [emit, closings]
    | some k =>
      simp only
      exact closeOK_exit_resolved' s { s with werr := some k, queue := q } rfl _ _

theorem closeOK_trans_eq {a b c : St} (h1 : closings b.obs = closings a.obs) (h2 : CloseOK b c) : CloseOK a c := by
  unfold CloseOK at *; rw [← h1]; exact h2

theorem closeOK_idleResponse (s : St) (r : Builder.Response) : CloseOK s (idleResponse s r) := by
  unfold idleResponse
  cases intoSingleFrame r with
  | none => exact closeOK_exit s
  | some x =>
    cases x with
    | error e => exact closeOK_exit_closing s none
    | ok f =>
      simp only
      obtain ⟨e1, _, _, _⟩ := emitEvents_obs s f
      have hc : closings (emitEvents s f).obs = closings s.obs := by rw [e1]; simp [closings_events]
      unfold write
      cases hw : (emitEvents s f).werr with
      | none => left; simp only [emit, closings_append, hc]; simp [closings]
      | some k => exact closeOK_trans_eq hc (closeOK_exit_closing _ _)

theorem closings_pollRecv (t : St) (σ : Builder.BState) (p : St × RecvPoll) (hp : pollRecv t σ = p) :
    closings p.1.obs = closings t.obs := by
  rw [(pollRecv_obs' t σ p hp).1]

/-- **one step emits at most one closing event, and then the loop has ended** -/
theorem step_closeOK (s s' : St) (rf : Bool) (h : step s rf = some s') : CloseOK s s' := by
  unfold step at h
  cases hpc : s.pc with
  | connecting =>
    rw [hpc] at h
    cases hw : s.werr <;> simp only [write, failConnect, hw] at h
    all_goals repeat' split at h
    all_goals (first | (simp at h; done) | (simp only [Option.some.injEq] at h; subst h; left; simp [emit, closings]))
  | pwWait σ =>
    rw [hpc] at h
    simp only [failConnect] at h
    split at h
    · simp at h
    · generalize hp : pollRecv _ σ = p at h
      have hc := closings_pollRecv _ σ p hp
      rcases p with ⟨s1, rp⟩
      simp only at h hc
      repeat' split at h
      all_goals (first | (simp at h; done) | (simp only [Option.some.injEq] at h; subst h; left; simp [emit, closings, closings_append, hc] <;> simp_all [closings]))
  | spawned =>
    rw [hpc] at h
    cases hw : s.werr <;> simp only [write, hw] at h
    · simp only [Option.some.injEq] at h; subst h; left; simp [emit, closings]
    · simp only [Option.some.injEq] at h; subst h; exact closeOK_exit_closing s _
  | waitNext d =>
    rw [hpc] at h
    simp only at h
    split at h
    · simp only [Option.some.injEq] at h; subst h; exact closeOK_afterReply s d
    · simp at h
  | exited => rw [hpc] at h; simp at h
  | failed => rw [hpc] at h; simp at h
  | waiting r σ =>
    rw [hpc] at h
    simp only at h
    split at h
    · simp at h
    · generalize hp : pollRecv _ σ = p at h
      have hc := closings_pollRecv _ σ p hp
      rcases p with ⟨s1, rp⟩
      simp only at h hc
      have hem : ∀ rep, closings (emit s1 (.resolved r.id rep)).obs = closings s.obs := by
        intro rep; simp [emit, closings_append, hc]; simp [closings]
      cases rp with
      | pending σ' => simp only [Option.some.injEq] at h; subst h; left; exact hc
      | ready it =>
        cases it with
        | clean => simp only [Option.some.injEq] at h; subst h; exact closeOK_trans_eq hc (closeOK_exit_resolved s1 _ _)
        | resp resp => simp only [Option.some.injEq] at h; subst h; exact closeOK_trans_eq (hem _) (closeOK_afterReply _ _)
        | invalid | unexpectedEof | io _ | panic =>
          simp only [Option.some.injEq] at h; subst h; exact closeOK_trans_eq (hem _) (closeOK_afterReply _ _)
  | cancelWait r σ =>
    rw [hpc] at h
    simp only at h
    split at h
    · simp at h
    · generalize hp : pollRecv _ σ = p at h
      have hc := closings_pollRecv _ σ p hp
      rcases p with ⟨s1, rp⟩
      simp only at h hc
      cases rp with
      | pending σ' => simp only [Option.some.injEq] at h; subst h; left; exact hc
      | ready it =>
        cases it with
        | clean => simp only [Option.some.injEq] at h; subst h; exact closeOK_trans_eq hc (closeOK_exit_resolved s1 _ _)
        | invalid | unexpectedEof | io _ | panic =>
          simp only [Option.some.injEq] at h; subst h; exact closeOK_trans_eq hc (closeOK_exit_resolved s1 _ _)
        | resp resp =>
          simp only at h
          cases hsf : intoSingleFrame resp with
          | none =>
            rw [hsf] at h
            simp only [Option.some.injEq] at h; subst h; exact closeOK_trans_eq hc (closeOK_exit_resolved s1 _ _)
          | some ef =>
            rw [hsf] at h
            cases ef with
            | error e =>
              simp only [Option.some.injEq] at h; subst h
              right
              refine ⟨?_, (exitLoop_spec _).1⟩
              rw [closings_exitLoop]; simp [emit, closings_append, hc]; simp [closings]
            | ok f =>
              simp only at h
              obtain ⟨e1, _, _, _⟩ := emitEvents_obs s1 f
              have hce : closings (emitEvents s1 f).obs = closings s.obs := by rw [e1]; simp [closings_events, hc]
              unfold write at h
              cases hw : (emitEvents s1 f).werr with
              | none =>
                rw [hw] at h
                simp only [Option.some.injEq] at h; subst h
                left; simp only [emit, closings_append, hce]; simp [closings]
              | some k =>
                rw [hw] at h
                simp only [Option.some.injEq] at h; subst h
                exact closeOK_trans_eq hce (closeOK_exit_resolved _ _ _)
  | idling σ =>
    rw [hpc] at h
    simp only at h
    split at h
    · simp only [Option.some.injEq] at h; subst h
      exact closeOK_trans_eq (dropFuture_obs s σ).2.2.2.2 (closeOK_startCancel _)
    · split at h
      · generalize hp : pollRecv _ σ = p at h
        have hc := closings_pollRecv _ σ p hp
        rcases p with ⟨s1, rp⟩
        simp only at h hc
        cases rp with
        | pending σ' =>
          simp only at h
          split at h
          · simp only [Option.some.injEq] at h; subst h
            exact closeOK_trans_eq ((dropFuture_obs s1 σ').2.2.2.2.trans hc) (closeOK_startCancel _)
          · simp only [Option.some.injEq] at h; subst h; left; exact hc
        | ready it =>
          cases it with
          | resp r => simp only [Option.some.injEq] at h; subst h; exact closeOK_trans_eq hc (closeOK_idleResponse s1 r)
          | clean => simp only [Option.some.injEq] at h; subst h; exact closeOK_trans_eq hc (closeOK_exit s1)
          | invalid | unexpectedEof | io _ | panic =>
            simp only [Option.some.injEq] at h; subst h; exact closeOK_trans_eq hc (closeOK_exit_closing s1 _)
      · simp at h

/-- the invariant: no closing event while the loop runs, at most one ever -/
def ClosingInv (s : St) : Prop := closings s.obs ≤ 1 ∧ (s.pc ≠ .exited → closings s.obs = 0)

theorem step_closingInv (s s' : St) (rf : Bool) (h : step s rf = some s') (hi : ClosingInv s) : ClosingInv s' := by
  have hne : s.pc ≠ .exited := by intro he; rw [step_exited s rf he] at h; simp at h
  have h0 := hi.2 hne
  rcases step_closeOK s s' rf h with hc | ⟨hc, hp⟩
  · exact ⟨by rw [hc]; omega, fun _ => by rw [hc]; exact h0⟩
  · exact ⟨by rw [hc]; omega, fun hn => absurd hp hn⟩

end Mpd.Loop
