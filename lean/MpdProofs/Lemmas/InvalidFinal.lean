import Mpd.Loop
import MpdProofs.Lemmas.Sticky
/-!
# Invalid data is final, at the level of the connection task

If a poll of the receive future reports an invalid message, the receive buffer and the builder state
it leaves behind are such that every later receive future — whatever arrives on the transport in the
meantime, whether it ends or fails — reports an invalid message again at its first poll, without
consuming anything. The task never hands a later request what was left of a rejected reply.
-/
namespace Mpd.Loop
open Mpd Mpd.Parser Mpd.Builder Mpd.Conn

theorem pollRecv_invalid_state (s : St) (σ : BState) (s1 : St) (h : pollRecv s σ = (s1, .ready .invalid)) :
    feed s1.bstash s1.buf = (s1.bstash, s1.buf, .invalid) := by
  unfold pollRecv at h
  have hid := feed_idem σ s.buf
  rcases hf : feed σ s.buf with ⟨σ', rest, out⟩
  rw [hf] at h hid
  cases out with
  | done r => simp at h
  | panic => simp at h
  | invalid =>
    simp only [Prod.mk.injEq, and_true] at h
    subst h
    exact hid (Or.inr rfl)
  | pending =>
    simp only at h
    split at h
    · simp at h
    · split at h
      · split at h
        · simp only [Prod.mk.injEq, RecvPoll.ready.injEq] at h
          exact absurd h.2 (eofItem_ne_invalid _ _)
        · simp at h
      · have hid2 := feed_idem σ' (rest ++ s.avail)
        rcases hf2 : feed σ' (rest ++ s.avail) with ⟨σ2, rest2, out2⟩
        rw [hf2] at h hid2
        cases out2 with
        | done r => simp at h
        | panic => simp at h
        | invalid =>
          simp only [Prod.mk.injEq, and_true] at h
          subst h
          exact hid2 (Or.inr rfl)
        | pending =>
          simp only at h
          split at h
          · simp only [Prod.mk.injEq, RecvPoll.ready.injEq] at h
            exact absurd h.2 (eofItem_ne_invalid _ _)
          · simp at h

/-- **invalid data is final**: any later state with the same receive buffer and builder state —
whatever its transport holds — polls to `invalid` again and leaves both unchanged -/
theorem pollRecv_invalid_final (s : St) (σ : BState) (s1 : St) (h : pollRecv s σ = (s1, .ready .invalid))
    (s2 : St) (hb : s2.buf = s1.buf) (hs : s2.bstash = s1.bstash) :
    pollRecv s2 s2.bstash = ({ s2 with buf := s2.buf, bstash := s2.bstash }, .ready .invalid) := by
  have hst := pollRecv_invalid_state s σ s1 h
  rw [← hb, ← hs] at hst
  unfold pollRecv
  rw [hst]

end Mpd.Loop
