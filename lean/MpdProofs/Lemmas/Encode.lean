import MpdProofs.Lemmas.Wire
import MpdProofs.Lemmas.Builder
import MpdProofs.Lemmas.Bytes
import MpdSpec.Grammar
/-!
# The builder on encoder output: one line at a time

`feed` on `<wire form of a component> ++ tl` performs exactly the state-machine step of that
component and continues with `tl`. From this: `feed` never panics, and the round trip
decode ∘ encode on well-formed abstract responses (C03).
-/
namespace Mpd.Builder
open Mpd Mpd.Parser

theorem consumed_exact (msg tl : Bytes) : (msg ++ tl).take ((msg ++ tl).length - tl.length) = msg := by
  have : (msg ++ tl).length - tl.length = msg.length := by simp
  rw [this]
  simp

theorem cutBinary_wire (hdr bin : Bytes) :
    cutBinary (hdr ++ bin ++ [LF]) bin.length = some bin := by
  unfold cutBinary
  have h1 : ¬ (hdr ++ bin ++ [LF]).length < bin.length + 1 := by simp
  rw [if_neg h1]
  have h2 : (hdr ++ bin ++ [LF]).length - (bin.length + 1) = hdr.length := by simp
  rw [h2]
  simp [List.append_assoc]

/-- the piece handed to the state machine for a component found on the wire -/
def pieceOf : Comp → Bytes → Piece
  | .endOfFrame, _ => .endOfFrame
  | .endOfResponse, _ => .endOfResponse
  | .error e, _ => .error e
  | .field k v, _ => .field k v
  | .binary n, msg => .binary ((msg.drop (msg.length - (n + 1))).take n)

theorem toPiece_wire (c : Comp) (msg : Bytes) (hw : Wire c msg) : toPiece c msg = some (pieceOf c msg) := by
  cases hw with
  | endOfResponse => rfl
  | endOfFrame => rfl
  | field k v _ _ _ _ => rfl
  | error _ _ _ _ _ _ _ _ _ => rfl
  | binary ds bin hnum hlen =>
    have := cutBinary_wire (str "binary: " ++ ds ++ [LF]) bin
    simp only [toPiece, ← hlen, this, pieceOf, Option.map]
    unfold cutBinary at this
    split at this
    · simp at this
    · simp only [Option.some.injEq] at this
      rw [this]

theorem pieceOf_binary (ds bin : Bytes) (hlen : bin.length = digitsVal ds) :
    pieceOf (.binary (digitsVal ds)) (str "binary: " ++ ds ++ [LF] ++ bin ++ [LF]) = .binary bin := by
  have := cutBinary_wire (str "binary: " ++ ds ++ [LF]) bin
  unfold cutBinary at this
  split at this
  · simp at this
  · simp only [Option.some.injEq] at this
    simp only [pieceOf, ← hlen, this]

/-- **`feed` never panics**: the payload cut-out is always in range, because the consumed bytes
are exactly header + payload + LF (soundness of the parser) -/
theorem feed_no_panic (σ : BState) (buf : Bytes) : (feed σ buf).2.2 ≠ .panic := by
  fun_induction feed σ buf with
  | case1 σ buf c rest h hlt hp =>
    exfalso
    obtain ⟨msg, hw, hi⟩ := parseComp_sound buf c rest h
    have := toPiece_wire c msg hw
    rw [hi, consumed_exact] at hp
    rw [hp] at this
    simp at this
  | case2 σ buf c rest h hlt pc hpc σ' r hb => simp
  | case3 σ buf c rest h hlt pc hpc σ' hb ih => exact ih
  | case4 σ buf h => simp
  | case5 σ buf h => simp
  | case6 σ buf h => simp

/-- one component on the wire = one step of the state machine -/
theorem feed_wire (σ : BState) (c : Comp) (msg tl : Bytes) (hw : Wire c msg)
    (hres : ∀ k v, c = .field k v → k ≠ str "binary") :
    feed σ (msg ++ tl) =
      match bstep σ (pieceOf c msg) with
      | (σ', some r) => (σ', tl, .done r)
      | (σ', none) => feed σ' tl := by
  have hp := parseComp_complete c msg tl hw hres
  have htp := toPiece_wire c msg hw
  rw [feed]
  split
  · rename_i c2 rest2 h2
    rw [hp] at h2
    simp only [Res.ok.injEq] at h2
    obtain ⟨rfl, rfl⟩ := h2
    simp only [consumed_exact, htp]
    split <;> rename_i hb <;> simp only [hb]
  all_goals (rename_i h2; rw [hp] at h2; simp at h2)

/-! ## a view of the builder state: (reply to a list?, current frame, completed frames) -/

def isList : BState → Bool
  | .listInProgress _ _ => true
  | _ => false
def cur : BState → AFrame
  | .initial => emptyFrame
  | .inProgress c => c
  | .listInProgress c _ => c
def doneFrames : BState → List AFrame
  | .listInProgress _ d => d
  | _ => []

/-- states are equal up to the distinction `initial` / `inProgress emptyFrame`, which no terminator
can observe -/
def Sim (a b : BState) : Prop := isList a = isList b ∧ cur a = cur b ∧ doneFrames a = doneFrames b

theorem bstep_field (σ : BState) (k v : Bytes) :
    (bstep σ (.field k v)).2 = none ∧ isList (bstep σ (.field k v)).1 = isList σ ∧
    cur (bstep σ (.field k v)).1 = pushField (cur σ) k v ∧
    doneFrames (bstep σ (.field k v)).1 = doneFrames σ := by
  cases σ <;> simp [bstep, isList, cur, doneFrames]

theorem bstep_binary (σ : BState) (b : Bytes) :
    (bstep σ (.binary b)).2 = none ∧ isList (bstep σ (.binary b)).1 = isList σ ∧
    cur (bstep σ (.binary b)).1 = { cur σ with binary := some b } ∧
    doneFrames (bstep σ (.binary b)).1 = doneFrames σ := by
  cases σ <;> simp [bstep, isList, cur, doneFrames]

theorem bstep_endOfFrame (σ : BState) :
    bstep σ .endOfFrame =
      (.listInProgress emptyFrame (doneFrames σ ++ [cur σ]), none) := by
  cases σ <;> simp [bstep, cur, doneFrames]

theorem bstep_endOfResponse (σ : BState) :
    bstep σ .endOfResponse =
      (.initial, some { frames := if isList σ then doneFrames σ else [cur σ], error := none }) := by
  cases σ <;> simp [bstep, isList, cur, doneFrames]

theorem bstep_error (σ : BState) (e : Err) :
    bstep σ (.error e) =
      (.initial, some { frames := if isList σ then doneFrames σ else [], error := some e }) := by
  cases σ <;> simp [bstep, isList, doneFrames]

end Mpd.Builder
