import Mpd.Loop
/-!
# Basic facts about the run-loop model: what leaving the loop does
-/
namespace Mpd.Loop
open Mpd

theorem emit_pc (s : St) (o : Obs) : (emit s o).pc = s.pc := rfl
theorem emit_queue (s : St) (o : Obs) : (emit s o).queue = s.queue := rfl
theorem emit_obs (s : St) (o : Obs) : (emit s o).obs = s.obs ++ [o] := rfl

theorem foldl_emit_queue (q : List Req) (s : St) :
    (q.foldl (fun s r => emit s (.resolved r.id .closed)) s).queue = s.queue ∧
    (q.foldl (fun s r => emit s (.resolved r.id .closed)) s).obs =
      s.obs ++ q.map (fun r => Obs.resolved r.id .closed) := by
  induction q generalizing s with
  | nil => simp
  | cons r rest ih =>
    simp only [List.foldl_cons, List.map_cons]
    obtain ⟨h1, h2⟩ := ih (emit s (.resolved r.id .closed))
    exact ⟨h1, by rw [h2]; simp [emit]⟩

/-- **leaving the loop**: every queued request is answered `closed` (its responder is dropped),
the queue is empty, the event stream ends, the transport is released — in this order, and nothing
else is observed -/
theorem exitLoop_spec (s : St) :
    (exitLoop s).pc = .exited ∧ (exitLoop s).queue = [] ∧
    (exitLoop s).obs = s.obs ++ s.queue.map (fun r => Obs.resolved r.id .closed) ++ [.eventsEnd, .transportDropped] := by
  unfold exitLoop
  obtain ⟨_, h2⟩ := foldl_emit_queue s.queue s
  refine ⟨rfl, rfl, ?_⟩
  simp only [emit_obs]
  show (List.foldl (fun s r => emit s (Obs.resolved r.id Reply.closed)) s s.queue).obs ++ [Obs.eventsEnd] ++ [Obs.transportDropped] = _
  rw [h2]
  simp

/-- once exited, the task never runs again -/
theorem step_exited (s : St) (rf : Bool) (h : s.pc = .exited) : step s rf = none := by
  unfold step; rw [h]

theorem step_failed (s : St) (rf : Bool) (h : s.pc = .failed) : step s rf = none := by
  unfold step; rw [h]

end Mpd.Loop
