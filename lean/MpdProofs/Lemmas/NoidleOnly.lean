import MpdProofs.Lemmas.ObsMono
/-!
# `noidle` is written only from the idling state, at most once per step (C05)

`nn e` counts the `noidle` writes (by call site, ghost `WKind`) in a piece of the log. Every
sub-routine but `startCancel` writes none; `startCancel` — reached only from `idling`, i.e. while the
reply to `idle` is the one outstanding (`one_outstanding`) — writes at most one.
-/
namespace Mpd.Loop
open Mpd Mpd.Builder Mpd.Conn

def nn (e : List Obs) : Nat :=
  (e.filter fun o => match o with | .wrote _ .noidle => true | _ => false).length

@[simp] theorem nn_append (a b : List Obs) : nn (a ++ b) = nn a + nn b := by simp [nn, List.filter_append]
@[simp] theorem nn_nil : nn [] = 0 := rfl

/-- the step's contribution to the log contains at most `k` `noidle` writes -/
def ExtK (k : Nat) (s s' : St) : Prop := ∃ e, s'.obs = s.obs ++ e ∧ nn e ≤ k

theorem extk_refl (s : St) : ExtK 0 s s := ⟨[], by simp, by simp⟩
theorem extk_trans {a b c : St} {j k : Nat} (h1 : ExtK j a b) (h2 : ExtK k b c) : ExtK (j + k) a c := by
  obtain ⟨e1, h1, n1⟩ := h1
  obtain ⟨e2, h2, n2⟩ := h2
  exact ⟨e1 ++ e2, by rw [h2, h1, List.append_assoc], by simp; omega⟩
theorem extk_mono {a b : St} {j k : Nat} (h : ExtK j a b) (hjk : j ≤ k) : ExtK k a b := by
  obtain ⟨e, h1, n1⟩ := h; exact ⟨e, h1, by omega⟩
theorem extk00 {a b c : St} (h1 : ExtK 0 a b) (h2 : ExtK 0 b c) : ExtK 0 a c := extk_trans h1 h2

/-- an observation that is not a `noidle` write -/
def Obs.notNoidle : Obs → Bool
  | .wrote _ .noidle => false
  | _ => true

theorem extk_emit (s : St) (o : Obs) (ho : o.notNoidle = true) : ExtK 0 s (emit s o) := by
  refine ⟨[o], rfl, ?_⟩
  cases o with
  | wrote b k => cases k <;> simp_all [nn, Obs.notNoidle]
  | _ => simp [nn]

theorem nn_map_resolved (q : List Req) : nn (q.map fun r => Obs.resolved r.id .closed) = 0 := by
  induction q <;> simp_all [nn]
theorem nn_map_event (l : List Bytes) : nn (l.map Obs.event) = 0 := by
  induction l <;> simp_all [nn]

theorem extk_exitLoop (s : St) : ExtK 0 s (exitLoop s) := by
  refine ⟨_, by rw [(exitLoop_spec s).2.2, List.append_assoc], ?_⟩
  simp [nn_map_resolved, nn]

theorem extk_emitEvents (s : St) (f : AFrame) : ExtK 0 s (emitEvents s f) :=
  ⟨_, (emitEvents_obs s f).1, by simp [nn_map_event]⟩

theorem extk_afterReply (s : St) (d : Nat) : ExtK 0 s (afterReply s d) := by
  unfold afterReply
  cases s.queue with
  | nil =>
    simp only
    by_cases hs : s.senders = 0
    · simp only [hs, if_true]; exact extk_exitLoop s
    · simp only [hs, if_false]
      by_cases hd : s.now ≥ d
      · simp only [hd, if_true]
        rcases write_cases' s IDLE .idle with h | ⟨k, h⟩ <;> rw [h] <;> simp only
        · exact extk_emit s _ rfl
        · exact extk00 (extk_emit s _ rfl) (extk_exitLoop _)
      · simp only [hd, if_false]; exact extk_refl s
  | cons r q =>
    simp only
    rcases write_cases' { s with queue := q } r.bytes (.request r.id) with h | ⟨k, h⟩ <;> rw [h] <;> simp only
    · exact ⟨[.wrote r.bytes (.request r.id)], rfl, by simp [nn]⟩
    · exact extk00 (b := emit { s with queue := q } (.resolved r.id (.protocol (.io k))))
        ⟨[_], rfl, by simp [nn]⟩ (extk_exitLoop _)

theorem extk_startCancel (s : St) : ExtK 1 s (startCancel s) := by
  unfold startCancel
  cases s.queue with
  | nil => exact extk_mono (extk_exitLoop s) (by omega)
  | cons r q =>
    simp only
    rcases write_cases' { s with queue := q } NOIDLE .noidle with h | ⟨k, h⟩ <;> rw [h] <;> simp only
    · exact ⟨[.wrote NOIDLE .noidle], rfl, by simp [nn]⟩
    · exact extk_mono (extk00 (b := emit { s with queue := q } (.resolved r.id (.protocol (.io k))))
        ⟨[_], rfl, by simp [nn]⟩ (extk_exitLoop _)) (by omega)

theorem extk_idleResponse (s : St) (r : Response) : ExtK 0 s (idleResponse s r) := by
  unfold idleResponse
  cases intoSingleFrame r with
  | none => exact extk_exitLoop s
  | some x =>
    cases x with
    | error e => exact extk00 (extk_emit s _ rfl) (extk_exitLoop _)
    | ok f =>
      simp only
      rcases write_cases' (emitEvents s f) IDLE .idle with h | ⟨k, h⟩ <;> rw [h] <;> simp only
      · exact extk00 (extk_emitEvents s f) (extk_emit _ _ rfl)
      · exact extk00 (extk_emitEvents s f) (extk00 (extk_emit _ _ rfl) (extk_exitLoop _))

theorem extk_of_obs {k : Nat} {s s1 x : St} (h : s1.obs = s.obs) (hx : ExtK k s1 x) : ExtK k s x := by
  obtain ⟨e, he, hn⟩ := hx
  exact ⟨e, by rw [he, h], hn⟩

macro "extk_tac" : tactic => `(tactic| first
  | exact extk_refl _
  | exact extk_emit _ _ rfl
  | exact extk_exitLoop _
  | exact extk_afterReply _ _
  | exact extk_idleResponse _ _
  | exact extk00 (extk_emit _ _ rfl) (extk_exitLoop _)
  | exact extk00 (extk_emit _ _ rfl) (extk_afterReply _ _)
  | exact extk00 (extk_emit _ _ rfl) (extk_emit _ _ rfl)
  | exact extk00 (extk00 (extk_emit _ _ rfl) (extk_emit _ _ rfl)) (extk_exitLoop _))

/-- **`noidle` only from idling**: a step from any other program point writes no `noidle`; a step
from `idling` writes at most one -/
theorem step_noidle (s s' : St) (rf : Bool) (hc : s.pc ≠ .connecting) (h : step s rf = some s') :
    ExtK (match s.pc with | .idling _ => 1 | _ => 0) s s' := by
  unfold step at h
  obtain ⟨t, ht⟩ : ∃ t : St, t = { s with fresh := false } := ⟨_, rfl⟩
  rw [← ht] at h
  have hpoll : ∀ σ s1 rp, pollRecv t σ = (s1, rp) → s1.obs = s.obs := by
    intro σ s1 rp hp
    have := (pollRecv_obs t σ).1
    rw [hp] at this
    rw [this, ht]
  cases hpc : s.pc with
  | exited => rw [hpc] at h; simp at h
  | failed => rw [hpc] at h; simp at h
  | connecting => exact absurd hpc hc
  | spawned =>
    rw [hpc] at h
    rcases write_cases' s IDLE .idle with hw | ⟨k, hw⟩ <;> rw [hw] at h <;>
      simp only [Option.some.injEq] at h <;> subst h
    · exact extk_emit s _ rfl
    · extk_tac
  | waitNext d =>
    rw [hpc] at h
    simp only at h
    split at h
    · simp only [Option.some.injEq] at h; subst h; extk_tac
    · simp at h
  | pwWait σ =>
    rw [hpc] at h
    simp only [failConnect] at h
    split at h
    · simp at h
    · rcases hp : pollRecv t σ with ⟨s1, rp⟩
      rw [hp] at h
      have ho := hpoll σ s1 rp hp
      cases rp with
      | pending σ' => simp only [Option.some.injEq] at h; subst h; exact extk_of_obs ho (extk_refl _)
      | ready it =>
        cases it with
        | resp r =>
          simp only at h
          split at h <;> (simp only [Option.some.injEq] at h; subst h) <;> exact extk_of_obs ho (by extk_tac)
        | _ => simp only [Option.some.injEq] at h; subst h; exact extk_of_obs ho (by extk_tac)
  | waiting r σ =>
    rw [hpc] at h
    simp only at h
    split at h
    · simp at h
    · rcases hp : pollRecv t σ with ⟨s1, rp⟩
      rw [hp] at h
      have ho := hpoll σ s1 rp hp
      cases rp with
      | pending σ' => simp only [Option.some.injEq] at h; subst h; exact extk_of_obs ho (extk_refl _)
      | ready it =>
        cases it <;> (simp only [Option.some.injEq] at h; subst h; exact extk_of_obs ho (by extk_tac))
  | cancelWait r σ =>
    rw [hpc] at h
    simp only at h
    split at h
    · simp at h
    · rcases hp : pollRecv t σ with ⟨s1, rp⟩
      rw [hp] at h
      have ho := hpoll σ s1 rp hp
      cases rp with
      | pending σ' => simp only [Option.some.injEq] at h; subst h; exact extk_of_obs ho (extk_refl _)
      | ready it =>
        cases it with
        | resp resp =>
          simp only at h
          cases hsf : intoSingleFrame resp with
          | none =>
            rw [hsf] at h
            simp only [Option.some.injEq] at h; subst h; exact extk_of_obs ho (by extk_tac)
          | some ef =>
            rw [hsf] at h
            cases ef with
            | error e => simp only [Option.some.injEq] at h; subst h; exact extk_of_obs ho (by extk_tac)
            | ok f =>
              simp only at h
              rcases write_cases' (emitEvents s1 f) r.bytes (.request r.id) with hw | ⟨k, hw⟩ <;> rw [hw] at h <;>
                simp only [Option.some.injEq] at h <;> subst h
              · exact extk_of_obs ho (extk00 (extk_emitEvents s1 f) (extk_emit _ _ rfl))
              · exact extk_of_obs ho (extk00 (extk_emitEvents s1 f) (extk00 (extk_emit _ _ rfl) (extk_exitLoop _)))
        | _ => simp only [Option.some.injEq] at h; subst h; exact extk_of_obs ho (by extk_tac)
  | idling σ =>
    rw [hpc] at h
    simp only at h
    split at h
    · simp only [Option.some.injEq] at h; subst h
      exact extk_startCancel (dropFuture s σ)
    · split at h
      · rcases hp : pollRecv t σ with ⟨s1, rp⟩
        rw [hp] at h
        have ho := hpoll σ s1 rp hp
        cases rp with
        | pending σ' =>
          simp only at h
          split at h <;> (simp only [Option.some.injEq] at h; subst h)
          · exact extk_of_obs ho (extk_startCancel (dropFuture s1 σ'))
          · exact extk_of_obs ho (extk_mono (extk_refl _) (by omega))
        | ready it =>
          cases it <;> (simp only [Option.some.injEq] at h; subst h; exact extk_of_obs ho (extk_mono (by extk_tac) (by omega)))
      · simp at h

end Mpd.Loop
