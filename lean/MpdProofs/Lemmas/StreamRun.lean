import MpdProofs.Lemmas.ObsMono
/-!
# Every run of the task decodes the delivered byte stream, in order, exactly once

`Decodes σ bytes rs fin`: decoding `bytes` from builder state `σ` yields the responses `rs` one after
the other and then continues like `fin`.

`run_decodes`: along ANY run after the greeting — any deliveries (any segmentation), any scheduler
choices, any enqueue / cancel / clock / handle-drop events — up to the first poll that ends with
something else than a response, there is a list `rs` such that
* the bytes delivered so far followed by any continuation `q` decode to `rs` and then continue as the
  connection's current commitment (`future s q`): nothing skipped, nothing decoded twice, whatever
  was parsed by a dropped receive future included;
* `rs` is attributed, in order, to the observable deliveries: each response is the reply of the
  request in flight, or an idle reply whose `changed` lines are the next events, or the password
  verdict (`Attr`).
-/
namespace Mpd.Loop
open Mpd Mpd.Builder Mpd.Conn

def Decodes (σ : BState) (bytes : Bytes) : List Response → BState × Bytes × Out → Prop
  | [], fin => feed σ bytes = fin
  | r :: rs, fin => ∃ rest, feed σ bytes = (.initial, rest, .done r) ∧ Decodes .initial rest rs fin

theorem decodes_snoc (σ : BState) (bytes : Bytes) (rs : List Response) (r : Response) (rest : Bytes)
    (fin : BState × Bytes × Out)
    (h : Decodes σ bytes rs (.initial, rest, .done r)) (hf : feed .initial rest = fin) :
    Decodes σ bytes (rs ++ [r]) fin := by
  induction rs generalizing σ bytes with
  | nil => exact ⟨rest, h, hf⟩
  | cons r0 rs ih =>
    obtain ⟨rest0, h1, h2⟩ := h
    exact ⟨rest0, h1, ih .initial rest0 h2⟩

/-- attribution of the consumed responses (each with its consumer) to what callers and the event
stream observed -/
inductive Attr : List (Consumer × Response) → List (Nat × Response) → List Bytes → Prop
  | nil : Attr [] [] []
  | reply {cs resp ev} (id : Nat) (r : Response) :
      Attr cs resp ev → Attr (cs ++ [(.reply id, r)]) (resp ++ [(id, r)]) ev
  | idle {cs resp ev} (r : Response) : Attr cs resp ev → Attr (cs ++ [(.idle, r)]) resp (ev ++ eventsOfReply r)
  | verdict {cs resp ev} (r : Response) : Attr cs resp ev → Attr (cs ++ [(.verdict, r)]) resp ev

/-- the invariant: `D` = bytes delivered since the start of the run; `cs` = the responses consumed
so far, each with its consumer -/
def Good (s : St) (D : Bytes) : Prop :=
  ∃ cs : List (Consumer × Response),
    (∀ q, Decodes .initial (D ++ q) (cs.map (·.2)) (future s q)) ∧
    Attr cs (responses s.obs) (eventsOf s.obs) ∧
    -- write discipline: the reply-producing lines written so far are, in order, exactly the
    -- consumers of the responses consumed so far, followed by the one reply the task waits for
    (Terminal s ∨ replyWrites s.obs = cs.map (·.1) ++ outstanding s.pc) ∧
    -- ... and in any case (also after the loop has returned) the consumers are a prefix of the
    -- reply-producing lines written
    (∃ rest, replyWrites s.obs = cs.map (·.1) ++ rest)

/-- the poll of the receive future at `s` ends with end of stream, an I/O error or an invalid message -/
def Broken (s : St) : Prop :=
  ∃ it : Item, it.isResp = false ∧ (pollRecv { s with fresh := false } (σcur s)).2 = .ready it

theorem not_terminal_of_step {s s' : St} {rf : Bool} (h : step s rf = some s') : ¬ Terminal s := by
  intro ht
  rcases ht with ht | ht
  · rw [step_exited s rf ht] at h; cases h
  · rw [step_failed s rf ht] at h; cases h

theorem good_step (s s' : St) (rf : Bool) (D : Bytes) (hc : s.pc ≠ .connecting) (hg : Good s D)
    (h : step s rf = some s') : Good s' D ∨ Broken s := by
  obtain ⟨cs, hd, ha, hwd, hpre⟩ := hg
  obtain ⟨ext, hext⟩ := step_ext s s' rf hc h
  have hrw : replyWrites s'.obs = replyWrites s.obs ++ replyWrites ext := by rw [hext]; simp
  have hwd' : replyWrites s.obs = cs.map (·.1) ++ outstanding s.pc := by
    rcases hwd with ht | hw
    · exact absurd ht (not_terminal_of_step h)
    · exact hw
  cases step_effect s s' rf hc h with
  | silent hf hq hw =>
    left
    refine ⟨cs, fun q => ?_, ?_, ?_, ?_⟩
    · rw [hf q]; exact hd q
    · rw [hq.1, hq.2]; exact ha
    · rcases hw with ht | ⟨Δ, h1, h2⟩
      · exact Or.inl ht
      · right; rw [h1, hwd', h2, List.append_assoc]
    · obtain ⟨rest, hrest⟩ := hpre
      exact ⟨rest ++ replyWrites ext, by rw [hrw, hrest, List.append_assoc]⟩
  | broken it hit hp _ => right; exact ⟨it, hit, hp⟩
  | consumed r hf hσ hdel hw =>
    left
    -- the consumer is the one the program point was waiting for
    have key : ∀ c : Consumer, outstanding s.pc = [c] →
        Attr (cs ++ [(c, r)]) (responses s'.obs) (eventsOf s'.obs) := by
      intro c hc'
      unfold Delivery at hdel
      split at hdel
      · rename_i req σ hpc
        rw [hpc] at hc'; simp only [outstanding, List.cons.injEq, and_true] at hc'; subst hc'
        rw [hdel.1, hdel.2]; exact .reply _ r ha
      · rename_i σ hpc
        rw [hpc] at hc'; simp only [outstanding, List.cons.injEq, and_true] at hc'; subst hc'
        rw [hdel.1, hdel.2]; exact .idle r ha
      · rename_i req σ hpc
        rw [hpc] at hc'; simp only [outstanding, List.cons.injEq, and_true] at hc'; subst hc'
        rw [hdel.1, hdel.2]; exact .idle r ha
      · rename_i h1 h2 h3
        -- only `pwWait` is left among the program points that wait for a reply
        cases hpc : s.pc with
        | pwWait σ =>
          rw [hpc] at hc'; simp only [outstanding, List.cons.injEq, and_true] at hc'; subst hc'
          rw [hdel.1, hdel.2]; exact .verdict r ha
        | waiting req σ => exact absurd hpc (h1 req σ)
        | idling σ => exact absurd hpc (h2 σ)
        | cancelWait req σ => exact absurd hpc (h3 req σ)
        | _ => rw [hpc] at hc'; simp [outstanding] at hc'
    have dec : ∀ c : Consumer, ∀ q, Decodes .initial (D ++ q) ((cs ++ [(c, r)]).map (·.2)) (future s' q) := by
      intro c q
      have := hd q
      rw [hf q] at this
      rw [List.map_append]
      refine decodes_snoc _ _ _ r _ _ this ?_
      unfold future
      rw [hσ]
    obtain ⟨⟨c, hc'⟩, hw⟩ := hw
    refine ⟨cs ++ [(c, r)], dec c, key c hc', ?_, ?_⟩
    · rcases hw with ht | hw
      · exact Or.inl ht
      · right
        rw [hw, hwd', hc', List.map_append]; simp
    · exact ⟨replyWrites ext, by rw [hrw, hwd', hc', List.map_append]; simp⟩

/-- bytes arrive -/
theorem good_deliver (s : St) (D b : Bytes) (hg : Good s D) : Good { s with avail := s.avail ++ b } (D ++ b) := by
  obtain ⟨rs, hd, ha, hw, hp⟩ := hg
  refine ⟨rs, fun q => ?_, ha, hw, hp⟩
  have := hd (b ++ q)
  simpa [future, resid, σcur, List.append_assoc] using this

/-- anything else the environment does (enqueue, cancel, clock, handle drops, faults appearing) -/
def EnvSame (s s' : St) : Prop :=
  s'.pc = s.pc ∧ s'.bstash = s.bstash ∧ s'.buf = s.buf ∧ s'.avail = s.avail ∧ s'.obs = s.obs

theorem good_env (s s' : St) (D : Bytes) (he : EnvSame s s') (hg : Good s D) : Good s' D := by
  obtain ⟨rs, hd, ha, hw, hp⟩ := hg
  obtain ⟨e1, e2, e3, e4, e5⟩ := he
  refine ⟨rs, fun q => ?_, by rw [e5]; exact ha, by unfold Terminal at *; rw [e5, e1]; exact hw, by rw [e5]; exact hp⟩
  have : future s' q = future s q := by simp [future, resid, σcur, e1, e2, e3, e4]
  rw [this]; exact hd q

/-! ## the task never returns to `connecting` -/

theorem exitLoop_pc (s : St) : (exitLoop s).pc = .exited := (exitLoop_spec s).1

theorem afterReply_nc (s : St) (d : Nat) : (afterReply s d).pc ≠ .connecting := by
  unfold afterReply write
  cases s.queue with
  | nil =>
    simp only
    by_cases hs : s.senders = 0
    · simp only [hs, if_true]; rw [exitLoop_pc]; simp
    · simp only [hs, if_false]
      by_cases hd : s.now ≥ d
      · simp only [hd, if_true]
        cases s.werr with
        | none => simp
        | some k => simp only; rw [exitLoop_pc]; simp
      · simp only [hd, if_false]; simp
  | cons r q =>
    simp only
    cases s.werr with
    | none => simp
    | some k => simp only; rw [exitLoop_pc]; simp

theorem startCancel_nc (s : St) : (startCancel s).pc ≠ .connecting := by
  unfold startCancel write
  cases s.queue with
  | nil => simp only; rw [exitLoop_pc]; simp
  | cons r q =>
    simp only
    cases s.werr with
    | none => simp
    | some k => simp only; rw [exitLoop_pc]; simp

theorem idleResponse_nc (s : St) (r : Response) : (idleResponse s r).pc ≠ .connecting := by
  unfold idleResponse
  cases intoSingleFrame r with
  | none => simp only; rw [exitLoop_pc]; simp
  | some x =>
    cases x with
    | error e => simp only; rw [exitLoop_pc]; simp
    | ok f =>
      simp only
      unfold write
      cases (emitEvents s f).werr with
      | none => simp
      | some k => simp only; rw [exitLoop_pc]; simp

theorem step_nc (s s' : St) (rf : Bool) (hc : s.pc ≠ .connecting) (h : step s rf = some s') :
    s'.pc ≠ .connecting := by
  unfold step at h
  cases hpc : s.pc with
  | connecting => exact absurd hpc hc
  | _ =>
    rw [hpc] at h
    simp only [failConnect, write] at h
    repeat' split at h
    all_goals first
      | (simp at h; done)
      | (simp only [Option.some.injEq] at h; subst h
         first
          | (rw [exitLoop_pc]; simp)
          | exact afterReply_nc _ _
          | exact startCancel_nc _
          | exact idleResponse_nc _ _
          | simp [emit])

/-! ## runs -/

/-- runs of the task from `s0`: deliveries, task steps that are not `Broken`, anything else the
environment does; indexed by the bytes delivered since `s0` -/
inductive Run (s0 : St) : St → Bytes → Prop
  | start : Run s0 s0 []
  | deliver {s D} (b : Bytes) : Run s0 s D → Run s0 { s with avail := s.avail ++ b } (D ++ b)
  | env {s D} (s' : St) : Run s0 s D → EnvSame s s' → Run s0 s' D
  | task {s D} (s' : St) (rf : Bool) : Run s0 s D → step s rf = some s' → ¬ Broken s → Run s0 s' D

/-- the state right after the greeting: nothing buffered, nothing observed yet by callers -/
def AfterGreeting (s0 : St) : Prop :=
  s0.pc ≠ .connecting ∧ resid s0 = (.initial, []) ∧ responses s0.obs = [] ∧ eventsOf s0.obs = [] ∧
  replyWrites s0.obs = outstanding s0.pc

theorem good_start (s0 : St) (h : AfterGreeting s0) : Good s0 [] := by
  obtain ⟨_, h2, h3, h4, h5⟩ := h
  refine ⟨[], fun q => ?_, by rw [h3, h4]; exact .nil, Or.inr (by simp [h5]), ⟨replyWrites s0.obs, by simp⟩⟩
  simp [Decodes, future, h2]

/-- **every run decodes the delivered stream in order, exactly once, and attributes every response** -/
theorem run_decodes (s0 s : St) (D : Bytes) (h0 : AfterGreeting s0) (hr : Run s0 s D) :
    s.pc ≠ .connecting ∧ Good s D := by
  induction hr with
  | start => exact ⟨h0.1, good_start s0 h0⟩
  | deliver b _ ih => exact ⟨ih.1, good_deliver _ _ b ih.2⟩
  | env s' _ he ih => exact ⟨by rw [he.1]; exact ih.1, good_env _ s' _ he ih.2⟩
  | task s' rf _ hs hnb ih =>
    refine ⟨step_nc _ s' rf ih.1 hs, ?_⟩
    cases good_step _ s' rf _ ih.1 ih.2 hs with
    | inl hg => exact hg
    | inr hb => exact absurd hb hnb

/-- non-vacuity: the two states in which the task starts after the greeting -/
example : AfterGreeting { pc := .spawned, obs := [.connected (.ok (str "0.23.5"))] } := by
  refine ⟨by simp, by simp [resid, σcur], by simp [responses], by simp [eventsOf], by simp [replyWrites, outstanding]⟩
example : AfterGreeting { pc := .pwWait .initial, fresh := true, obs := [.wrote (str "password x\n") .password] } := by
  refine ⟨by simp, by simp [resid, σcur], by simp [responses], by simp [eventsOf],
    by simp [replyWrites, outstanding, WKind.consumer]⟩

/-- **one outstanding**: at every reachable state the reply-producing lines written exceed the
responses consumed by at most one — the task never writes a line that provokes a reply while the
reply to an earlier one has not been consumed -/
theorem one_outstanding (s0 s : St) (D : Bytes) (h0 : AfterGreeting s0) (hr : Run s0 s D) :
    Terminal s ∨ ∃ cs : List (Consumer × Response),
      (∀ q, Decodes .initial (D ++ q) (cs.map (·.2)) (future s q)) ∧
      replyWrites s.obs = cs.map (·.1) ++ outstanding s.pc ∧ (outstanding s.pc).length ≤ 1 := by
  obtain ⟨cs, hd, _, hw, _⟩ := (run_decodes s0 s D h0 hr).2
  rcases hw with ht | hw
  · exact Or.inl ht
  · exact Or.inr ⟨cs, hd, hw, by cases s.pc <;> simp [outstanding]⟩

end Mpd.Loop
