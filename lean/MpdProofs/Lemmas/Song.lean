import Mpd.Typed.Song
import MpdSpec.Listing
import MpdProofs.Lemmas.Bytes
import MpdProofs.C20
/-!
Helper lemmas for C14 / C12 (song half): the order on names, sorted insertion, the "one more line"
(snoc) behaviour of every component of `Spec.songOf`, and the agreement of the crate's value parsers
with the specification's readings on well-formed values.
-/
namespace Mpd.SongLemmas
open Mpd Mpd.Typed

/-! ## the order on names -/

theorem cmp_self (a : Bytes) : cmpBytes a a = 0 := (cmpBytes_eq_zero_iff a a).mpr rfl

theorem lt_iff (a b : Bytes) : cmpBytes a b < 0 ↔ cmpBytes a b = -1 := by
  rcases cmpBytes_range a b with h | h | h <;> simp [h]

theorem lt_irrefl (a : Bytes) : ¬ cmpBytes a a < 0 := by simp [cmp_self]

theorem lt_trans {a b c : Bytes} (h1 : cmpBytes a b < 0) (h2 : cmpBytes b c < 0) : cmpBytes a c < 0 := by
  rw [lt_iff] at *; exact cmpBytes_trans a b c h1 h2

theorem lt_of_not_lt_ne {a b : Bytes} (h1 : ¬ cmpBytes a b < 0) (h2 : a ≠ b) : cmpBytes b a < 0 := by
  have hne : cmpBytes a b ≠ 0 := fun h => h2 ((cmpBytes_eq_zero_iff a b).mp h)
  rw [cmpBytes_antisymm b a]
  rcases cmpBytes_range a b with h | h | h
  · simp [h] at h1
  · exact absurd h hne
  · simp [h]

theorem ne_of_lt {a b : Bytes} (h : cmpBytes a b < 0) : a ≠ b := by
  intro e; subst e; exact lt_irrefl a h

/-- strictly increasing list of names -/
def Sorted (l : List Bytes) : Prop := l.Pairwise (fun a b => cmpBytes a b < 0)

theorem mem_insertName (n x : Bytes) (S : List Bytes) :
    x ∈ Spec.insertName n S ↔ x = n ∨ x ∈ S := by
  induction S with
  | nil => simp [Spec.insertName]
  | cons m ms ih =>
    simp only [Spec.insertName]
    split
    · rename_i h; subst h; simp
    · split
      · simp
      · simp only [List.mem_cons, ih]
        constructor
        · rintro (h | h | h) <;> simp [h]
        · rintro (h | h | h) <;> simp [h]

theorem insertName_sorted (n : Bytes) (S : List Bytes) (h : Sorted S) : Sorted (Spec.insertName n S) := by
  induction S with
  | nil => simp [Spec.insertName, Sorted]
  | cons m ms ih =>
    simp only [Spec.insertName]
    have hm := List.pairwise_cons.mp h
    split
    · exact h
    · rename_i hne
      split
      · rename_i hlt
        refine List.pairwise_cons.mpr ⟨?_, h⟩
        intro x hx
        rcases List.mem_cons.mp hx with rfl | hx
        · exact hlt
        · exact lt_trans hlt (hm.1 x hx)
      · rename_i hnlt
        refine List.pairwise_cons.mpr ⟨?_, ih hm.2⟩
        intro x hx
        rcases (mem_insertName n x ms).mp hx with rfl | hx
        · exact lt_of_not_lt_ne hnlt hne
        · exact hm.1 x hx

theorem sortNames_snoc (l : List Bytes) (n : Bytes) :
    Spec.sortNames (l ++ [n]) = Spec.insertName n (Spec.sortNames l) := by
  simp [Spec.sortNames, List.foldl_append]

theorem foldl_insert_sorted (l acc : List Bytes) (h : Sorted acc) :
    Sorted (l.foldl (fun acc n => Spec.insertName n acc) acc) := by
  induction l generalizing acc with
  | nil => exact h
  | cons n ns ih => exact ih _ (insertName_sorted n acc h)

theorem mem_foldl_insert (l acc : List Bytes) (x : Bytes) :
    x ∈ l.foldl (fun acc n => Spec.insertName n acc) acc ↔ x ∈ acc ∨ x ∈ l := by
  induction l generalizing acc with
  | nil => simp
  | cons n ns ih =>
    simp only [List.foldl_cons, ih, mem_insertName, List.mem_cons]
    constructor
    · rintro ((h | h) | h) <;> simp [h]
    · rintro (h | h | h) <;> simp [h]

theorem sortNames_sorted (l : List Bytes) : Sorted (Spec.sortNames l) :=
  foldl_insert_sorted l [] (by simp [Sorted])

theorem mem_sortNames (l : List Bytes) (x : Bytes) : x ∈ Spec.sortNames l ↔ x ∈ l := by
  simp [Spec.sortNames, mem_foldl_insert]

/-! ## the tag map: model (`TagMap.push`) against the specification (`tagsOfLines`) -/

/-- what an observer of the hash map sees: (protocol name, values) -/
def absTags (m : TagMap) : List (Bytes × List Bytes) := m.map (fun e => (e.1.name, e.2))

/-- `TagMap.push` on the name view -/
def pushN : List (Bytes × List Bytes) → Bytes → Bytes → List (Bytes × List Bytes)
  | [], n, v => [(n, [v])]
  | (m, vs) :: rest, n, v =>
    if n = m then (m, vs ++ [v]) :: rest
    else if cmpBytes n m < 0 then (n, [v]) :: (m, vs) :: rest
    else (m, vs) :: pushN rest n v

theorem absTags_push (m : TagMap) (t : Tag) (v : Bytes) :
    absTags (m.push t v) = pushN (absTags m) t.name v := by
  induction m with
  | nil => simp [TagMap.push, absTags, pushN]
  | cons e rest ih =>
    obtain ⟨t', vs⟩ := e
    simp only [TagMap.push, absTags, List.map_cons, pushN]
    split
    · simp
    · split
      · simp
      · simp only [List.map_cons, List.cons.injEq, true_and]
        exact ih

theorem valuesOf_snoc (tl : List (Bytes × Bytes)) (n v m : Bytes) :
    Spec.valuesOf (tl ++ [(n, v)]) m = Spec.valuesOf tl m ++ (if n = m then [v] else []) := by
  simp only [Spec.valuesOf, List.filter_append, List.map_append]
  by_cases h : n = m <;> simp [h]

theorem valuesOf_nil (tl : List (Bytes × Bytes)) (m : Bytes) (h : m ∉ tl.map (·.1)) :
    Spec.valuesOf tl m = [] := by
  simp only [Spec.valuesOf, List.map_eq_nil_iff, List.filter_eq_nil_iff]
  intro e he heq
  apply h
  simp only [List.mem_map]
  exact ⟨e, he, by simpa using heq⟩

/-- sorted insertion of one more value, generically in the value functions -/
theorem pushN_map (S : List Bytes) (f g : Bytes → List Bytes) (n v : Bytes)
    (hS : Sorted S) (hg : ∀ m, m ≠ n → g m = f m) (hn : g n = f n ++ [v])
    (hnew : n ∉ S → f n = []) :
    pushN (S.map (fun m => (m, f m))) n v = (Spec.insertName n S).map (fun m => (m, g m)) := by
  induction S with
  | nil =>
    simp [pushN, Spec.insertName, hn, hnew]
  | cons m ms ih =>
    have hm := List.pairwise_cons.mp hS
    simp only [List.map_cons, pushN, Spec.insertName]
    split
    · -- n = m
      rename_i h; subst h
      simp only [List.map_cons, hn, List.cons.injEq, true_and]
      apply List.map_congr_left
      intro x hx
      rw [hg x (ne_of_lt (hm.1 x hx)).symm]
    · rename_i hne
      split
      · -- n < m: a new smallest name
        rename_i hlt
        have hnot : n ∉ m :: ms := by
          intro hmem
          rcases List.mem_cons.mp hmem with h | h
          · exact hne h
          · exact lt_irrefl n (lt_trans hlt (hm.1 n h))
        simp only [List.map_cons, hn, hnew hnot, List.nil_append, List.cons.injEq, true_and]
        refine ⟨by rw [hg m (Ne.symm hne)], ?_⟩
        apply List.map_congr_left
        intro x hx
        rw [hg x]
        intro hxn; subst hxn
        exact lt_irrefl _ (lt_trans hlt (hm.1 _ hx))
      · simp only [List.map_cons, List.cons.injEq]
        refine ⟨by rw [hg m (Ne.symm hne)], ?_⟩
        apply ih hm.2
        intro hnm
        apply hnew
        intro hmem
        rcases List.mem_cons.mp hmem with h | h
        · exact hne h
        · exact hnm h

theorem tagsOfLines_snoc (tl : List (Bytes × Bytes)) (n v : Bytes) :
    Spec.tagsOfLines (tl ++ [(n, v)]) = pushN (Spec.tagsOfLines tl) n v := by
  simp only [Spec.tagsOfLines, List.map_append, List.map_cons, List.map_nil, sortNames_snoc]
  symm
  apply pushN_map _ _ _ _ _ (sortNames_sorted _)
  · intro m hm
    simp [valuesOf_snoc, Ne.symm hm]
  · simp [valuesOf_snoc]
  · intro h
    apply valuesOf_nil
    intro hmem
    exact h ((mem_sortNames _ _).mpr hmem)

theorem tagsOf_snoc_attr (pre : List (Bytes × Bytes)) (k v : Bytes) (h : Spec.isAttrKey k = true) :
    Spec.tagsOf (pre ++ [(k, v)]) = Spec.tagsOf pre := by
  simp [Spec.tagsOf, Spec.tagLines, List.filter_append, List.filter, h]

theorem tagsOf_snoc_tag (pre : List (Bytes × Bytes)) (k v : Bytes) (h : Spec.isAttrKey k = false) :
    Spec.tagsOf (pre ++ [(k, v)]) = pushN (Spec.tagsOf pre) (Spec.canonTag k) v := by
  simp only [Spec.tagsOf, Spec.tagLines, List.filter_append, List.map_append]
  simp only [List.filter, h, Bool.not_false, List.map_cons, List.map_nil]
  exact tagsOfLines_snoc _ _ _

/-! ## the protocol name of a parsed tag is the specification's canonical name -/

theorem knownTagNames_sound : ∀ n ∈ Spec.knownTagNames, ∃ w ∈ TagV.all, n = w.name := by decide
theorem knownTagNames_complete : ∀ v ∈ TagV.all, v.name ∈ Spec.knownTagNames := by decide

theorem canonTag_known (k : Bytes) (v : TagV) (h : eqIgnoreCase k v.name = true) :
    Spec.canonTag k = v.name := by
  unfold Spec.canonTag
  cases hf : Spec.knownTagNames.find? (eqIgnoreCase k) with
  | none =>
    have := List.find?_eq_none.mp hf v.name (knownTagNames_complete v (C20.TagV.mem_all v))
    simp [h] at this
  | some n =>
    have hmem := List.mem_of_find?_eq_some hf
    have hp := List.find?_some hf
    obtain ⟨w, _, rfl⟩ := knownTagNames_sound n hmem
    have : eqIgnoreCase w.name v.name = true :=
      eqIgnoreCase_trans _ k _ (by rw [eqIgnoreCase_symm]; exact hp) h
    simp [C20.names_ci_distinct w v this]

theorem canonTag_unknown (k : Bytes) (h : ∀ v : TagV, eqIgnoreCase k v.name = false) :
    Spec.canonTag k = k := by
  unfold Spec.canonTag
  cases hf : Spec.knownTagNames.find? (eqIgnoreCase k) with
  | none => rfl
  | some n =>
    have hmem := List.mem_of_find?_eq_some hf
    have hp := List.find?_some hf
    obtain ⟨w, _, rfl⟩ := knownTagNames_sound n hmem
    rw [h w] at hp
    simp at hp

theorem name_of_tryFrom (k : Bytes) (t : Tag) (h : Tag.tryFrom k = .ok t) : t.name = Spec.canonTag k := by
  rcases C20.C20_parse_result k t h with ⟨v, rfl, hv⟩ | ⟨rfl, hunk⟩
  · simp [Tag.name, canonTag_known k v hv]
  · simp [Tag.name, canonTag_unknown k hunk]

/-- a field name the protocol parser can produce is an acceptable tag (the cross-module fact behind
the `unwrap` in `handle_song_field`). If the parser's alphabet were widened beyond
`Tag::try_from`'s, this lemma would break (see `C20.tagChar_eq_fieldNameChar`). -/
theorem tryFrom_ok_of_wfKey (k : Bytes) (h : Spec.wfFieldName k = true) : ∃ t, Tag.tryFrom k = .ok t := by
  simp only [Spec.wfFieldName, Bool.and_eq_true, Bool.not_eq_true', List.isEmpty_eq_false_iff] at h
  exact (C20.C20_parse_accepts_iff k).mpr ⟨h.1, by rw [C20.tagChar_eq_fieldNameChar]; exact h.2⟩

/-! ## `lastOf` / `firstOf` / `durText` under one more line -/

theorem lastOf_snoc (K : Bytes) (pre : List (Bytes × Bytes)) (k v : Bytes) :
    Spec.lastOf K (pre ++ [(k, v)]) = if k = K then some v else Spec.lastOf K pre := by
  simp only [Spec.lastOf, List.filter_append]
  by_cases h : k = K <;> simp [h]

theorem firstOf_snoc (K : Bytes) (pre : List (Bytes × Bytes)) (k v : Bytes) :
    Spec.firstOf K (pre ++ [(k, v)]) =
      match Spec.firstOf K pre with
      | some x => some x
      | none => if k = K then some v else none := by
  simp only [Spec.firstOf, List.filter_append]
  cases hf : pre.filter (·.1 == K) with
  | nil => by_cases h : k = K <;> simp [h]
  | cons e es => simp

theorem lastOf_mem (K : Bytes) (l : List (Bytes × Bytes)) (x : Bytes) (h : Spec.lastOf K l = some x) :
    (K, x) ∈ l := by
  simp only [Spec.lastOf, Option.map_eq_some_iff] at h
  obtain ⟨e, he, rfl⟩ := h
  have := List.mem_of_getLast? he
  simp only [List.mem_filter, beq_iff_eq] at this
  obtain ⟨k', x'⟩ := e
  simp only at this
  rw [← this.2]; exact this.1

theorem firstOf_mem (K : Bytes) (l : List (Bytes × Bytes)) (x : Bytes) (h : Spec.firstOf K l = some x) :
    (K, x) ∈ l := by
  simp only [Spec.firstOf, Option.map_eq_some_iff] at h
  obtain ⟨e, he, rfl⟩ := h
  have := List.mem_of_head? he
  simp only [List.mem_filter, beq_iff_eq] at this
  obtain ⟨k', x'⟩ := e
  simp only at this
  rw [← this.2]; exact this.1

theorem firstOf_none (K : Bytes) (l : List (Bytes × Bytes)) (h : ∀ e ∈ l, e.1 ≠ K) :
    Spec.firstOf K l = none := by
  have : l.filter (·.1 == K) = [] := by
    simp only [List.filter_eq_nil_iff, beq_iff_eq]
    exact fun e he => h e he
  simp [Spec.firstOf, this]

theorem lastOf_none (K : Bytes) (l : List (Bytes × Bytes)) (h : ∀ e ∈ l, e.1 ≠ K) :
    Spec.lastOf K l = none := by
  have : l.filter (·.1 == K) = [] := by
    simp only [List.filter_eq_nil_iff, beq_iff_eq]
    exact fun e he => h e he
  simp [Spec.lastOf, this]

/-! ## value parsers -/

theorem seconds_eq (v : Bytes) : Spec.seconds v = parseDuration v := rfl

theorem parseUnsigned_decimal (max : Nat) (v : Bytes) (n : Nat) (h : Spec.decimalL v = some n)
    (hle : n ≤ max) : parseUnsigned max v = some n := by
  simp only [Spec.decimalL] at h
  split at h
  · rename_i hc
    simp only [Bool.and_eq_true, Bool.not_eq_true', Option.some.injEq] at hc h
    subst h
    unfold parseUnsigned
    split
    · rename_i t
      have : isDigit 43 = true := by
        have := hc.2
        simp only [List.all_cons, Bool.and_eq_true] at this
        exact this.1
      exact absurd this (by decide)
    · simp [hc.1, hc.2, hle]
  · simp at h

theorem splitOnce_eq (c : UInt8) (v : Bytes) :
    splitOnceS c v =
      match v.dropWhile (· != c) with
      | [] => none
      | _ :: b => some (v.takeWhile (· != c), b) := by
  induction v with
  | nil => simp [splitOnceS]
  | cons x xs ih =>
    simp only [splitOnceS]
    by_cases h : x = c
    · subst h; simp [List.dropWhile, List.takeWhile]
    · have hb : (x != c) = true := by simpa using h
      simp only [h, if_false, List.dropWhile, List.takeWhile, hb, ih]
      cases List.dropWhile (fun x => x != c) xs <;> simp

/-- the specification's reading of a range text is the crate's -/
theorem rangeOf_eq (v : Bytes) :
    Spec.rangeOf v = (parseRange v).map (fun r => (r.start, r.stop)) := by
  unfold Spec.rangeOf parseRange
  rw [splitOnce_eq]
  simp only [seconds_eq]
  cases hd : v.dropWhile (· != DASH) with
  | nil => simp
  | cons x b =>
    simp only
    cases ha : parseDuration (v.takeWhile (· != DASH)) with
    | none => simp
    | some f =>
      simp only
      by_cases hb : b = []
      · simp [hb]
      · simp only [hb, if_false, List.isEmpty_iff]
        cases parseDuration b <;> simp

end Mpd.SongLemmas
