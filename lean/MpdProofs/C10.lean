import MpdProofs.C03
import MpdProofs.Lemmas.Sticky
/-!
# C10 — end of stream is clean only on a response boundary

For well-formed server output: EOF after complete responses is a clean close; EOF after any
non-empty proper prefix of a further response (cut inside a key, a value, a binary header, a
payload, between the frames of a list …) is an unexpected-EOF error, and the complete responses
before it are still delivered. Both flavours, every segmentation (via C02). The end is sticky
(`C10_end_is_sticky`): once a call reported the end (clean, unexpected EOF, I/O error, invalid message)
and the transport has nothing more, every further call reports the same — an unclean end never turns
into a clean one (both connections, any builder state carried over from earlier calls).
-/
namespace Mpd.C10
open Mpd Mpd.Parser Mpd.Builder Mpd.Conn Mpd.C03

/-- a step that does not finish a response leaves the builder in a non-initial state -/
theorem bstep_none_ne_initial (σ : BState) (pc : Piece) (h : (bstep σ pc).2 = none) :
    (bstep σ pc).1 ≠ .initial := by
  cases σ <;> cases pc <;> simp [bstep] at h ⊢

/-- if `feed` consumed something and is still pending, a response is in progress -/
theorem feed_pending_inProgress (σ : BState) (buf : Bytes) :
    (feed σ buf).2.2 = .pending → (feed σ buf).2.1.length < buf.length ∨ σ ≠ .initial →
    (feed σ buf).1 ≠ .initial := by
  fun_induction feed σ buf with
  | case1 σ buf c rest h hlt hp => intro hh; simp at hh
  | case2 σ buf c rest h hlt pc hpc σ' r hb => intro hh; simp at hh
  | case3 σ buf c rest h hlt pc hpc σ' hb ih =>
    intro hh _
    apply ih hh
    right
    have := bstep_none_ne_initial σ pc (by rw [hb])
    rw [hb] at this
    exact this
  | case4 σ buf h =>
    intro _ hor
    rcases hor with h1 | h1
    · simp at h1
    · exact h1
  | case5 σ buf h => intro hh; simp at hh
  | case6 σ buf h => intro hh; simp at hh

/-- a non-empty proper prefix of a well-formed response leaves the receive pending with the
builder in progress or bytes unconsumed — exactly the two disjuncts of the EOF test -/
theorem prefix_pending (r : Spec.AbsResp) (p q : Bytes) (hwf : Spec.WF r = true)
    (hpq : Spec.enc r = p ++ q) (hp : p ≠ []) (hq : q ≠ []) :
    (feed .initial p).2.2 = .pending ∧
      ((feed .initial p).1 ≠ .initial ∨ (feed .initial p).2.1 ≠ []) := by
  have hfull := C03_response r [] hwf
  rw [List.append_nil, hpq] at hfull
  have hpend : (feed .initial p).2.2 = .pending := by
    by_cases hne : (feed .initial p).2.2 = .pending
    · exact hne
    exfalso
    have := feed_final_append .initial p q hne
    rw [hfull] at this
    simp only [Prod.mk.injEq] at this
    have h2 := this.2.1
    have : q = [] := (List.append_eq_nil_iff.mp h2.symm).2
    exact hq this
  refine ⟨hpend, ?_⟩
  by_cases hrest : (feed .initial p).2.1 = []
  · left
    apply feed_pending_inProgress .initial p hpend
    left
    rw [hrest]
    exact List.length_pos_iff.mpr hp
  · right; exact hrest

/-- **C10 (clean)**: EOF exactly after complete responses is a clean close -/
theorem C10_clean (fuel : Nat) (rs : List Spec.AbsResp) (hwf : ∀ r ∈ rs, Spec.WF r = true) :
    decodeAll (fuel + 1 + rs.length) (rs.flatMap Spec.enc) .eof = rs.map viewItem ++ [.clean] := by
  have := C03_stream (fuel + 1) rs [] .eof hwf
  rw [List.append_nil] at this
  rw [this, decodeAll, feed_nil]
  rfl

/-- **C10 (unclean)**: EOF inside a response — at ANY cut position — is an unexpected-EOF error,
after the complete responses have been delivered -/
theorem C10_unclean (fuel : Nat) (rs : List Spec.AbsResp) (r : Spec.AbsResp) (p q : Bytes)
    (hwf : ∀ x ∈ rs, Spec.WF x = true) (hr : Spec.WF r = true)
    (hpq : Spec.enc r = p ++ q) (hp : p ≠ []) (hq : q ≠ []) :
    decodeAll (fuel + 1 + rs.length) (rs.flatMap Spec.enc ++ p) .eof = rs.map viewItem ++ [.unexpectedEof] := by
  rw [C03_stream (fuel + 1) rs p .eof hwf, decodeAll]
  obtain ⟨hpend, hor⟩ := prefix_pending r p q hr hpq hp hq
  rcases hf : feed .initial p with ⟨σ', rest, out⟩
  rw [hf] at hpend hor
  simp only at hpend hor
  subst hpend
  simp only [termItem, eofItem]
  rcases hor with h | h
  · have : inProgress σ' = true := by simp [inProgress, h]
    simp [this]
  · have : rest.isEmpty = false := by cases rest <;> simp_all
    simp [this]

/-- both connections, every segmentation into non-empty reads -/
theorem C10_unclean_async (fuel : Nat) (rs : List Spec.AbsResp) (r : Spec.AbsResp) (p q : Bytes)
    (chunks : List Bytes) (hne : NonEmptyChunks chunks)
    (hwf : ∀ x ∈ rs, Spec.WF x = true) (hr : Spec.WF r = true)
    (hpq : Spec.enc r = p ++ q) (hp : p ≠ []) (hq : q ≠ [])
    (hflat : chunks.flatten = rs.flatMap Spec.enc ++ p) :
    sessionA (fuel + 1 + rs.length) 0 .initial [] chunks .eof = rs.map viewItem ++ [.unexpectedEof] := by
  rw [C02.C02_async _ [] chunks .eof hne, List.nil_append, hflat]
  exact C10_unclean fuel rs r p q hwf hr hpq hp hq

theorem C10_unclean_sync (fuel : Nat) (rs : List Spec.AbsResp) (r : Spec.AbsResp) (p q : Bytes)
    (chunks : List Bytes) (hne : NonEmptyChunks chunks)
    (hwf : ∀ x ∈ rs, Spec.WF x = true) (hr : Spec.WF r = true)
    (hpq : Spec.enc r = p ++ q) (hp : p ≠ []) (hq : q ≠ [])
    (hflat : chunks.flatten = rs.flatMap Spec.enc ++ p) :
    sessionS (fuel + 1 + rs.length) 0 .initial { cap := DEFAULT_CAP, data := [] } chunks .eof =
      rs.map viewItem ++ [.unexpectedEof] := by
  rw [C02.C02_sync _ _ chunks .eof hne C02.fresh_inv, List.nil_append, hflat]
  exact C10_unclean fuel rs r p q hwf hr hpq hp hq

theorem C10_clean_async (fuel : Nat) (rs : List Spec.AbsResp) (chunks : List Bytes)
    (hne : NonEmptyChunks chunks) (hwf : ∀ r ∈ rs, Spec.WF r = true)
    (hflat : chunks.flatten = rs.flatMap Spec.enc) :
    sessionA (fuel + 1 + rs.length) 0 .initial [] chunks .eof = rs.map viewItem ++ [.clean] := by
  rw [C02.C02_async _ [] chunks .eof hne, List.nil_append, hflat]
  exact C10_clean fuel rs hwf

theorem C10_clean_sync (fuel : Nat) (rs : List Spec.AbsResp) (chunks : List Bytes)
    (hne : NonEmptyChunks chunks) (hwf : ∀ r ∈ rs, Spec.WF r = true)
    (hflat : chunks.flatten = rs.flatMap Spec.enc) :
    sessionS (fuel + 1 + rs.length) 0 .initial { cap := DEFAULT_CAP, data := [] } chunks .eof = rs.map viewItem ++ [.clean] := by
  rw [C02.C02_sync _ _ chunks .eof hne C02.fresh_inv, List.nil_append, hflat]
  exact C10_clean fuel rs hwf

/-- **the end is sticky** (async): `extra` further calls after the end repeat it -/
theorem C10_end_is_sticky (extra : Nat) (σ : BState) (buf : Bytes) (term : Term)
    (h : ∀ r, (recvLoopA σ buf [] term).1 ≠ .resp r) :
    sessionA (extra + 1) extra σ buf [] term = List.replicate (extra + 1) (recvLoopA σ buf [] term).1 :=
  sessionA_sticky extra σ buf term h

/-- **the end is sticky** (blocking): the same for the blocking connection with its fixed, doubling
buffer, for any buffer that is within its capacity (every buffer `recvLoopS` leaves is) -/
theorem C10_end_is_sticky_blocking (extra : Nat) (σ : BState) (b : SBuf) (term : Term)
    (hcap : ¬ b.cap < b.data.length) (h : ∀ r, (recvS σ b [] term).1 ≠ .resp r) :
    sessionS (extra + 1) extra σ b [] term = List.replicate (extra + 1) (recvS σ b [] term).1 :=
  sessionS_sticky extra σ b term hcap h

example : sessionS 3 2 .initial { cap := DEFAULT_CAP, data := str "foo: bar\n" } [] .eof =
    [.unexpectedEof, .unexpectedEof, .unexpectedEof] := by
  decide +kernel

/-- **invalid data is final**: once a call has reported an invalid message, every later call on the
connection reports it again and consumes nothing — whatever the transport still delivers (`cs'`) and
however it ends (`t'`). No later caller is handed what was left of the rejected reply (C01), and the
connection cannot come back to life after data outside the grammar (C08, C09). -/
theorem C10_invalid_is_final_async (cs : List Bytes) (t : Term) (σ : BState) (buf : Bytes)
    (h : (recvLoopA σ buf cs t).1 = .invalid) (cs' : List Bytes) (t' : Term) :
    (recvLoopA (recvLoopA σ buf cs t).2.2.2 (recvLoopA σ buf cs t).2.1 cs' t').1 = .invalid := by
  rw [recvLoopA_invalid_forever cs t σ buf h cs' t']

theorem C10_invalid_is_final_blocking (f : Nat) (cs : List Bytes) (t : Term) (σ : BState) (b : SBuf)
    (h : (recvLoopS f σ b cs t).1 = .invalid) (f' : Nat) (cs' : List Bytes) (t' : Term) :
    (recvLoopS (f' + 1) (recvLoopS f σ b cs t).2.2.2 (recvLoopS f σ b cs t).2.1 cs' t').1 = .invalid := by
  rw [recvLoopS_invalid_forever f cs t σ b h f' cs' t']

/-- non-vacuity: a key with a digit inside a reply; the rest of that reply and a complete further
response arrive afterwards and are never delivered -/
example : (recvLoopA .initial [] [str "Artist: x\nMP3GAIN_MINMAX: 1\n"] .eof).1 = .invalid ∧
    (recvLoopA (recvLoopA .initial [] [str "Artist: x\nMP3GAIN_MINMAX: 1\n"] .eof).2.2.2
      (recvLoopA .initial [] [str "Artist: x\nMP3GAIN_MINMAX: 1\n"] .eof).2.1
      [str "Title: y\nOK\n", str "volume: 1\nOK\n"] .eof).1 = .invalid := by
  decide +kernel

/-- e.g. a stream that ended after a complete field line: unexpected EOF, three times in a row -/
example : sessionA 3 2 .initial (str "foo: bar\n") [] .eof = [.unexpectedEof, .unexpectedEof, .unexpectedEof] := by
  decide +kernel

/-! ## non-vacuity: the case the suite misses — a partial line and nothing else -/
example : decodeAll 4 (str "OK") .eof = [.unexpectedEof] := by
  have h := C10_unclean 3 [] { listForm := false, frames := [{ fields := [] }] } (str "OK") (str "\n")
    (by simp) (by decide +kernel) (by decide +kernel) (by decide) (by decide)
  simpa using h

/-! ## … also after reads that failed and were retried

A caller that calls `receive` again after every reported read failure (`sessionRetryA/S`, C02): however
many reads failed on the way, and wherever, an end of stream inside a response is still an
unexpected-EOF error after the complete responses, and an end on a response boundary is still clean
(seeded change C10_m22, which reset the half-built response on every failed read, breaks the first). -/

theorem C10_unclean_after_failed_reads_async (fuel : Nat) (rs : List Spec.AbsResp) (r : Spec.AbsResp) (p q : Bytes)
    (cs : List Bytes) (t : Term) (more : List Conn.ScriptPiece)
    (hio : IoChain t more) (hne : NonEmptyChunks (flatScript cs more)) (hlast : lastTerm t more = .eof)
    (hwf : ∀ x ∈ rs, Spec.WF x = true) (hr : Spec.WF r = true)
    (hpq : Spec.enc r = p ++ q) (hp : p ≠ []) (hq : q ≠ [])
    (hflat : (flatScript cs more).flatten = rs.flatMap Spec.enc ++ p) :
    sessionRetryA (fuel + 1 + rs.length) 0 .initial [] cs t more = rs.map viewItem ++ [.unexpectedEof] := by
  rw [C02.C02_failed_reads_invisible_session _ cs t more hio hne, hlast, hflat]
  exact C10_unclean fuel rs r p q hwf hr hpq hp hq

theorem C10_clean_after_failed_reads_async (fuel : Nat) (rs : List Spec.AbsResp)
    (cs : List Bytes) (t : Term) (more : List Conn.ScriptPiece)
    (hio : IoChain t more) (hne : NonEmptyChunks (flatScript cs more)) (hlast : lastTerm t more = .eof)
    (hwf : ∀ x ∈ rs, Spec.WF x = true)
    (hflat : (flatScript cs more).flatten = rs.flatMap Spec.enc) :
    sessionRetryA (fuel + 1 + rs.length) 0 .initial [] cs t more = rs.map viewItem ++ [.clean] := by
  rw [C02.C02_failed_reads_invisible_session _ cs t more hio hne, hlast, hflat]
  exact C10_clean fuel rs hwf

theorem C10_unclean_after_failed_reads_blocking (fuel : Nat) (rs : List Spec.AbsResp) (r : Spec.AbsResp) (p q : Bytes)
    (cs : List Bytes) (t : Term) (more : List Conn.ScriptPiece)
    (hio : IoChain t more) (hne : NonEmptyChunks (flatScript cs more)) (hlast : lastTerm t more = .eof)
    (hwf : ∀ x ∈ rs, Spec.WF x = true) (hr : Spec.WF r = true)
    (hpq : Spec.enc r = p ++ q) (hp : p ≠ []) (hq : q ≠ [])
    (hflat : (flatScript cs more).flatten = rs.flatMap Spec.enc ++ p) :
    sessionRetryS (fuel + 1 + rs.length) 0 .initial { cap := DEFAULT_CAP, data := [] } cs t more =
      rs.map viewItem ++ [.unexpectedEof] := by
  rw [C02.C02_failed_reads_invisible_session_blocking _ _ cs t more hio hne (by unfold SInv DEFAULT_CAP; simp),
    hlast, List.nil_append, hflat]
  exact C10_unclean fuel rs r p q hwf hr hpq hp hq

end Mpd.C10
