import MpdProofs.Lemmas.Lookup
import MpdProofs.Lemmas.Decimal
import MpdProofs.Lemmas.Duration
import MpdProofs.C20
import MpdSpec.Views
/-!
# C16 — status, stats, count, list, playlist, sticker, channel, tag-type, update and replay-gain
replies decode faithfully

For every reply kind: `dec (lines MPD prints for the abstract reply r) = ok (view r)` — for the
kinds with pairwise distinct keys for EVERY permutation of the lines and with or without a binary
part; soundness for ANY frame (`dec f = ok s` forces every field of `s` to be the conversion of
the first line with its key; a value outside the field's domain cannot produce `ok`; optional
fields are `none` exactly when the line is absent); the grouping state machines by induction on
the groups; stickers split at the first `=`; channel messages alternate.

Durations: `elapsed`/`duration` are proved exact for MPD's `%1.3f` values below 2^23 s, whole
second values (`xfade`, `uptime`, `playtime`, `db_playtime`, count `playtime`) below 2^53 s —
`Spec.MS_LIMIT` / `Spec.SEC_LIMIT`; these bounds are the `inDomain` hypotheses (binary64 cannot
represent every millisecond value beyond; see `Lemmas/Duration.lean`).
-/
namespace Mpd.C16
open Mpd Mpd.Typed Spec

macro "find_tac" : tactic => `(tactic|
  (simp (disch := decide) only [encStatus, encStats, encCount, encUpdate, encReplayGain, findKey_nil, findKey_cons_eq,
    findKey_cons_ne, findKey_opt_ne, findKey_opt_eq, findKey_opt_last_ne, findKey_opt_last_eq, orElse_none]))

/-! ## conversions of what the server prints -/

theorem parseDuration_fmt3 (ms : Nat) (h : ms < MS_LIMIT) : parseDuration (fmt3 ms) = some (msDur ms) :=
  F64.decodeDuration_fmt3 ms h
theorem parseDuration_decimal (s : Nat) (h : s < SEC_LIMIT) : parseDuration (decimal s) = some (secDur s) :=
  F64.decodeDuration_decimal s h

theorem parsePlayState_spelling (s : State) : parsePlayState s.spelling = some (viewState s) := by
  cases s <;> decide
theorem singleOf_enc (o : Option Single) :
    singleOf (o.map Single.spelling) = some ((o.map viewSingle).getD .disabled) := by
  cases o with
  | none => rfl
  | some s => cases s <;> decide
theorem parseReplayGainMode_spelling (m : RGMode) : parseReplayGainMode m.spelling = some (viewRG m) := by
  cases m <;> decide

/-! ## status -/

theorem look_single (r : StatusRec) : findKey K.single (encStatus r) = r.single.map Single.spelling := by
  unfold K.single; find_tac
theorem look_duration (r : StatusRec) : findKey K.duration (encStatus r) = r.duration.map fmt3 := by
  unfold K.duration; find_tac
theorem look_Time (r : StatusRec) : findKey K.Time (encStatus r) = none := by
  unfold K.Time; find_tac
theorem look_volume (r : StatusRec) : findKey K.volume (encStatus r) = r.volume.map decimal := by
  unfold K.volume; find_tac
theorem look_state (r : StatusRec) : findKey K.state (encStatus r) = some r.state.spelling := by
  unfold K.state; find_tac
theorem look_repeat (r : StatusRec) : findKey K.repeat_ (encStatus r) = some (b01 r.repeat_) := by
  unfold K.repeat_; find_tac
theorem look_random (r : StatusRec) : findKey K.random (encStatus r) = some (b01 r.random) := by
  unfold K.random; find_tac
theorem look_consume (r : StatusRec) : findKey K.consume (encStatus r) = some (b01 r.consume) := by
  unfold K.consume; find_tac
theorem look_playlistlength (r : StatusRec) : findKey K.playlistlength (encStatus r) = r.playlistlength.map decimal := by
  unfold K.playlistlength; find_tac
theorem look_playlist (r : StatusRec) : findKey K.playlist (encStatus r) = r.playlist.map decimal := by
  unfold K.playlist; find_tac
theorem look_song (r : StatusRec) : findKey K.song (encStatus r) = r.song.map (decimal ·.1) := by
  unfold K.song; find_tac
theorem look_songid (r : StatusRec) : findKey K.songid (encStatus r) = r.song.map (decimal ·.2) := by
  unfold K.songid; find_tac
theorem look_nextsong (r : StatusRec) : findKey K.nextsong (encStatus r) = r.nextsong.map (decimal ·.1) := by
  unfold K.nextsong; find_tac
theorem look_nextsongid (r : StatusRec) : findKey K.nextsongid (encStatus r) = r.nextsong.map (decimal ·.2) := by
  unfold K.nextsongid; find_tac
theorem look_elapsed (r : StatusRec) : findKey K.elapsed (encStatus r) = r.elapsed.map fmt3 := by
  unfold K.elapsed; find_tac
theorem look_bitrate (r : StatusRec) : findKey K.bitrate (encStatus r) = r.bitrate.map decimal := by
  unfold K.bitrate; find_tac
theorem look_xfade (r : StatusRec) : findKey K.xfade (encStatus r) = r.xfade.map decimal := by
  unfold K.xfade; find_tac
theorem look_updating_db (r : StatusRec) : findKey K.updating_db (encStatus r) = r.updatingDb.map decimal := by
  unfold K.updating_db; find_tac
theorem look_error (r : StatusRec) : findKey K.error (encStatus r) = r.error := by
  unfold K.error; find_tac
theorem look_partition (r : StatusRec) : findKey K.partition (encStatus r) = r.partition := by
  unfold K.partition; find_tac

theorem statusRest_enc (r : StatusRec) (hd : r.inDomain = true) (single : SingleMode) (D : Option Dur) :
    (statusRest single D).runF (fun k => findKey k (encStatus r)) =
      .ok { viewStatus r with single := single, duration := D } := by
  simp only [StatusRec.inDomain, Bool.and_eq_true] at hd
  obtain ⟨⟨⟨⟨⟨⟨⟨⟨⟨d1, d2⟩, d3⟩, d4⟩, d5⟩, d6⟩, d7⟩, d8⟩, d9⟩, d10⟩ := hd
  unfold statusRest
  have u64 : ∀ {o : Option Nat}, o.all (fun x => decide (x ≤ Spec.U64MAX)) = true → ∀ a, o = some a → a ≤ 18446744073709551615 :=
    fun h a ha => of_decide_eq_true (all_some h a ha)
  have pr : ∀ {o : Option (Nat × Nat)}, o.all (fun p => decide (p.fst ≤ Spec.U64MAX) && decide (p.snd ≤ Spec.U64MAX)) = true →
      ∀ a, o = some a → a.1 ≤ 18446744073709551615 ∧ a.2 ≤ 18446744073709551615 :=
    fun h a ha => by
      have := all_some h a ha
      simp only [Bool.and_eq_true] at this
      exact ⟨of_decide_eq_true this.1, of_decide_eq_true this.2⟩
  rw [runF_pOptional_enc (look_volume r) (fun a ha => parseU8_decimal a (of_decide_eq_true (all_some d1 a ha)))]
  rw [runF_pValue_some (look_state r) (parsePlayState_spelling _)]
  rw [runF_pValue_some (look_repeat r) (parseBool_b01 _)]
  rw [runF_pValue_some (look_random r) (parseBool_b01 _)]
  rw [runF_pValue_some (look_consume r) (parseBool_b01 _)]
  rw [runF_pOptional_enc (look_playlistlength r) (fun a ha => parseUsize_decimal a (u64 d3 a ha))]
  rw [runF_pOptional_enc (look_playlist r) (fun a ha => parseU32_decimal a (of_decide_eq_true (all_some d2 a ha)))]
  rw [runF_pSongIdentifier_enc (look_song r) (look_songid r)
    (fun a ha => parseUsize_decimal _ (pr d4 a ha).1) (fun a ha => parseU64_decimal _ (pr d4 a ha).2)]
  rw [runF_pSongIdentifier_enc (look_nextsong r) (look_nextsongid r)
    (fun a ha => parseUsize_decimal _ (pr d5 a ha).1) (fun a ha => parseU64_decimal _ (pr d5 a ha).2)]
  rw [runF_pOptional_encv (g := msDur) (look_elapsed r)
    (fun a ha => parseDuration_fmt3 a (of_decide_eq_true (all_some d9 a ha)))]
  rw [runF_pOptional_enc (look_bitrate r) (fun a ha => parseU64_decimal a (u64 d6 a ha))]
  rw [runF_pOptional_encv (g := secDur) (look_xfade r)
    (fun a ha => parseDuration_decimal a (of_decide_eq_true (all_some d8 a ha)))]
  rw [runF_pOptional_enc (look_updating_db r) (fun a ha => parseU64_decimal a (u64 d7 a ha))]
  rw [runF_pRaw, runF_pRaw, runF_ret]
  simp only [look_error, look_partition]
  rfl

def statusKeys : List Bytes :=
  [str "volume", str "repeat", str "random", str "single", str "consume", str "partition", str "playlist",
   str "playlistlength", str "mixrampdb", str "state", str "xfade", str "mixrampdelay", str "song", str "songid",
   str "time", str "elapsed", str "bitrate", str "duration", str "audio", str "updating_db", str "error",
   str "nextsong", str "nextsongid"]

theorem keys_encStatus_nodup (r : StatusRec) : (AFrame.keys (encStatus r)).Nodup := by
  have hs : (AFrame.keys (encStatus r)).Sublist statusKeys := by
    unfold encStatus statusKeys
    repeat (first | exact keys_opt_sub _ _ | apply keys_opt_append_sub | apply keys_cons_sub)
  exact hs.nodup (by decide)

/-- **status**: decoding ANY permutation of the lines MPD prints for an abstract status reply
(every subset of optional lines, with or without a binary part) gives exactly that reply -/
theorem C16_status_decodes (r : StatusRec) (hd : r.inDomain = true) (l : List Line)
    (hp : l.Perm (encStatus r)) (bin : Option Bytes) :
    decStatus ⟨l, bin⟩ = .ok (viewStatus r) := by
  rw [decStatus_eq]
  have hfun : (AFrame.mk l bin).find = fun k => findKey k (encStatus r) := by
    funext k
    exact (AFrame.find_perm hp.symm (keys_encStatus_nodup r) none bin k).symm
  rw [hfun]
  unfold statusProg
  simp only [runF_get, look_single, look_duration, singleOf_enc]
  have hdur : r.duration.all (fun x => decide (x < MS_LIMIT)) = true := by
    simp only [StatusRec.inDomain, Bool.and_eq_true] at hd; exact hd.2
  cases hdu : r.duration with
  | none =>
    simp only [Option.map_none, runF_get, look_Time]
    rw [statusRest_enc r hd]
    simp [viewStatus, hdu]
  | some ms =>
    simp only [Option.map_some, parseDuration_fmt3 ms (of_decide_eq_true (all_some hdur ms hdu))]
    rw [statusRest_enc r hd]
    simp [viewStatus, hdu]

/-- the `duration` of a status: the `duration` line if present, else the part after the first `:`
of a legacy `Time` line, else none -/
def DurRel (look : Bytes → Option Bytes) (x : Option Dur) : Prop :=
  match look K.duration with
  | some v => ∃ d, parseDuration v = some d ∧ x = some d
  | none =>
    match look K.Time with
    | some t => ∃ d, parseLegacyTime t = some d ∧ x = some d
    | none => x = none

structure StatusSound (look : Bytes → Option Bytes) (s : Status) : Prop where
  volume : Def look K.volume parseU8 0 s.volume
  state : Req look K.state parsePlayState s.state
  repeat_ : Req look K.repeat_ parseBool s.repeat_
  random : Req look K.random parseBool s.random
  consume : Req look K.consume parseBool s.consume
  single : Def look K.single parseSingle .disabled s.single
  playlistLength : Def look K.playlistlength parseUsize 0 s.playlistLength
  playlistVersion : Def look K.playlist parseU32 0 s.playlistVersion
  currentSong : SongRel look K.song K.songid s.currentSong
  nextSong : SongRel look K.nextsong K.nextsongid s.nextSong
  elapsed : Opt look K.elapsed parseDuration s.elapsed
  duration : DurRel look s.duration
  bitrate : Opt look K.bitrate parseU64 s.bitrate
  crossfade : Def look K.xfade parseDuration (0, 0) s.crossfade
  updateJob : Opt look K.updating_db parseU64 s.updateJob
  error : s.error = look K.error
  partition : s.partition = look K.partition

theorem statusRest_ok {look single D s} (h : (statusRest single D).runF look = .ok s)
    (hs : Def look K.single parseSingle .disabled single) (hD : DurRel look D) : StatusSound look s := by
  unfold statusRest at h
  obtain ⟨volume, h1, h⟩ := runF_pOptional_ok h
  obtain ⟨state, h2, h⟩ := runF_pValue_ok h
  obtain ⟨rep, h3, h⟩ := runF_pValue_ok h
  obtain ⟨random, h4, h⟩ := runF_pValue_ok h
  obtain ⟨consume, h5, h⟩ := runF_pValue_ok h
  obtain ⟨pll, h6, h⟩ := runF_pOptional_ok h
  obtain ⟨plv, h7, h⟩ := runF_pOptional_ok h
  obtain ⟨cur, h8, h⟩ := runF_pSongIdentifier_ok h
  obtain ⟨next, h9, h⟩ := runF_pSongIdentifier_ok h
  obtain ⟨elapsed, h10, h⟩ := runF_pOptional_ok h
  obtain ⟨bitrate, h11, h⟩ := runF_pOptional_ok h
  obtain ⟨xfade, h12, h⟩ := runF_pOptional_ok h
  obtain ⟨uj, h13, h⟩ := runF_pOptional_ok h
  rw [runF_pRaw, runF_pRaw, runF_ret] at h
  injection h with h
  subst h
  exact ⟨h1.getD 0, h2, h3, h4, h5, hs, h6.getD 0, h7.getD 0, h8, h9, h10, hD, h11, h12.getD (0, 0), h13, rfl, rfl⟩

/-- **soundness of `Status`**: whatever frame was decoded, every field of the decoded value is the
conversion of the first line with the corresponding key; a line whose value is outside the
field's domain (`conv v = none`) cannot lead to a value; optional fields are `none` exactly when
the line is missing, defaulted fields take the default exactly then -/
theorem C16_status_sound (f : AFrame) (s : Status) (h : decStatus f = .ok s) : StatusSound f.find s := by
  rw [decStatus_eq] at h
  generalize f.find = look at h
  unfold statusProg at h
  simp only [runF_get] at h
  have hsingle : ∀ sm, singleOf (look K.single) = some sm → Def look K.single parseSingle .disabled sm := by
    intro sm hsm
    unfold Def
    cases hl : look K.single with
    | none => simp [hl, singleOf] at hsm ⊢; exact hsm.symm
    | some v => simpa [hl, singleOf] using hsm
  cases hsm : singleOf (look K.single) with
  | none => simp [hsm] at h
  | some sm =>
    simp only [hsm, runF_get] at h
    cases hd : look K.duration with
    | some v =>
      simp only [hd] at h
      cases hp : parseDuration v with
      | none => simp [hp] at h
      | some d =>
        simp only [hp] at h
        exact statusRest_ok h (hsingle sm hsm) (by unfold DurRel; simp only [hd]; exact ⟨d, hp, rfl⟩)
    | none =>
      simp only [hd, runF_get] at h
      cases ht : look K.Time with
      | some t =>
        simp only [ht] at h
        cases hp : parseLegacyTime t with
        | none => simp [hp] at h
        | some d =>
          simp only [hp] at h
          exact statusRest_ok h (hsingle sm hsm) (by unfold DurRel; simp only [hd, ht]; exact ⟨d, hp, rfl⟩)
      | none =>
        simp only [ht] at h
        exact statusRest_ok h (hsingle sm hsm) (by unfold DurRel; simp only [hd, ht])




theorem SongRel.none_iff {look pk ik x} (h : SongRel look pk ik x) : x = none ↔ look pk = none := by
  unfold SongRel at h
  cases hl : look pk with
  | none => simp [hl] at h; simp [h]
  | some v => simp [hl] at h; obtain ⟨p, i, _, _, rfl⟩ := h; simp

/-- **absence ⇔ omission** for every optional field of `Status`: the decoded field is `None`
exactly when the frame has no line with that key (for `duration`: neither `duration` nor the
legacy `Time`) -/
theorem C16_status_absent_iff_omitted (f : AFrame) (s : Status) (h : decStatus f = .ok s) :
    (s.elapsed = none ↔ f.find K.elapsed = none) ∧ (s.bitrate = none ↔ f.find K.bitrate = none) ∧
    (s.updateJob = none ↔ f.find K.updating_db = none) ∧ (s.error = none ↔ f.find K.error = none) ∧
    (s.partition = none ↔ f.find K.partition = none) ∧ (s.currentSong = none ↔ f.find K.song = none) ∧
    (s.nextSong = none ↔ f.find K.nextsong = none) ∧
    (s.duration = none ↔ f.find K.duration = none ∧ f.find K.Time = none) := by
  have hs := C16_status_sound f s h
  refine ⟨hs.elapsed.none_iff, hs.bitrate.none_iff, hs.updateJob.none_iff, by rw [hs.error], by rw [hs.partition],
    hs.currentSong.none_iff, hs.nextSong.none_iff, ?_⟩
  have hd := hs.duration
  unfold DurRel at hd
  cases h1 : f.find K.duration with
  | some v => simp only [h1] at hd; obtain ⟨d, _, hd⟩ := hd; simp [hd]
  | none =>
    simp only [h1] at hd
    cases h2 : f.find K.Time with
    | some t => simp only [h2] at hd; obtain ⟨d, _, hd⟩ := hd; simp [hd]
    | none => simp only [h2] at hd; simp [hd]

/-- removal of fields by `Frame::get` is unobservable: `Status::from_frame` is a function of the
first-occurrence lookup of the frame, for EVERY frame (duplicate keys: the first one counts) -/
theorem C16_status_first_occurrence (f g : AFrame) (h : ∀ k, f.find k = g.find k) : decStatus f = decStatus g := by
  rw [decStatus_eq, decStatus_eq, funext h]

/-- durations as MPD prints them are decoded exactly (the detour through binary64 loses nothing):
`%1.3f` values below 2^23 s, whole seconds below 2^53 s -/
theorem C16_duration_millis_exact (ms : Nat) (h : ms < 2 ^ 23 * 1000) :
    parseDuration (fmt3 ms) = some (ms / 1000, ms % 1000 * 1000000) := parseDuration_fmt3 ms h
theorem C16_duration_seconds_exact (s : Nat) (h : s < 2 ^ 53) : parseDuration (decimal s) = some (s, 0) :=
  parseDuration_decimal s h

/-! ## stats -/

theorem C16_stats_decodes (r : StatsRec) (hd : r.inDomain = true) (l : List Line)
    (hp : l.Perm (encStats r)) (bin : Option Bytes) :
    decStats ⟨l, bin⟩ = .ok (viewStats r) := by
  rw [decStats_eq]
  have hnd : (AFrame.keys (encStats r)).Nodup := by
    have : AFrame.keys (encStats r) = [str "uptime", str "playtime", str "artists", str "albums", str "songs",
      str "db_playtime", str "db_update"] := rfl
    rw [this]; decide
  have hfun : (AFrame.mk l bin).find = fun k => findKey k (encStats r) := by
    funext k; exact (AFrame.find_perm hp.symm hnd none bin k).symm
  rw [hfun]
  simp only [StatsRec.inDomain, Bool.and_eq_true, decide_eq_true_eq] at hd
  obtain ⟨⟨⟨⟨⟨⟨d1, d2⟩, d3⟩, d4⟩, d5⟩, d6⟩, d7⟩ := hd
  unfold statsProg
  rw [runF_pValue_some (v := decimal r.artists) (by unfold K.artists; find_tac) (parseU64_decimal _ d1)]
  rw [runF_pValue_some (v := decimal r.albums) (by unfold K.albums; find_tac) (parseU64_decimal _ d2)]
  rw [runF_pValue_some (v := decimal r.songs) (by unfold K.songs; find_tac) (parseU64_decimal _ d3)]
  rw [runF_pValue_some (v := decimal r.uptime) (by unfold K.uptime; find_tac) (parseDuration_decimal _ d5)]
  rw [runF_pValue_some (v := decimal r.playtime) (by unfold K.playtime; find_tac) (parseDuration_decimal _ d6)]
  rw [runF_pValue_some (v := decimal r.dbPlaytime) (by unfold K.db_playtime; find_tac) (parseDuration_decimal _ d7)]
  rw [runF_pValue_some (v := decimal r.dbUpdate) (by unfold K.db_update; find_tac) (parseU64_decimal _ d4)]
  rfl

structure StatsSound (look : Bytes → Option Bytes) (s : Stats) : Prop where
  artists : Req look K.artists parseU64 s.artists
  albums : Req look K.albums parseU64 s.albums
  songs : Req look K.songs parseU64 s.songs
  uptime : Req look K.uptime parseDuration s.uptime
  playtime : Req look K.playtime parseDuration s.playtime
  dbPlaytime : Req look K.db_playtime parseDuration s.dbPlaytime
  dbLastUpdate : Req look K.db_update parseU64 s.dbLastUpdate

theorem C16_stats_sound (f : AFrame) (s : Stats) (h : decStats f = .ok s) : StatsSound f.find s := by
  rw [decStats_eq] at h
  unfold statsProg at h
  obtain ⟨a1, h1, h⟩ := runF_pValue_ok h
  obtain ⟨a2, h2, h⟩ := runF_pValue_ok h
  obtain ⟨a3, h3, h⟩ := runF_pValue_ok h
  obtain ⟨a4, h4, h⟩ := runF_pValue_ok h
  obtain ⟨a5, h5, h⟩ := runF_pValue_ok h
  obtain ⟨a6, h6, h⟩ := runF_pValue_ok h
  obtain ⟨a7, h7, h⟩ := runF_pValue_ok h
  rw [runF_ret] at h
  injection h with h
  subst h
  exact ⟨h1, h2, h3, h4, h5, h6, h7⟩

/-! ## count, update, replay gain -/

theorem C16_count_decodes (r : CountRec) (hd : r.inDomain = true) (l : List Line)
    (hp : l.Perm (encCount r)) (bin : Option Bytes) :
    decCount ⟨l, bin⟩ = .ok (viewCount r) := by
  rw [decCount_eq]
  have hnd : (AFrame.keys (encCount r)).Nodup := by
    have : AFrame.keys (encCount r) = [str "songs", str "playtime"] := rfl
    rw [this]; decide
  have hfun : (AFrame.mk l bin).find = fun k => findKey k (encCount r) := by
    funext k; exact (AFrame.find_perm hp.symm hnd none bin k).symm
  rw [hfun]
  simp only [CountRec.inDomain, Bool.and_eq_true, decide_eq_true_eq] at hd
  unfold countProg
  rw [runF_pValue_some (v := decimal r.songs) (by unfold K.songs; find_tac) (parseU64_decimal _ hd.1)]
  rw [runF_pValue_some (v := decimal r.playtime) (by unfold K.playtime; find_tac) (parseDuration_decimal _ hd.2)]
  rfl

theorem C16_count_sound (f : AFrame) (c : Count) (h : decCount f = .ok c) :
    Req f.find K.songs parseU64 c.songs ∧ Req f.find K.playtime parseDuration c.playtime := by
  rw [decCount_eq] at h
  unfold countProg at h
  obtain ⟨a1, h1, h⟩ := runF_pValue_ok h
  obtain ⟨a2, h2, h⟩ := runF_pValue_ok h
  rw [runF_ret] at h
  injection h with h
  subst h
  exact ⟨h1, h2⟩

/-- `update` / `rescan`: the job id -/
theorem C16_update_decodes (job : Nat) (hd : job ≤ Spec.U64MAX) (bin : Option Bytes) :
    decUpdate ⟨encUpdate job, bin⟩ = .ok job := by
  rw [decUpdate_eq]
  unfold updateProg
  rw [runF_pValue_some (v := decimal job) (by rw [find_mk]; unfold K.updating_db; find_tac) (parseU64_decimal _ hd)]
  rfl

theorem C16_update_sound (f : AFrame) (job : Nat) (h : decUpdate f = .ok job) :
    Req f.find K.updating_db parseU64 job := by
  rw [decUpdate_eq] at h
  unfold updateProg at h
  obtain ⟨a1, h1, h⟩ := runF_pValue_ok h
  rw [runF_ret] at h
  injection h with h
  subst h
  exact h1

theorem C16_replayGain_decodes (m : RGMode) (bin : Option Bytes) :
    decReplayGain ⟨encReplayGain m, bin⟩ = .ok (viewRG m) := by
  rw [decReplayGain_eq]
  unfold replayGainProg
  rw [runF_pValue_some (v := m.spelling) (by rw [find_mk]; unfold K.replay_gain_mode; find_tac)
    (parseReplayGainMode_spelling m)]
  rfl

theorem C16_replayGain_sound (f : AFrame) (m : ReplayGainMode) (h : decReplayGain f = .ok m) :
    Req f.find K.replay_gain_mode parseReplayGainMode m := by
  rw [decReplayGain_eq] at h
  unfold replayGainProg at h
  obtain ⟨a1, h1, h⟩ := runF_pValue_ok h
  rw [runF_ret] at h
  injection h with h
  subst h
  exact h1

/-! ## enum spellings: exactly the documented ones are in the domain -/

theorem C16_playState_domain (v : Bytes) :
    (∃ s, parsePlayState v = some s) ↔ v = str "play" ∨ v = str "pause" ∨ v = str "stop" := by
  unfold parsePlayState
  constructor
  · rintro ⟨s, h⟩
    by_cases h1 : v = str "play"
    · exact .inl h1
    · by_cases h2 : v = str "pause"
      · exact .inr (.inl h2)
      · by_cases h3 : v = str "stop"
        · exact .inr (.inr h3)
        · simp [h1, h2, h3] at h
  · rintro (h | h | h) <;> subst h <;> exact Option.isSome_iff_exists.mp (by decide)

theorem C16_single_domain (v : Bytes) :
    (∃ s, parseSingle v = some s) ↔ v = str "0" ∨ v = str "1" ∨ v = str "oneshot" := by
  unfold parseSingle
  constructor
  · rintro ⟨s, h⟩
    by_cases h1 : v = str "0"
    · exact .inl h1
    · by_cases h2 : v = str "1"
      · exact .inr (.inl h2)
      · by_cases h3 : v = str "oneshot"
        · exact .inr (.inr h3)
        · simp [h1, h2, h3] at h
  · rintro (h | h | h) <;> subst h <;> exact Option.isSome_iff_exists.mp (by decide)

theorem C16_replayGainMode_domain (v : Bytes) :
    (∃ s, parseReplayGainMode v = some s) ↔ v = str "off" ∨ v = str "track" ∨ v = str "album" ∨ v = str "auto" := by
  unfold parseReplayGainMode
  constructor
  · rintro ⟨s, h⟩
    by_cases h1 : v = str "off"
    · exact .inl h1
    · by_cases h2 : v = str "track"
      · exact .inr (.inl h2)
      · by_cases h3 : v = str "album"
        · exact .inr (.inr (.inl h3))
        · by_cases h4 : v = str "auto"
          · exact .inr (.inr (.inr h4))
          · simp [h1, h2, h3, h4] at h
  · rintro (h | h | h | h) <;> subst h <;> exact Option.isSome_iff_exists.mp (by decide)

theorem C16_bool_domain (v : Bytes) : (∃ b, parseBool v = some b) ↔ v = [48] ∨ v = [49] := by
  unfold parseBool
  constructor
  · rintro ⟨b, h⟩
    by_cases h1 : v = [48]
    · exact .inl h1
    · by_cases h2 : v = [49]
      · exact .inr h2
      · simp [h1, h2] at h
  · rintro (h | h) <;> subst h <;> exact Option.isSome_iff_exists.mp (by decide)

/-- an integer field accepts exactly: optional `+`, at least one digit, only digits, value in range -/
theorem C16_unsigned_domain (max : Nat) (v : Bytes) (n : Nat) (h : parseUnsigned max v = some n) :
    n ≤ max ∧ ∃ ds : Bytes, (v = ds ∨ v = 43 :: ds) ∧ ds ≠ [] ∧ ds.all isDigit = true ∧ digitsVal ds = n := by
  have core : ∀ ds : Bytes, (if (ds.isEmpty || !(ds.all isDigit)) = true then none
      else if digitsVal ds ≤ max then some (digitsVal ds) else none) = some n →
      n ≤ max ∧ ds ≠ [] ∧ ds.all isDigit = true ∧ digitsVal ds = n := by
    intro ds h
    cases hc : (ds.isEmpty || !(ds.all isDigit)) with
    | true => simp [hc] at h
    | false =>
      simp only [hc, Bool.false_eq_true, if_false] at h
      by_cases hm : digitsVal ds ≤ max
      · simp only [hm, if_true, Option.some.injEq] at h
        simp only [Bool.or_eq_false_iff, Bool.not_eq_false'] at hc
        refine ⟨h ▸ hm, ?_, hc.2, h⟩
        intro e; rw [e] at hc; simp at hc
      · simp [hm] at h
  unfold parseUnsigned at h
  simp only [] at h
  split at h
  · rename_i t
    obtain ⟨h1, h2, h3, h4⟩ := core t h
    exact ⟨h1, t, .inr rfl, h2, h3, h4⟩
  · obtain ⟨h1, h2, h3, h4⟩ := core v h
    exact ⟨h1, v, .inl rfl, h2, h3, h4⟩



/-! ## grouped count: by induction on the groups -/

theorem gcGo_group (tag : Bytes) (g : CountGroup) (hd : g.inDomain = true) (rest : Fields)
    (out : List (Bytes × Count)) :
    gcGo tag .idle (encCountGroup tag g ++ rest) out =
      gcGo tag .idle rest (out ++ [(g.value, { songs := g.songs, playtime := secDur g.playtime })]) := by
  simp only [CountGroup.inDomain, Bool.and_eq_true, decide_eq_true_eq] at hd
  have hs := parseU64_decimal g.songs hd.1
  have hp := parseDuration_decimal g.playtime hd.2
  have hne : ¬ str "playtime" = str "songs" := by decide
  unfold encCountGroup
  cases g.playtimeFirst with
  | false => simp [gcGo, gcAfter, K.songs, K.playtime, hs, hp, hne]
  | true => simp [gcGo, gcAfter, K.songs, K.playtime, hs, hp, hne]

theorem gcGo_groups (tag : Bytes) (gs : List CountGroup) (hd : ∀ g ∈ gs, g.inDomain = true) (rest : Fields)
    (out : List (Bytes × Count)) :
    gcGo tag .idle (encCountGrouped tag gs ++ rest) out = gcGo tag .idle rest (out ++ viewCountGroups gs) := by
  induction gs generalizing out with
  | nil => simp [encCountGrouped, viewCountGroups]
  | cons g gs ih =>
    have h1 := hd g (List.mem_cons_self ..)
    have h2 : ∀ g' ∈ gs, g'.inDomain = true := fun g' hg => hd g' (List.mem_cons_of_mem _ hg)
    simp only [encCountGrouped, List.flatMap_cons, List.append_assoc] at ih ⊢
    rw [gcGo_group tag g h1, ih h2]
    simp [viewCountGroups]

/-- **grouped count**: the decoded groups are exactly the server's groups, in order — whatever the
group values are (repeated, empty, equal to `songs`…), with the two counters in either order
inside each group -/
theorem C16_countGrouped_decodes (t : Tag) (gs : List CountGroup) (hd : ∀ g ∈ gs, g.inDomain = true)
    (bin : Option Bytes) :
    decCountGrouped t ⟨encCountGrouped t.name gs, bin⟩ = .ok (viewCountGroups gs) := by
  unfold decCountGrouped
  have := gcGo_groups t.name gs hd [] []
  simpa [gcGo] using this

/-- a trailing group that lacks a counter, a line that is not the grouping tag where a group must
start, or a counter given twice is an error — never a mis-paired value -/
theorem C16_countGrouped_malformed (t : Tag) (gs : List CountGroup) (hd : ∀ g ∈ gs, g.inDomain = true)
    (k v x y : Bytes) (bin : Option Bytes) :
    decCountGrouped t ⟨encCountGrouped t.name gs ++ [(t.name, v)], bin⟩ = .terr ∧
    decCountGrouped t ⟨encCountGrouped t.name gs ++ [(t.name, v), (K.songs, x)], bin⟩ = .terr ∧
    decCountGrouped t ⟨encCountGrouped t.name gs ++ [(t.name, v), (K.playtime, x)], bin⟩ = .terr ∧
    decCountGrouped t ⟨encCountGrouped t.name gs ++ [(t.name, v), (K.songs, x), (K.songs, y)], bin⟩ = .terr ∧
    (k ≠ t.name → decCountGrouped t ⟨encCountGrouped t.name gs ++ [(k, v)], bin⟩ = .terr) := by
  unfold decCountGrouped
  simp only [gcGo_groups t.name gs hd]
  have hne : ¬ str "playtime" = str "songs" := by decide
  refine ⟨by simp [gcGo], ?_, ?_, ?_, ?_⟩
  · simp only [gcGo, K.songs, if_true, ne_eq, not_true_eq_false, if_false]
    cases parseU64 x <;> simp [gcAfter, gcGo]
  · simp only [gcGo, K.songs, K.playtime, hne, if_true, ne_eq, not_true_eq_false, if_false]
    cases parseDuration x <;> simp [gcAfter, gcGo]
  · simp only [gcGo, K.songs, if_true, ne_eq, not_true_eq_false, if_false]
    cases parseU64 x <;> simp [gcAfter, gcGo, K.songs]
  · intro hk; simp [gcGo, hk]



/-! ## list -/

/-- a tag the API can produce (a named variant or a result of `Tag::try_from`): its protocol
name parses back to itself (C20_roundtrip_producible) -/
def Producible (t : Tag) : Prop := Tag.tryFrom t.name = .ok t

theorem producible_named (v : TagV) : Producible (.named v) := Mpd.C20.C20_roundtrip_named v
theorem producible_of_tryFrom (raw : Bytes) (t : Tag) (h : Tag.tryFrom raw = .ok t) : Producible t :=
  Mpd.C20.C20_roundtrip_producible raw t h

/-- lines whose keys are the names of producible tags are turned back into those tags -/
theorem listFields_names (l : List (Tag × Bytes)) (h : ∀ p ∈ l, Producible p.1) :
    listFields (l.map fun p => (p.1.name, p.2)) = .ok l := by
  induction l with
  | nil => rfl
  | cons p ps ih =>
    have hp : Tag.tryFrom p.1.name = .ok p.1 := h p (List.mem_cons_self ..)
    have := ih (fun q hq => h q (List.mem_cons_of_mem _ hq))
    simp only [List.map_cons, listFields, hp, this]

theorem groupedGo_plain (t : Tag) (vs : List Bytes) :
    groupedGo t [] (vs.map fun v => (t, v)) [] = vs.map (fun v => (v, [])) := by
  induction vs with
  | nil => rfl
  | cons v vs ih => simp [groupedGo, Tag.eq, ih]

/-- **plain list**: the values in order -/
theorem C16_list_decodes (t : Tag) (ht : Producible t) (vs : List Bytes) (bin : Option Bytes) :
    ∃ r, decList t [] ⟨encList t.name vs, bin⟩ = .ok r ∧ r.values = vs ∧
      r.groupedValues = vs.map (fun v => (v, [])) := by
  have hl : encList t.name vs = (vs.map fun v => (t, v)).map fun p => (p.1.name, p.2) := by
    simp [encList, List.map_map, Function.comp_def]
  have hf := listFields_names (vs.map fun v => (t, v)) (by
    intro p hp; simp only [List.mem_map] at hp; obtain ⟨v, _, rfl⟩ := hp; exact ht)
  refine ⟨{ primary := t, groupings := [], fields := vs.map fun v => (t, v) }, ?_, ?_, ?_⟩
  · unfold decList; simp only [hl, hf]
  · simp [ListResp.values, List.map_map, Function.comp_def]
  · simp only [ListResp.groupedValues, List.length_nil, List.replicate]
    exact groupedGo_plain t vs

/-! ### grouped list -/

/-- the lines of one row, with tags instead of their names -/
def rowLinesT (t : Tag) (gs : List Tag) (r : ListRow) : List (Tag × Bytes) :=
  r.emit.filterMap (fun i => match gs[i]?, r.groups[i]? with
    | some g, some v => some (g, v)
    | _, _ => none) ++ [(t, r.value)]

theorem encListRow_eq (t : Tag) (gs : List Tag) (r : ListRow) :
    encListRow t.name (gs.map Tag.name) r = (rowLinesT t gs r).map fun p => (p.1.name, p.2) := by
  unfold encListRow rowLinesT
  simp only [List.map_append, List.map_cons, List.map_nil]
  congr 1
  rw [List.map_filterMap]
  congr 1
  funext i
  rw [List.getElem?_map]
  cases gs[i]? <;> cases r.groups[i]? <;> rfl

theorem tagPosition_getElem (gs : List Tag) (hd : (gs.map Tag.name).Nodup) (i : Nat) (g : Tag)
    (hi : gs[i]? = some g) : tagPosition g gs = some i := by
  induction gs generalizing i with
  | nil => simp at hi
  | cons a as ih =>
    simp only [List.map_cons, List.nodup_cons] at hd
    cases i with
    | zero =>
      simp only [List.getElem?_cons_zero, Option.some.injEq] at hi
      subst hi
      simp [tagPosition, Tag.eq]
    | succ i =>
      simp only [List.getElem?_cons_succ] at hi
      have hmem : g ∈ as := List.mem_of_getElem? hi
      have hne : a.eq g = false := by
        simp only [Tag.eq, beq_eq_false_iff_ne, ne_eq]
        intro e
        exact hd.1 (e ▸ List.mem_map_of_mem (f := Tag.name) hmem)
      simp [tagPosition, hne, ih hd.2 i hi]

theorem getElem?_foldl_set (g : Nat → Bytes) (emit : List Nat) :
    ∀ (cur : List Bytes) (i : Nat),
      (emit.foldl (fun c j => c.set j (g j)) cur)[i]? =
        if i ∈ emit ∧ i < cur.length then some (g i) else cur[i]? := by
  induction emit with
  | nil => intro cur i; simp
  | cons j js ih =>
    intro cur i
    simp only [List.foldl_cons]
    rw [ih]
    simp only [List.length_set, List.mem_cons]
    by_cases h1 : i ∈ js ∧ i < cur.length
    · simp [h1]
    · simp only [h1, if_false]
      rw [List.getElem?_set]
      by_cases h2 : j = i
      · subst h2
        by_cases h3 : j < cur.length
        · simp [h3]
        · have : ¬ (j ∈ js ∧ j < cur.length) := h1
          simp [h3]
      · have : ¬ ((i = j ∨ i ∈ js) ∧ i < cur.length) := by
          rintro ⟨h | h, hl⟩
          · exact h2 h.symm
          · exact h1 ⟨h, hl⟩
        simp [h2, this]

theorem length_foldl_set (g : Nat → Bytes) (emit : List Nat) (cur : List Bytes) :
    (emit.foldl (fun c j => c.set j (g j)) cur).length = cur.length := by
  induction emit generalizing cur with
  | nil => rfl
  | cons j js ih => simp [ih]

/-- processing the grouping lines printed before a row updates exactly the printed positions -/
theorem groupedGo_emits (t : Tag) (gs : List Tag) (hd : ((t :: gs).map Tag.name).Nodup)
    (groups : List Bytes) (hg : groups.length = gs.length) (emit : List Nat) (he : ∀ i ∈ emit, i < gs.length)
    (rest : List (Tag × Bytes)) (cur : List Bytes) :
    groupedGo t gs (emit.filterMap (fun i => match gs[i]?, groups[i]? with
        | some g, some v => some (g, v)
        | _, _ => none) ++ rest) cur =
      groupedGo t gs rest (emit.foldl (fun c j => c.set j (groups[j]?.getD [])) cur) := by
  simp only [List.map_cons, List.nodup_cons] at hd
  induction emit generalizing cur with
  | nil => rfl
  | cons i is ih =>
    have hi : i < gs.length := he i (List.mem_cons_self ..)
    have hi' : i < groups.length := by omega
    have h1 : gs[i]? = some gs[i] := List.getElem?_eq_getElem hi
    have h2 : groups[i]? = some groups[i] := List.getElem?_eq_getElem hi'
    have hne : (gs[i]).eq t = false := by
      simp only [Tag.eq, beq_eq_false_iff_ne, ne_eq]
      intro e
      exact hd.1 (e ▸ List.mem_map_of_mem (f := Tag.name) (List.getElem_mem hi))
    have hpos := tagPosition_getElem gs hd.2 i gs[i] h1
    simp only [List.filterMap_cons, h1, h2, List.cons_append, groupedGo, hne, hpos, List.foldl_cons,
      Bool.false_eq_true, if_false, Option.getD_some]
    exact ih (fun j hj => he j (List.mem_cons_of_mem _ hj)) _

theorem groupedGo_row (t : Tag) (gs : List Tag) (hd : ((t :: gs).map Tag.name).Nodup) (r : ListRow)
    (cur : List Bytes) (hcur : cur.length = gs.length) (hrow : rowOk gs.length cur r = true)
    (rest : List (Tag × Bytes)) :
    groupedGo t gs (rowLinesT t gs r ++ rest) cur = (r.value, r.groups) :: groupedGo t gs rest r.groups := by
  simp only [rowOk, Bool.and_eq_true, beq_iff_eq, List.all_eq_true, decide_eq_true_eq, List.mem_range,
    Bool.or_eq_true, List.contains_iff_mem] at hrow
  obtain ⟨⟨hlen, hemit⟩, hcov⟩ := hrow
  unfold rowLinesT
  rw [List.append_assoc, groupedGo_emits t gs hd r.groups hlen r.emit hemit]
  have hfinal : r.emit.foldl (fun c j => c.set j (r.groups[j]?.getD [])) cur = r.groups := by
    apply List.ext_getElem?
    intro i
    rw [getElem?_foldl_set (fun j => r.groups[j]?.getD [])]
    by_cases hi : i < gs.length
    · have hi' : i < r.groups.length := by omega
      rcases hcov i hi with h | h
      · simp [h, hcur, hi, List.getElem?_eq_getElem hi']
      · by_cases hm : i ∈ r.emit
        · simp [hm, hcur, hi, List.getElem?_eq_getElem hi']
        · simp only [hm, false_and, if_false]; exact h
    · have h1 : ¬ (i ∈ r.emit ∧ i < cur.length) := by rintro ⟨_, h⟩; omega
      simp only [h1, if_false]
      rw [List.getElem?_eq_none (by omega), List.getElem?_eq_none (by omega)]
  rw [hfinal]
  simp [groupedGo, Tag.eq]

theorem groupedGo_rows (t : Tag) (gs : List Tag) (hd : ((t :: gs).map Tag.name).Nodup) (rows : List ListRow)
    (cur : List Bytes) (hcur : cur.length = gs.length) (hok : rowsOk gs.length cur rows = true) :
    groupedGo t gs (rows.flatMap (rowLinesT t gs)) cur = viewListRows rows := by
  induction rows generalizing cur with
  | nil => rfl
  | cons r rs ih =>
    simp only [rowsOk, Bool.and_eq_true] at hok
    have hlen : r.groups.length = gs.length := by
      have := hok.1
      simp only [rowOk, Bool.and_eq_true, beq_iff_eq] at this
      exact this.1.1
    simp only [List.flatMap_cons]
    rw [groupedGo_row t gs hd r cur hcur hok.1, ih r.groups hlen hok.2]
    simp [viewListRows]

/-- **grouped list**: for pairwise distinct producible tags, the rows yielded by
`grouped_values()` are exactly the server's rows (value of the listed tag together with the value
of every grouping tag, in `group_by` order), whichever subset of the grouping lines the server
re-prints before a row — as long as every position whose value changed is printed
(`Spec.rowsOk`) — and in whatever order it prints them -/
theorem C16_listGrouped_decodes (t : Tag) (gs : List Tag) (hprod : ∀ x ∈ t :: gs, Producible x)
    (hd : ((t :: gs).map Tag.name).Nodup) (rows : List ListRow)
    (hok : rowsOk gs.length (List.replicate gs.length []) rows = true) (bin : Option Bytes) :
    ∃ r, decList t gs ⟨encListGrouped t.name (gs.map Tag.name) rows, bin⟩ = .ok r ∧
      r.groupedValues = viewListRows rows ∧ r.groupings = gs := by
  have hl : encListGrouped t.name (gs.map Tag.name) rows =
      (rows.flatMap (rowLinesT t gs)).map fun p => (p.1.name, p.2) := by
    unfold encListGrouped
    simp only [List.map_flatMap]
    congr 1
    funext r
    exact encListRow_eq t gs r
  have hmem : ∀ p ∈ rows.flatMap (rowLinesT t gs), Producible p.1 := by
    intro p hp
    simp only [List.mem_flatMap, rowLinesT, List.mem_append, List.mem_filterMap, List.mem_cons,
      List.not_mem_nil, or_false] at hp
    obtain ⟨r, _, h | h⟩ := hp
    · obtain ⟨i, _, hi⟩ := h
      cases hg : gs[i]? with
      | none => simp [hg] at hi
      | some g =>
        cases hv : r.groups[i]? with
        | none => simp [hg, hv] at hi
        | some v =>
          simp only [hg, hv, Option.some.injEq] at hi
          subst hi
          exact hprod g (List.mem_cons_of_mem _ (List.mem_of_getElem? hg))
    · subst h; exact hprod t (List.mem_cons_self ..)
  have hf := listFields_names _ hmem
  refine ⟨{ primary := t, groupings := gs, fields := rows.flatMap (rowLinesT t gs) }, ?_, ?_, rfl⟩
  · unfold decList; simp only [hl, hf]
  · simp only [ListResp.groupedValues]
    exact groupedGo_rows t gs hd rows _ (by simp) hok



/-! ## listplaylists -/

theorem playlistsGo_rows (rows : List (Bytes × Bytes)) (rest : Fields) (out : List Playlist) :
    playlistsGo none (encPlaylists rows ++ rest) out = playlistsGo none rest (out ++ viewPlaylists rows) := by
  induction rows generalizing out with
  | nil => simp [encPlaylists, viewPlaylists]
  | cons r rs ih =>
    simp only [encPlaylists, List.flatMap_cons, List.append_assoc] at ih ⊢
    simp only [List.cons_append, List.nil_append, playlistsGo, if_true]
    rw [ih]
    simp [viewPlaylists]

/-- **listplaylists**: name / `Last-Modified` pairs in order (timestamps as the raw text) -/
theorem C16_playlists_decodes (rows : List (Bytes × Bytes)) (bin : Option Bytes) :
    decPlaylists ⟨encPlaylists rows, bin⟩ = .ok (viewPlaylists rows) := by
  unfold decPlaylists
  have := playlistsGo_rows rows [] []
  simpa [playlistsGo] using this

/-- a `playlist` line where `Last-Modified` is due, or any other key, is an error -/
theorem C16_playlists_malformed (rows : List (Bytes × Bytes)) (k n v : Bytes) (rest : Fields) (bin : Option Bytes) :
    (k ≠ str "Last-Modified" → decPlaylists ⟨encPlaylists rows ++ (str "playlist", n) :: (k, v) :: rest, bin⟩ = .terr) ∧
    (k ≠ str "playlist" → decPlaylists ⟨encPlaylists rows ++ (k, v) :: rest, bin⟩ = .terr) := by
  unfold decPlaylists
  simp only [playlistsGo_rows]
  constructor
  · intro hk; simp [playlistsGo, hk]
  · intro hk; simp [playlistsGo, hk]

/-! ## stickers -/

/-- the split is at the FIRST occurrence -/
theorem splitOnce_first (c : UInt8) (a b : Bytes) (h : c ∉ a) : splitOnce c (a ++ c :: b) = some (a, b) := by
  induction a with
  | nil => simp [splitOnce]
  | cons x xs ih =>
    simp only [List.mem_cons, not_or] at h
    have hx : ¬ x = c := fun e => h.1 e.symm
    simp [splitOnce, hx, ih h.2]

theorem splitOnce_none (c : UInt8) (s : Bytes) (h : c ∉ s) : splitOnce c s = none := by
  induction s with
  | nil => rfl
  | cons x xs ih =>
    simp only [List.mem_cons, not_or] at h
    have hx : ¬ x = c := fun e => h.1 e.symm
    simp [splitOnce, hx, ih h.2]

theorem splitOnce_some (c : UInt8) (s a b : Bytes) (h : splitOnce c s = some (a, b)) :
    s = a ++ c :: b ∧ c ∉ a := by
  induction s generalizing a with
  | nil => simp [splitOnce] at h
  | cons x xs ih =>
    unfold splitOnce at h
    by_cases hx : x = c
    · simp only [hx, if_true, Option.some.injEq, Prod.mk.injEq] at h
      obtain ⟨rfl, rfl⟩ := h
      simp [hx]
    · simp only [hx, if_false] at h
      cases hs : splitOnce c xs with
      | none => simp [hs] at h
      | some p =>
        simp only [hs, Option.some.injEq, Prod.mk.injEq] at h
        obtain ⟨rfl, rfl⟩ := h
        obtain ⟨h1, h2⟩ := ih p.1 hs
        refine ⟨by rw [h1]; simp, ?_⟩
        simp only [List.mem_cons, not_or]
        exact ⟨fun e => hx e.symm, h2⟩

theorem stickerName_iff (n : Bytes) : stickerName n = true ↔ (61 : UInt8) ∉ n := by
  simp [stickerName]

/-- **sticker get**: the value is everything after the first `=`, even if it contains `=` -/
theorem C16_stickerGet_decodes (name value : Bytes) (hn : stickerName name = true) (rest : Fields) (bin : Option Bytes) :
    decStickerGet ⟨encStickerGet name value ++ rest, bin⟩ = .ok value := by
  have := splitOnce_first 61 name value ((stickerName_iff name).mp hn)
  simp [decStickerGet, encStickerGet, parseStickerValue, this]

/-- exact characterisation: a value is produced iff the first line is `sticker: X=V` -/
theorem C16_stickerGet_sound (f : AFrame) (value : Bytes) :
    decStickerGet f = .ok value ↔
      ∃ name rest, stickerName name = true ∧ f.fields = (str "sticker", name ++ 61 :: value) :: rest := by
  unfold decStickerGet
  constructor
  · intro h
    cases hf : f.fields with
    | nil => simp [hf] at h
    | cons p rest =>
      obtain ⟨k, v⟩ := p
      simp only [hf] at h
      by_cases hk : k = str "sticker"
      · simp only [hk, ne_eq, not_true_eq_false, if_false] at h
        cases hs : parseStickerValue v with
        | none => simp [hs] at h
        | some q =>
          obtain ⟨a, b⟩ := q
          simp only [hs, Outcome.ok.injEq] at h
          subst h
          obtain ⟨h1, h2⟩ := splitOnce_some 61 v a b hs
          exact ⟨a, rest, (stickerName_iff a).mpr h2, by rw [hk, h1]⟩
      · simp [hk] at h
  · rintro ⟨name, rest, hn, hf⟩
    have := splitOnce_first 61 name value ((stickerName_iff name).mp hn)
    simp [hf, parseStickerValue, this]

/-- a value without `=` is an error -/
theorem C16_sticker_missing_eq (v : Bytes) (h : (61 : UInt8) ∉ v) (rest : Fields) (bin : Option Bytes) :
    decStickerGet ⟨(str "sticker", v) :: rest, bin⟩ = .terr ∧
    decStickerList ⟨(str "sticker", v) :: rest, bin⟩ = .terr ∧
    decStickerFind ⟨(str "sticker", v) :: rest, bin⟩ = .terr := by
  have := splitOnce_none 61 v h
  have hne : ¬ str "sticker" = str "file" := by decide
  simp [decStickerGet, decStickerList, decStickerFind, stickerListGo, stickerFindGo, parseStickerValue, this, hne]

theorem SMap.insert_new (k v : Bytes) (m : SMap) (h : k ∉ m.map (·.1)) : SMap.insert k v m = m ++ [(k, v)] := by
  induction m with
  | nil => rfl
  | cons p ps ih =>
    simp only [List.map_cons, List.mem_cons, not_or] at h
    have : ¬ p.1 = k := fun e => h.1 e.symm
    simp [SMap.insert, this, ih h.2]

theorem stickerListGo_rows (rows : List (Bytes × Bytes)) (hn : ∀ p ∈ rows, stickerName p.1 = true)
    (m : SMap) (hd : ((m ++ rows).map (·.1)).Nodup) :
    stickerListGo (encStickerList rows) m = .ok (m ++ rows) := by
  induction rows generalizing m with
  | nil => simp [encStickerList, stickerListGo]
  | cons r rs ih =>
    obtain ⟨name, value⟩ := r
    have h1 := splitOnce_first 61 name value ((stickerName_iff name).mp (hn (name, value) (List.mem_cons_self ..)))
    have hnew : name ∉ m.map (·.1) := by
      simp only [List.map_append, List.map_cons, List.nodup_append, List.nodup_cons] at hd
      intro hm
      exact hd.2.2 name hm name (List.mem_cons_self ..) rfl
    simp only [encStickerList, List.map_cons, stickerListGo, parseStickerValue, List.append_assoc, List.singleton_append, h1]
    rw [SMap.insert_new name value m hnew]
    have := ih (fun p hp => hn p (List.mem_cons_of_mem _ hp)) (m ++ [(name, value)]) (by simpa using hd)
    simpa [encStickerList] using this

/-- **sticker list**: name ↦ value for every sticker (names distinct, values may contain `=`) -/
theorem C16_stickerList_decodes (rows : List (Bytes × Bytes)) (hn : ∀ p ∈ rows, stickerName p.1 = true)
    (hd : (rows.map (·.1)).Nodup) (bin : Option Bytes) :
    decStickerList ⟨encStickerList rows, bin⟩ = .ok rows := by
  unfold decStickerList
  simpa using stickerListGo_rows rows hn [] (by simpa using hd)

theorem stickerFindGo_rows (name : Bytes) (hn : stickerName name = true) (rows : List (Bytes × Bytes))
    (file : Bytes) (m : SMap) (hd : ((m ++ rows).map (·.1)).Nodup) :
    stickerFindGo file (encStickerFind name rows) m = .ok (m ++ rows) := by
  induction rows generalizing m file with
  | nil => simp [encStickerFind, stickerFindGo]
  | cons r rs ih =>
    obtain ⟨f, value⟩ := r
    have h1 := splitOnce_first 61 name value ((stickerName_iff name).mp hn)
    have hne : ¬ str "sticker" = str "file" := by decide
    have hnew : f ∉ m.map (·.1) := by
      simp only [List.map_append, List.map_cons, List.nodup_append, List.nodup_cons] at hd
      intro hm
      exact hd.2.2 f hm f (List.mem_cons_self ..) rfl
    simp only [encStickerFind, List.flatMap_cons, List.cons_append, List.nil_append, stickerFindGo, if_true, hne,
      if_false, parseStickerValue, List.append_assoc, h1]
    rw [SMap.insert_new f value m hnew]
    have := ih f (m ++ [(f, value)]) (by simpa using hd)
    simpa [encStickerFind] using this

/-- **sticker find**: every `file` is paired with the value of the `sticker` line that follows it -/
theorem C16_stickerFind_decodes (name : Bytes) (hn : stickerName name = true) (rows : List (Bytes × Bytes))
    (hd : (rows.map (·.1)).Nodup) (bin : Option Bytes) :
    decStickerFind ⟨encStickerFind name rows, bin⟩ = .ok rows := by
  unfold decStickerFind
  simpa using stickerFindGo_rows name hn rows [] [] (by simpa using hd)

/-! ## channels, tag types -/

theorem channelMessagesGo_rows (rows : List (Bytes × Bytes)) (rest : Fields) (out : List (Bytes × Bytes)) :
    channelMessagesGo (encMessages rows ++ rest) out = channelMessagesGo rest (out ++ rows) := by
  induction rows generalizing out with
  | nil => simp [encMessages]
  | cons r rs ih =>
    simp only [encMessages, List.flatMap_cons, List.append_assoc] at ih ⊢
    simp only [List.cons_append, List.nil_append, channelMessagesGo, ne_eq, not_true_eq_false, if_false]
    rw [ih]
    simp

/-- **readmessages**: channel / message pairs in order -/
theorem C16_messages_decodes (rows : List (Bytes × Bytes)) (bin : Option Bytes) :
    decChannelMessages ⟨encMessages rows, bin⟩ = .ok rows := by
  unfold decChannelMessages
  have := channelMessagesGo_rows rows [] []
  simpa [channelMessagesGo] using this

/-- an odd number of lines is an error, whatever the lines are -/
theorem C16_messages_odd (f : AFrame) (h : f.fields.length % 2 = 1) : decChannelMessages f = .terr := by
  unfold decChannelMessages
  generalize ([] : List (Bytes × Bytes)) = out
  generalize f.fields = l at h
  induction l, out using channelMessagesGo.induct with
  | case1 out => simp at h
  | case2 _ _ => rfl
  | case3 k c k' m rest out hk => simp [channelMessagesGo, hk]
  | case4 k c k' m rest out hk hk' => simp [channelMessagesGo, hk']
  | case5 k c k' m rest out hk hk' ih =>
    simp only [ne_eq, Decidable.not_not] at hk hk'
    simp only [channelMessagesGo, hk, hk', ne_eq, not_true_eq_false, if_false]
    apply ih
    simp only [List.length_cons] at h
    omega

/-- **channels** -/
theorem C16_channels_decodes (names : List Bytes) (bin : Option Bytes) :
    decListChannels ⟨encChannels names, bin⟩ = .ok names := by
  unfold decListChannels
  induction names with
  | nil => rfl
  | cons c cs ih => simp only [encChannels, List.map_cons] at ih ⊢; simp [listChannelsGo, ih]

/-- **tagtypes**: every printed tag name is turned into the tag with that name -/
theorem C16_tagTypes_decodes (ts : List Tag) (hp : ∀ t ∈ ts, Tag.tryFrom t.name = .ok t) (bin : Option Bytes) :
    decTagTypes ⟨encTagTypes (ts.map Tag.name), bin⟩ = .ok ts := by
  unfold decTagTypes
  induction ts with
  | nil => rfl
  | cons t ts ih =>
    have h1 := hp t (List.mem_cons_self ..)
    have h2 := ih (fun x hx => hp x (List.mem_cons_of_mem _ hx))
    simp only [encTagTypes, List.map_cons, List.map_map] at h2 ⊢
    simp [tagTypesGo, h1, h2]


/-! ## soundness of the decoders that walk the frame: an `ok` result determines the frame's shape -/

/-- the lines of a grouped count reply, as the decoder must have seen them -/
inductive GroupsOf (tag : Bytes) : Fields → List (Bytes × Count) → Prop where
  | nil : GroupsOf tag [] []
  | songsFirst (v x y : Bytes) (n : Nat) (d : Dur) (rest l) :
      parseU64 x = some n → parseDuration y = some d → GroupsOf tag rest l →
      GroupsOf tag ((tag, v) :: (K.songs, x) :: (K.playtime, y) :: rest) ((v, { songs := n, playtime := d }) :: l)
  | playtimeFirst (v x y : Bytes) (n : Nat) (d : Dur) (rest l) :
      parseU64 x = some n → parseDuration y = some d → GroupsOf tag rest l →
      GroupsOf tag ((tag, v) :: (K.playtime, y) :: (K.songs, x) :: rest) ((v, { songs := n, playtime := d }) :: l)

theorem gcGo_ok (tag : Bytes) : ∀ (n : Nat) (l : Fields), l.length ≤ n → ∀ out r,
    gcGo tag .idle l out = .ok r → ∃ l', r = out ++ l' ∧ GroupsOf tag l l' := by
  have hps : ¬ K.playtime = K.songs := by decide
  intro n
  induction n with
  | zero =>
    intro l hl out r h
    have : l = [] := List.eq_nil_of_length_eq_zero (by omega)
    subst this
    simp only [gcGo, Outcome.ok.injEq] at h
    exact ⟨[], by simp [h], .nil⟩
  | succ n ih =>
    intro l hl out r h
    match l, hl, h with
    | [], _, h =>
      simp only [gcGo, Outcome.ok.injEq] at h
      exact ⟨[], by simp [h], .nil⟩
    | [(k, v)], _, h =>
      by_cases hk : k = tag <;> simp [gcGo, hk] at h
    | [(k, v), (a, x)], _, h =>
      by_cases hk : k = tag
      · simp only [gcGo, hk, ne_eq, not_true_eq_false, if_false] at h
        by_cases ha : a = K.songs
        · cases hp : parseU64 x <;> simp [ha, hp, gcAfter, gcGo] at h
        · by_cases hb : a = K.playtime
          · subst hb; cases hp : parseDuration x <;> simp [hps, hp, gcAfter, gcGo] at h
          · simp [ha, hb] at h
      · simp [gcGo, hk] at h
    | (k, v) :: (a, x) :: (b, y) :: rest, hl, h =>
      have hrest : rest.length ≤ n := by simp only [List.length_cons] at hl; omega
      by_cases hk : k = tag
      · subst hk
        simp only [gcGo, ne_eq, not_true_eq_false, if_false] at h
        by_cases ha : a = K.songs
        · subst ha
          cases hp : parseU64 x with
          | none => simp [hp] at h
          | some nn =>
            simp only [hp, gcAfter, Bool.or_true, if_true, Option.isNone] at h
            by_cases hb : b = K.songs
            · simp [gcGo, hb] at h
            · by_cases hb2 : b = K.playtime
              · subst hb2
                cases hq : parseDuration y with
                | none => simp [gcGo, hb, hq] at h
                | some d =>
                  simp only [gcGo, hb, if_false, hq, gcAfter, Option.isNone_some, Bool.or_self,
                    Bool.false_eq_true, if_true] at h
                  obtain ⟨l', rfl, hg⟩ := ih rest hrest _ r h
                  exact ⟨_ :: l', by simp, .songsFirst v x y nn d rest l' hp hq hg⟩
              · simp [gcGo, hb, hb2] at h
        · by_cases ha2 : a = K.playtime
          · subst ha2
            cases hq : parseDuration x with
            | none => simp [hps, hq] at h
            | some d =>
              simp only [hps, if_false, if_true, hq, gcAfter, Bool.true_or, Option.isNone] at h
              by_cases hb : b = K.songs
              · subst hb
                cases hp : parseU64 y with
                | none => simp [gcGo, hp] at h
                | some nn =>
                  simp only [gcGo, if_true, hp, gcAfter, Option.isNone_some, Bool.or_self,
                    Bool.false_eq_true, if_false, Option.isNone_none] at h
                  obtain ⟨l', rfl, hg⟩ := ih rest hrest _ r h
                  exact ⟨_ :: l', by simp, .playtimeFirst v y x nn d rest l' hp hq hg⟩
              · by_cases hb2 : b = K.playtime
                · subst hb2; simp [gcGo, hps] at h
                · simp [gcGo, hb, hb2] at h
          · simp [ha, ha2] at h
      · simp [gcGo, hk] at h

theorem gcGo_of_groups (tag : Bytes) (l : Fields) (l' : List (Bytes × Count)) (h : GroupsOf tag l l') :
    ∀ out, gcGo tag .idle l out = .ok (out ++ l') := by
  have hps : ¬ K.playtime = K.songs := by decide
  induction h with
  | nil => intro out; simp [gcGo]
  | songsFirst v x y n d rest l hp hq _ ih =>
    intro out
    simp [gcGo, gcAfter, hp, hq, hps, ih]
  | playtimeFirst v x y n d rest l hp hq _ ih =>
    intro out
    simp [gcGo, gcAfter, hp, hq, hps, ih]

/-- **soundness of the grouped count**: a result is produced exactly when the frame is a sequence of
complete groups (grouping-tag line, then `songs` and `playtime` once each in either order, both
inside their domains), and then the result is those groups in order — group values are never
paired with the counters of a neighbouring group -/
theorem C16_countGrouped_sound (t : Tag) (f : AFrame) (l : List (Bytes × Count)) :
    decCountGrouped t f = .ok l ↔ GroupsOf t.name f.fields l := by
  unfold decCountGrouped
  constructor
  · intro h
    obtain ⟨l', rfl, hg⟩ := gcGo_ok t.name _ f.fields (Nat.le_refl _) [] l h
    simpa using hg
  · intro h
    simpa using gcGo_of_groups t.name f.fields l h []

/-- plain list: the values are the values of the frame's lines, in order -/
theorem C16_list_sound (t : Tag) (gs : List Tag) (f : AFrame) (r : ListResp) (h : decList t gs f = .ok r) :
    r.values = f.fields.map (·.2) ∧ r.primary = t ∧ r.groupings = gs := by
  unfold decList at h
  cases hl : listFields f.fields with
  | terr => simp [hl] at h
  | panic => simp [hl] at h
  | ok fields =>
    simp only [hl, Outcome.ok.injEq] at h
    subst h
    refine ⟨?_, rfl, rfl⟩
    simp only [ListResp.values]
    generalize f.fields = l at hl
    induction l generalizing fields with
    | nil => simp [listFields] at hl; subst hl; rfl
    | cons p ps ih =>
      unfold listFields at hl
      cases ht : Tag.tryFrom p.1 with
      | error e => simp [ht] at hl
      | ok tg =>
        simp only [ht] at hl
        cases hr : listFields ps with
        | terr => simp [hr] at hl
        | panic => simp [hr] at hl
        | ok rest =>
          simp only [hr, Outcome.ok.injEq] at hl
          subst hl
          simp [ih rest hr]

theorem channelMessagesGo_ok (l : Fields) (out r : List (Bytes × Bytes)) (h : channelMessagesGo l out = .ok r) :
    ∃ rows, l = encMessages rows ∧ r = out ++ rows := by
  induction l, out using channelMessagesGo.induct with
  | case1 out => simp only [channelMessagesGo, Outcome.ok.injEq] at h; exact ⟨[], rfl, by simp [h]⟩
  | case2 _ _ => simp [channelMessagesGo] at h
  | case3 k c k' m rest out hk => simp [channelMessagesGo, hk] at h
  | case4 k c k' m rest out hk hk' => simp [channelMessagesGo, hk'] at h
  | case5 k c k' m rest out hk hk' ih =>
    simp only [ne_eq, Decidable.not_not] at hk hk'
    simp only [channelMessagesGo, hk, hk', ne_eq, not_true_eq_false, if_false] at h
    obtain ⟨rows, h1, h2⟩ := ih h
    exact ⟨(c, m) :: rows, by simp [encMessages, hk, hk', h1], by simp [h2]⟩

/-- **soundness of readmessages**: exactly the alternating channel/message frames decode, to
exactly their pairs -/
theorem C16_messages_sound (f : AFrame) (rows : List (Bytes × Bytes)) :
    decChannelMessages f = .ok rows ↔ f.fields = encMessages rows := by
  constructor
  · intro h
    obtain ⟨rows', h1, h2⟩ := channelMessagesGo_ok f.fields [] rows h
    simp only [List.nil_append] at h2
    rw [h2, h1]
  · intro h
    have := C16_messages_decodes rows f.binary
    rw [← h] at this
    exact this

theorem C16_channels_sound (f : AFrame) (names : List Bytes) :
    decListChannels f = .ok names ↔ f.fields = encChannels names := by
  constructor
  · intro h
    unfold decListChannels at h
    generalize f.fields = l at h
    induction l generalizing names with
    | nil => simp [listChannelsGo] at h; subst h; rfl
    | cons p ps ih =>
      unfold listChannelsGo at h
      by_cases hk : p.1 = str "channel"
      · simp only [hk, ne_eq, not_true_eq_false, if_false] at h
        cases hr : listChannelsGo ps with
        | terr => simp [hr] at h
        | panic => simp [hr] at h
        | ok rest =>
          simp only [hr, Outcome.ok.injEq] at h
          subst h
          simp only [encChannels, List.map_cons, List.cons.injEq]
          exact ⟨by rw [← hk], ih rest hr⟩
      · simp [hk] at h
  · intro h
    have := C16_channels_decodes names f.binary
    rw [← h] at this
    exact this

theorem playlistsGo_ok : ∀ (n : Nat) (l : Fields), l.length ≤ n → ∀ (out r : List Playlist),
    playlistsGo none l out = .ok r →
    ∃ rows, (l = encPlaylists rows ∨ ∃ nm, l = encPlaylists rows ++ [(str "playlist", nm)]) ∧
      r = out ++ viewPlaylists rows := by
  intro n
  induction n with
  | zero =>
    intro l hl out r h
    have : l = [] := List.eq_nil_of_length_eq_zero (by omega)
    subst this
    simp only [playlistsGo, Outcome.ok.injEq] at h
    exact ⟨[], .inl rfl, by simp [h, viewPlaylists]⟩
  | succ n ih =>
    intro l hl out r h
    match l, hl, h with
    | [], _, h =>
      simp only [playlistsGo, Outcome.ok.injEq] at h
      exact ⟨[], .inl rfl, by simp [h, viewPlaylists]⟩
    | [(k, v)], _, h =>
      by_cases hk : k = str "playlist"
      · subst hk
        simp only [playlistsGo, if_true, Outcome.ok.injEq] at h
        exact ⟨[], .inr ⟨v, rfl⟩, by simp [h, viewPlaylists]⟩
      · simp [playlistsGo, hk] at h
    | (k, v) :: (k', m) :: rest, hl, h =>
      have hrest : rest.length ≤ n := by simp only [List.length_cons] at hl; omega
      by_cases hk : k = str "playlist"
      · subst hk
        by_cases hk' : k' = str "Last-Modified"
        · subst hk'
          simp only [playlistsGo, if_true] at h
          obtain ⟨rows, hshape, hr⟩ := ih rest hrest _ r h
          refine ⟨(v, m) :: rows, ?_, by simp [hr, viewPlaylists]⟩
          rcases hshape with h1 | ⟨nm, h1⟩
          · exact .inl (by simp [encPlaylists, h1])
          · exact .inr ⟨nm, by simp [encPlaylists, h1]⟩
        · simp [playlistsGo, hk'] at h
      · simp [playlistsGo, hk] at h

/-- **soundness of listplaylists**: a result is produced exactly for `playlist`/`Last-Modified`
pairs — optionally followed by ONE trailing `playlist` line, which is dropped (MPD always sends the
pair; stated here so that the asymmetry is visible: the same omission in the middle is an error,
`C16_playlists_malformed`) — and the result is those pairs in order -/
theorem C16_playlists_sound (f : AFrame) (r : List Playlist) (h : decPlaylists f = .ok r) :
    ∃ rows, (f.fields = encPlaylists rows ∨ ∃ nm, f.fields = encPlaylists rows ++ [(str "playlist", nm)]) ∧
      r = viewPlaylists rows := by
  obtain ⟨rows, h1, h2⟩ := playlistsGo_ok _ f.fields (Nat.le_refl _) [] r h
  exact ⟨rows, h1, by simpa using h2⟩

/-- tag types: an `ok` result means every line is `tagtype: NAME` with NAME a tag, in order -/
theorem C16_tagTypes_sound (f : AFrame) (ts : List Tag) (h : decTagTypes f = .ok ts) :
    f.fields.map (·.1) = ts.map (fun _ => str "tagtype") ∧
    (f.fields.map (fun p => Tag.tryFrom p.2)) = ts.map Except.ok := by
  unfold decTagTypes at h
  generalize f.fields = l at h
  induction l generalizing ts with
  | nil => simp [tagTypesGo] at h; subst h; simp
  | cons p ps ih =>
    unfold tagTypesGo at h
    by_cases hk : p.1 = str "tagtype"
    · simp only [hk, ne_eq, not_true_eq_false, if_false] at h
      cases ht : Tag.tryFrom p.2 with
      | error e => simp [ht] at h
      | ok t =>
        simp only [ht] at h
        cases hr : tagTypesGo ps with
        | terr => simp [hr] at h
        | panic => simp [hr] at h
        | ok rest =>
          simp only [hr, Outcome.ok.injEq] at h
          subst h
          obtain ⟨h1, h2⟩ := ih rest hr
          simp [hk, ht, h1, h2]
    · simp [hk] at h

/-- sticker list: an `ok` result means every value has the shape `NAME=VALUE` (split at the first
`=`), and the map is those pairs inserted in order (a later duplicate name replaces the earlier) -/
theorem C16_stickerList_sound (f : AFrame) (m : SMap) (h : decStickerList f = .ok m) :
    ∃ rows : List (Bytes × Bytes), f.fields.map (·.2) = rows.map (fun p => p.1 ++ 61 :: p.2) ∧
      (∀ p ∈ rows, stickerName p.1 = true) ∧ m = rows.foldl (fun acc p => SMap.insert p.1 p.2 acc) [] := by
  unfold decStickerList at h
  generalize f.fields = l at h
  generalize ([] : SMap) = acc at h ⊢
  induction l generalizing acc with
  | nil => simp only [stickerListGo, Outcome.ok.injEq] at h; exact ⟨[], rfl, by simp, by simp [h]⟩
  | cons p ps ih =>
    unfold stickerListGo at h
    cases hs : parseStickerValue p.2 with
    | none => simp [hs] at h
    | some q =>
      obtain ⟨a, b⟩ := q
      simp only [hs] at h
      obtain ⟨rows, h1, h2, h3⟩ := ih _ h
      obtain ⟨e1, e2⟩ := splitOnce_some 61 p.2 a b hs
      refine ⟨(a, b) :: rows, by simp [h1, e1], ?_, by simp [h3]⟩
      intro x hx
      simp only [List.mem_cons] at hx
      rcases hx with rfl | hx
      · exact (stickerName_iff _).mpr e2
      · exact h2 x hx

/-! ## non-vacuity: the hypotheses are satisfiable on non-trivial replies -/

def exStatus : StatusRec :=
  { volume := some 100, repeat_ := true, single := some Single.oneshot, state := State.play,
    playlist := some 4294967295, playlistlength := some 12, song := some (3, 17), nextsong := some (4, 18),
    elapsed := some 1500, duration := some 123456, bitrate := some 320, xfade := some 5,
    updatingDb := some 7, error := some (str "x: y"), time := some (str "1:123"),
    audio := some (str "44100:16:2") }

example : exStatus.inDomain = true := by decide
example : decStatus ⟨(encStatus exStatus).reverse, some [1, 2]⟩ = .ok (viewStatus exStatus) :=
  C16_status_decodes exStatus (by decide) _ (List.reverse_perm _) _
example : (viewStatus exStatus).updateJob = some 7 ∧ (viewStatus exStatus).elapsed = some (1, 500000000) ∧
    (viewStatus exStatus).single = .oneshot ∧ (viewStatus exStatus).nextSong = some (4, 18) := by decide
def exStats : StatsRec :=
  { uptime := 86400, playtime := 3, artists := 1, albums := 2, songs := 3, dbPlaytime := 25000000,
    dbUpdate := 1700000000 }
example : decStats ⟨(encStats exStats).reverse, none⟩ = .ok (viewStats exStats) :=
  C16_stats_decodes exStats (by decide) _ (List.reverse_perm _) _
example : decCountGrouped (.named .Album) ⟨encCountGrouped (Tag.named .Album).name
    [⟨str "A", 1, 60, false⟩, ⟨str "A", 2, 61, true⟩, ⟨[], 0, 0, false⟩], none⟩ =
    .ok [(str "A", ⟨1, (60, 0)⟩), (str "A", ⟨2, (61, 0)⟩), ([], ⟨0, (0, 0)⟩)] :=
  C16_countGrouped_decodes _ _ (by decide) _
/-- two grouping tags, the outer one printed only when it changes, an unchanged one repeated -/
def exRows : List ListRow :=
  [⟨str "T1", [str "Bar", str "Foo"], [1, 0]⟩, ⟨str "T2", [str "Bar", str "Foo"], []⟩,
   ⟨str "T3", [str "Quz", str "Foo"], [0]⟩, ⟨str "T4", [str "Qwert", str "Asdf"], [1, 0, 1]⟩]
example : rowsOk 2 (List.replicate 2 []) exRows = true := by decide
example : ∃ r, decList (.named .Title) [.named .Album, .named .AlbumArtist]
      ⟨encListGrouped (Tag.named .Title).name ([Tag.named .Album, .named .AlbumArtist].map Tag.name) exRows, none⟩ = .ok r ∧
      r.groupedValues = viewListRows exRows ∧ r.groupings = [.named .Album, .named .AlbumArtist] :=
  C16_listGrouped_decodes _ _ (by intro x hx; simp only [List.mem_cons, List.not_mem_nil, or_false] at hx
                                  rcases hx with rfl | rfl | rfl <;> exact producible_named _)
    (by decide) exRows (by decide) none
example : decStickerGet ⟨[(str "sticker", str "rating=a=b")], none⟩ = .ok (str "a=b") := by decide
example : decStickerGet ⟨[(str "sticker", str "rating")], none⟩ = .terr := by decide
example : decStickerFind ⟨encStickerFind (str "n") [(str "a.mp3", str "1"), (str "b.mp3", str "x=y")], none⟩ =
    .ok [(str "a.mp3", str "1"), (str "b.mp3", str "x=y")] :=
  C16_stickerFind_decodes _ (by decide) _ (by decide) _
example : decChannelMessages ⟨[(str "channel", str "c"), (str "message", str "m"), (str "channel", str "d")], none⟩ = .terr :=
  C16_messages_odd _ (by decide)
example : decPlaylists ⟨[(str "playlist", str "a"), (str "playlist", str "b")], none⟩ = .terr := by decide

end Mpd.C16
