import MpdProofs.Lemmas.Skeleton
import MpdProofs.Lemmas.LoopInv
import Mpd.Client
import MpdProofs.Lemmas.StreamRun
import MpdProofs.Lemmas.EndToEnd
/-!
# C01 — every request is answered with its own reply, in issue order

Three layers (see the header of `Lemmas/Skeleton.lean` for the closed system):

1. **message level, all schedules** (`C01_pairing`, `C01_fifo`, `C01_one_in_flight`): in the closed
   system client-skeleton ∥ wires ∥ MPD server, for EVERY interleaving of callers, client steps,
   server steps, notifications and timer expiry, the answer handed to a caller is the server's reply
   to that caller's own request (never an idle/noidle reply, never another caller's), requests are
   served in issue order, and at most one reply is ever in flight.
2. **byte-level task model, all steps** (`C01_accounting`): one step of the run-loop model never
   loses, duplicates or invents a request: (answered ++ in flight ++ queued) is preserved as a
   multiset — so a request is answered at most once and cancelling one caller (which only drops its
   receiver) cannot disturb another's reply.
   **byte-level task model, all runs** (`C01_replies_from_stream`): along every run after the
   greeting (any deliveries, any scheduler choices, requests arriving and futures being dropped at any
   time) up to the first broken poll, the replies handed to callers are, in order, responses of the
   delivered byte stream, each stream response is consumed exactly once and attributed to the
   request in flight, to the event stream (idle reply) or to the password verdict.
3. **caller side** (`C01_partial_list`): `raw_command_list` returns the server's error together
   with exactly the frames that preceded it.

PARTIAL: the remaining gap between the byte-level model (2) and the skeleton (1) — that the
server's i-th reply block answers the i-th request block written, i.e. the server side of the wire —
is validated per trace by the correspondence run (the oracle replays the implementation's writes through `Spec.Server`), not
proved; tokio's scheduler fairness and write back-pressure are outside the model.
-/
namespace Mpd.C01
open Mpd

/-- **pairing**, all schedules -/
theorem C01_pairing (as : List Skeleton.Act) (p : Skeleton.Req × Skeleton.Msg)
    (h : p ∈ (as.foldl Skeleton.step {}).answered) : p.2 = .reply p.1 :=
  (Skeleton.reach_all as).2.1 p h

/-- **issue order = service order**, all schedules -/
theorem C01_fifo (as : List Skeleton.Act) : Skeleton.Fifo (as.foldl Skeleton.step {}) :=
  (Skeleton.reach_all as).2.2.2

theorem C01_one_in_flight (as : List Skeleton.Act) : (as.foldl Skeleton.step {}).s2c.length ≤ 1 :=
  Skeleton.one_reply_in_flight as

/-- **request accounting** on the byte-level task model, every step -/
theorem C01_accounting (s s' : Loop.St) (rf : Bool) (h : Loop.step s rf = some s') :
    ∀ id, (Loop.accounted s').count id = (Loop.accounted s).count id :=
  Loop.step_accounted s s' rf h

/-- **replies come from the stream**, all runs of the byte-level task model: see `Loop.Good` -/
theorem C01_replies_from_stream (s0 s : Loop.St) (D : Bytes) (h0 : Loop.AfterGreeting s0) (hr : Loop.Run s0 s D) :
    ∃ cs : List (Loop.Consumer × Builder.Response),
      (∀ q, Loop.Decodes .initial (D ++ q) (cs.map (·.2)) (Loop.future s q)) ∧
      Loop.Attr cs (Loop.responses s.obs) (Loop.eventsOf s.obs) ∧
      (Loop.Terminal s ∨ Loop.replyWrites s.obs = cs.map (·.1) ++ Loop.outstanding s.pc) := by
  obtain ⟨cs, h1, h2, h3, _⟩ := (Loop.run_decodes s0 s D h0 hr).2
  exact ⟨cs, h1, h2, h3⟩

/-- **pairing by position**, all runs: the j-th response of the stream is consumed by the consumer
of the j-th reply-producing line written (a request's caller, the idle loop, the password verdict),
and at most one such line is ever unanswered — so with a server that answers lines in order, every
caller gets the reply to its own request -/
theorem C01_one_outstanding (s0 s : Loop.St) (D : Bytes) (h0 : Loop.AfterGreeting s0) (hr : Loop.Run s0 s D) :
    Loop.Terminal s ∨ ∃ cs : List (Loop.Consumer × Builder.Response),
      (∀ q, Loop.Decodes .initial (D ++ q) (cs.map (·.2)) (Loop.future s q)) ∧
      Loop.replyWrites s.obs = cs.map (·.1) ++ Loop.outstanding s.pc ∧ (Loop.outstanding s.pc).length ≤ 1 :=
  Loop.one_outstanding s0 s D h0 hr

/-- **end to end at byte level**: with a peer whose stream is the concatenation of the encodings of
its well-formed replies (the i-th one answering the i-th reply-producing line it received), the i-th
response the task consumes is the view of the i-th reply, consumed by the consumer of the i-th
reply-producing line written -/
theorem C01_pairing_end_to_end (s0 s : Loop.St) (D : Bytes) (h0 : Loop.AfterGreeting s0) (hr : Loop.Run s0 s D)
    (srv : List Spec.AbsResp) (hwf : ∀ r ∈ srv, Spec.WF r = true) (tail : Bytes)
    (hD : D ++ tail = srv.flatMap Spec.enc) :
    ∃ cs : List (Loop.Consumer × Builder.Response),
      Loop.Attr cs (Loop.responses s.obs) (Loop.eventsOf s.obs) ∧
      (Loop.Terminal s ∨ Loop.replyWrites s.obs = cs.map (·.1) ++ Loop.outstanding s.pc) ∧
      (∃ rest, Loop.replyWrites s.obs = cs.map (·.1) ++ rest) ∧
      cs.length ≤ srv.length ∧
      ∀ i, i < cs.length → (cs.map (·.2))[i]? = (srv.map Loop.viewResp)[i]? :=
  Loop.pairing_end_to_end s0 s D h0 hr srv hwf tail hD

/-- **every caller gets the reply to its own request** (byte level, all runs, FIFO peer) -/
theorem C01_caller_gets_own_reply (s0 s : Loop.St) (D : Bytes) (h0 : Loop.AfterGreeting s0) (hr : Loop.Run s0 s D)
    (srv : List Spec.AbsResp) (hwf : ∀ r ∈ srv, Spec.WF r = true) (tail : Bytes)
    (hD : D ++ tail = srv.flatMap Spec.enc) (id : Nat) (r : Builder.Response)
    (hmem : (id, r) ∈ Loop.responses s.obs) :
    ∃ i : Nat, (srv.map Loop.viewResp)[i]? = some r ∧
      (Loop.replyWrites s.obs)[i]? = some (Loop.Consumer.reply id) :=
  Loop.caller_gets_own_reply s0 s D h0 hr srv hwf tail hD id r hmem

/-- **the reply the server produced for that request** (byte level, all runs, in-order server).
An in-order server answers the reply-producing lines it receives one by one: its i-th reply is its
answer to the i-th such line. `R id` is what it answers to the request with ghost id `id` (any
well-formed response; replies to `idle` and `password` are whatever they are). Then, whatever the
segmentation, the `select!` order, the cancellations and the timing, the response a caller is handed
for request `id` is exactly `view (R id)` — never an idle reply, never another caller's. -/
theorem C01_own_reply_for_in_order_server (s0 s : Loop.St) (D : Bytes) (h0 : Loop.AfterGreeting s0)
    (hr : Loop.Run s0 s D) (R : Nat → Spec.AbsResp)
    (srv : List Spec.AbsResp) (hwf : ∀ r ∈ srv, Spec.WF r = true) (tail : Bytes)
    (hD : D ++ tail = srv.flatMap Spec.enc)
    (hinorder : ∀ (i : Nat) (id : Nat), (Loop.replyWrites s.obs)[i]? = some (Loop.Consumer.reply id) → ∀ a, srv[i]? = some a → a = R id)
    (id : Nat) (r : Builder.Response) (hmem : (id, r) ∈ Loop.responses s.obs) :
    r = Loop.viewResp (R id) := by
  obtain ⟨i, h1, h2⟩ := C01_caller_gets_own_reply s0 s D h0 hr srv hwf tail hD id r hmem
  rw [List.getElem?_map] at h1
  cases hsi : srv[i]? with
  | none => rw [hsi] at h1; simp at h1
  | some a =>
    rw [hsi] at h1
    simp only [Option.map_some, Option.some.injEq] at h1
    rw [← h1, hinorder i id h2 a hsi]

/-! ### non-vacuity: a concrete run — idle, a request arrives, `noidle`, the idle reply, the request,
its reply — satisfies the premises, and the caller's result is what the theorem says -/
namespace Example
open Loop

def brokenB (s : St) : Bool :=
  match (pollRecv { s with fresh := false } (σcur s)).2 with
  | .ready it => !it.isResp
  | .pending _ => false

theorem not_broken_of (s : St) (h : brokenB s = false) : ¬ Broken s := by
  rintro ⟨it, hit, hp⟩
  unfold brokenB at h
  rw [hp] at h
  simp [hit] at h

def after (s : St) : St := (step s false).getD s

theorem run_after {s0 s : St} {D : Bytes} (hr : Run s0 s D) (h : (step s false).isSome = true)
    (hb : brokenB s = false) : Run s0 (after s) D := by
  cases hs : step s false with
  | none => rw [hs] at h; cases h
  | some s' =>
    have : after s = s' := by unfold after; rw [hs]; rfl
    rw [this]
    exact .task s' false hr hs (not_broken_of s hb)

def s0 : St := { pc := .spawned, obs := [.connected (.ok (str "0.23.5"))] }
def s1 : St := after s0                                                   -- `idle` written
def s2 : St := { s1 with queue := [{ id := 1, bytes := str "ping\n" }], senders := 2 }   -- a caller enqueues
def s3 : St := after s2                                                   -- `noidle` written
def s4 : St := { s3 with avail := s3.avail ++ str "changed: mixer\nOK\n" }             -- the idle reply arrives
def s5 : St := after s4                                                   -- event, request written
def s6 : St := { s5 with avail := s5.avail ++ str "foo: bar\nOK\n" }                   -- its reply arrives
def s7 : St := after s6                                                   -- the caller is answered

theorem run7 : Run s0 s7 (str "changed: mixer\nOK\n" ++ str "foo: bar\nOK\n") := by
  have r1 : Run s0 s1 [] := run_after .start (by decide +kernel) (by decide +kernel)
  have r2 : Run s0 s2 [] := .env s2 r1 ⟨rfl, rfl, rfl, rfl, rfl⟩
  have r3 : Run s0 s3 [] := run_after r2 (by decide +kernel) (by decide +kernel)
  have r4 : Run s0 s4 ([] ++ str "changed: mixer\nOK\n") := .deliver _ r3
  have r5 := run_after r4 (by decide +kernel) (by decide +kernel)
  have r6 : Run s0 s6 ([] ++ str "changed: mixer\nOK\n" ++ str "foo: bar\nOK\n") := .deliver _ r5
  have r7 : Run s0 s7 ([] ++ str "changed: mixer\nOK\n" ++ str "foo: bar\nOK\n") :=
    run_after r6 (by decide +kernel) (by decide +kernel)
  rw [List.nil_append] at r7
  exact r7

example : AfterGreeting s0 :=
  ⟨by decide, by simp [resid, σcur, s0], by simp [responses, s0], by simp [eventsOf, s0],
   by simp [replyWrites, outstanding, s0]⟩

/-- what the run observed: the event, then the caller's own reply -/
example : (eventsOf s7.obs, (responses s7.obs).map (·.1), replyWrites s7.obs) =
    ([str "mixer"], [1], [.idle, .reply 1]) := by decide +kernel

/-- the in-order server of this run: its answer to `idle` (a change of `mixer`), then its answer to
request 1 -/
def srv7 : List Spec.AbsResp :=
  [{ listForm := false, frames := [{ fields := [(str "changed", str "mixer")] }] },
   { listForm := false, frames := [{ fields := [(str "foo", str "bar")] }] }]

/-- `C01_own_reply_for_in_order_server` applies to this run (its premises hold), and says that the
caller of request 1 was handed the view of the server's answer to request 1 -/
example : ∀ r, (1, r) ∈ responses s7.obs → r = viewResp (srv7.getD 1 default) := by
  intro r hr
  refine C01_own_reply_for_in_order_server s0 s7 _ ⟨by decide, by simp [resid, σcur, s0], by simp [responses, s0],
      by simp [eventsOf, s0], by simp [replyWrites, outstanding, s0]⟩ run7 (fun _ => srv7.getD 1 default) srv7
    (by decide +kernel) [] (by decide +kernel) ?_ 1 r hr
  intro i id h a ha
  have hw : replyWrites s7.obs = [.idle, .reply 1] := by decide +kernel
  rw [hw] at h
  match i, h with
  | 1, _ => simp [srv7] at ha ⊢; exact ha.symm

end Example

/-- one step: the reply resolved for the request in flight is exactly the next response of the stream -/
theorem C01_step_effect (s s' : Loop.St) (rf : Bool) (hc : s.pc ≠ .connecting) (h : Loop.step s rf = some s') :
    Loop.Effect s s' := Loop.step_effect s s' rf hc h

/-- **partial list failure**: the caller gets the server's error and exactly the frames of the
commands that succeeded before it, in order -/
theorem C01_partial_list (frames : List AFrame) (e : Parser.Err) :
    Client.listResult (.response { frames := frames, error := some e }) = .error (.errorResponse e frames) := rfl

theorem C01_full_list (frames : List AFrame) :
    Client.listResult (.response { frames := frames, error := none }) = .ok frames := rfl

end Mpd.C01
