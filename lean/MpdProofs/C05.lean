import MpdProofs.Lemmas.Skeleton
import MpdProofs.Lemmas.StreamRun
import MpdProofs.Lemmas.NoidleOnly
/-!
# C05 — the client's output is always a legal MPD session (idle/noidle discipline)

Message level, ALL schedules (closed system of `Lemmas/Skeleton.lean`: client skeleton ∥ FIFO
wires ∥ MPD server with the idle rules): the server never reads anything but `noidle` while it waits
in idle (`C05_legal`), at most one request is outstanding (`C05_one_outstanding`), at most one reply
is in flight (`C05_one_reply`), and the reachable shapes are exactly those of `Skel` — including the
race in which the server answers `idle` spontaneously at the moment the client sends `noidle`
(the stale `noidle` is ignored by the server, the client consumes exactly one reply either way).
`C05_reidle`: in the window after a reply, timer expiry makes the client write `idle` again.

Byte level, ALL runs of the task model (`C05_byte_one_outstanding`, from `Loop.run_decodes`): the
reply-producing lines written so far (`password`, `idle`, requests — classified by the call site
that wrote them) are, in order, exactly the consumers of the responses consumed so far from the
delivered stream, followed by at most ONE line whose reply is still awaited. Hence a request (or a
new `idle`) is written only after the reply to the previous `idle` has been consumed — i.e. after the
server has left its idle state — and `C05_step_writes` gives the per-step form: what a step writes
is exactly what it then waits for.

PARTIAL: that the server leaves idle exactly when it sends the idle reply, and ignores a stale
`noidle`, is the server side (`Spec.Server`), checked per trace by the correspondence run (oracle =
`Spec.Server` fed with the implementation's own writes), not composed with the client in one theorem.
-/
namespace Mpd.C05
open Mpd Mpd.Skeleton

theorem C05_legal (as : List Act) : (as.foldl step {}).viol = false := legal as
theorem C05_shapes (as : List Act) : Skel (as.foldl step {}) := (reach_all as).1
theorem C05_one_outstanding (as : List Act) :
    ((as.foldl step {}).c2s.filter fun l => match l with | .req _ => true | _ => false).length ≤ 1 :=
  one_request_outstanding as
theorem C05_one_reply (as : List Act) : (as.foldl step {}).s2c.length ≤ 1 := one_reply_in_flight as

/-- after a reply, if no request arrives before the timer fires, `idle` is issued again -/
theorem C05_reidle (s : Sys) (h : s.pc = .waitNext) :
    (step s .tick).pc = .idling ∧ (step s .tick).c2s = s.c2s ++ [.idle] := by
  simp [step, h]

/-- **byte level, all runs**: one reply-producing line outstanding at most, and the lines written are
answered in order by the responses consumed -/
theorem C05_byte_one_outstanding (s0 s : Loop.St) (D : Bytes) (h0 : Loop.AfterGreeting s0) (hr : Loop.Run s0 s D) :
    Loop.Terminal s ∨ ∃ cs : List (Loop.Consumer × Builder.Response),
      (∀ q, Loop.Decodes .initial (D ++ q) (cs.map (·.2)) (Loop.future s q)) ∧
      Loop.replyWrites s.obs = cs.map (·.1) ++ Loop.outstanding s.pc ∧ (Loop.outstanding s.pc).length ≤ 1 :=
  Loop.one_outstanding s0 s D h0 hr

/-- per step: silent steps write exactly what they additionally wait for; consuming steps waited
for exactly one reply and write exactly what they wait for next -/
theorem C05_step_writes (s s' : Loop.St) (rf : Bool) (hc : s.pc ≠ .connecting) (h : Loop.step s rf = some s') :
    Loop.Effect s s' := Loop.step_effect s s' rf hc h

/-- **`noidle` only while idling** (byte level, every step): a step from any program point other than
`idling` — the one in which, by `C05_byte_one_outstanding`, the reply to `idle` is the outstanding one —
writes no `noidle`; a step from `idling` writes at most one (`nn` counts the `noidle` writes of the
step's contribution `e` to the log) -/
theorem C05_noidle_only_while_idling (s s' : Loop.St) (rf : Bool) (hc : s.pc ≠ .connecting)
    (h : Loop.step s rf = some s') :
    ∃ e, s'.obs = s.obs ++ e ∧ Loop.nn e ≤ (match s.pc with | .idling _ => 1 | _ => 0) :=
  Loop.step_noidle s s' rf hc h

end Mpd.C05
