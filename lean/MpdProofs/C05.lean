import MpdProofs.Lemmas.Skeleton
/-!
# C05 — the client's output is always a legal MPD session (idle/noidle discipline)

Message level, ALL schedules (closed system of `Lemmas/Skeleton.lean`: client skeleton ∥ FIFO
wires ∥ MPD server with the idle rules): the server never reads anything but `noidle` while it waits
in idle (`C05_legal`), at most one request is outstanding (`C05_one_outstanding`), at most one reply
is in flight (`C05_one_reply`), and the reachable shapes are exactly those of `Skel` — including the
race in which the server answers `idle` spontaneously at the moment the client sends `noidle`
(the stale `noidle` is ignored by the server, the client consumes exactly one reply either way).
`C05_reidle`: in the window after a reply, timer expiry makes the client write `idle` again.

PARTIAL: the refinement from the byte-level task model to this skeleton is validated per trace by
the correspondence run (oracle = `Spec.Server` fed with the implementation's own writes), not proved.
-/
namespace Mpd.C05
open Mpd Mpd.Skeleton

theorem C05_legal (as : List Act) : (as.foldl step {}).viol = false := legal as
theorem C05_shapes (as : List Act) : Skel (as.foldl step {}) := (reach_all as).1
theorem C05_one_outstanding (as : List Act) :
    ((as.foldl step {}).c2s.filter fun l => match l with | .req _ => true | _ => false).length ≤ 1 :=
  one_request_outstanding as
theorem C05_one_reply (as : List Act) : (as.foldl step {}).s2c.length ≤ 1 := one_reply_in_flight as

/-- after a reply, if no request arrives before the timer fires, `idle` is issued again -/
theorem C05_reidle (s : Sys) (h : s.pc = .waitNext) :
    (step s .tick).pc = .idling ∧ (step s .tick).c2s = s.c2s ++ [.idle] := by
  simp [step, h]

end Mpd.C05
