import MpdProofs.Lemmas.Encode
import MpdProofs.C02
/-!
# C03 — well-formed server output is decoded exactly, including binary and command lists

`Spec.enc` is the independent encoder of abstract responses (`MpdSpec/Grammar.lean`); `Spec.view`
is what a client must see. Main theorems: for every well-formed abstract response, the builder
fed with `enc r` followed by ANY bytes `tl` returns exactly `view r` and leaves exactly `tl`
(`C03_response`); for every sequence of them the whole-stream decoding is the sequence of views
followed by the decoding of what comes after (`C03_stream`); with C02 this holds for both
connection flavours under every segmentation (`C03_async`, `C03_sync`).
-/
namespace Mpd.C03
open Mpd Mpd.Parser Mpd.Builder Mpd.Conn

/-! ## every line the encoder writes is a line of the grammar -/

theorem mem_of_contains_false (v : Bytes) (h : v.contains LF = false) : LF ∉ v := by
  intro hm
  have : v.contains LF = true := List.contains_iff_mem.mpr hm
  rw [h] at this
  exact absurd this (by simp)

theorem wire_fieldLine (kv : Bytes × Bytes) (hk : Spec.wfKey kv.1 = true) (hv : Spec.wfValue kv.2 = true) :
    Wire (.field kv.1 kv.2) (Spec.fieldLine kv) ∧ kv.1 ≠ str "binary" := by
  simp only [Spec.wfKey, Bool.and_eq_true, Bool.not_eq_true', bne_iff_ne, ne_eq] at hk
  simp only [Spec.wfValue, Bool.and_eq_true, Bool.not_eq_true'] at hv
  obtain ⟨⟨hne, hall⟩, hnb⟩ := hk
  refine ⟨?_, hnb⟩
  have hne' : kv.1 ≠ [] := by intro h; rw [h] at hne; simp at hne
  exact Wire.field kv.1 kv.2 hne' hall (mem_of_contains_false _ hv.2) hv.1

theorem wire_binarySection (b : Bytes) (h : b.length ≤ U64MAX) :
    Wire (.binary b.length) (Spec.binarySection b) := by
  obtain ⟨h1, h2, h3⟩ := natToDec_spec b.length
  have hw := Wire.binary (natToDec b.length) b ⟨h1, h2, by rw [h3]; exact h⟩ h3.symm
  rw [h3] at hw
  exact hw

theorem wire_encErr (e : Spec.Err) (h : Spec.wfErr e = true) : Wire (.error e) (Spec.encErr e) := by
  simp only [Spec.wfErr, Bool.and_eq_true, decide_eq_true_eq] at h
  obtain ⟨⟨⟨hc, hi⟩, hm⟩, hcmd⟩ := h
  simp only [Spec.wfValue, Bool.and_eq_true, Bool.not_eq_true'] at hm
  obtain ⟨a1, a2, a3⟩ := natToDec_spec e.code
  obtain ⟨b1, b2, b3⟩ := natToDec_spec e.index
  have hcmd' : (e.command.getD []).all isCmdNameChar = true ∧
      e.command = (if e.command.getD [] = [] then none else some (e.command.getD [])) := by
    cases hcm : e.command with
    | none => simp
    | some c =>
      rw [hcm] at hcmd
      simp only [Bool.and_eq_true, Bool.not_eq_true'] at hcmd
      have hne : c ≠ [] := by intro h0; rw [h0] at hcmd; simp at hcmd
      exact ⟨hcmd.2, by simp [hne]⟩
  have hw := Wire.error (natToDec e.code) (natToDec e.index) (e.command.getD []) e.message
    ⟨a1, a2, by rw [a3]; exact hc⟩ ⟨b1, b2, by rw [b3]; exact hi⟩ hcmd'.1
    (mem_of_contains_false _ hm.2) hm.1
  rw [a3, b3, ← hcmd'.2] at hw
  exact hw

/-! ## the builder on a frame body -/

/-- feed all key-value lines of a frame -/
def absorbFields (σ : BState) (fs : List (Bytes × Bytes)) : BState :=
  fs.foldl (fun σ kv => (bstep σ (.field kv.1 kv.2)).1) σ

def wfFields (fs : List (Bytes × Bytes)) : Prop :=
  ∀ kv ∈ fs, Spec.wfKey kv.1 = true ∧ Spec.wfValue kv.2 = true

theorem feed_fields (σ : BState) (fs : List (Bytes × Bytes)) (tl : Bytes) (hwf : wfFields fs) :
    feed σ (fs.flatMap Spec.fieldLine ++ tl) = feed (absorbFields σ fs) tl := by
  induction fs generalizing σ with
  | nil => simp [absorbFields]
  | cons kv rest ih =>
    have hkv := hwf kv (by simp)
    obtain ⟨hw, hnb⟩ := wire_fieldLine kv hkv.1 hkv.2
    simp only [List.flatMap_cons, List.append_assoc]
    rw [feed_wire σ _ _ _ hw (fun k v h => by cases h; exact hnb)]
    have hb := bstep_field σ kv.1 kv.2
    simp only [pieceOf]
    rcases hbs : bstep σ (.field kv.1 kv.2) with ⟨σ', o⟩
    rw [hbs] at hb
    simp only at hb
    rw [hb.1]
    simp only
    rw [ih σ' (fun x hx => hwf x (by simp [hx]))]
    simp [absorbFields, hbs]

theorem absorbFields_view (σ : BState) (fs : List (Bytes × Bytes)) :
    isList (absorbFields σ fs) = isList σ ∧ doneFrames (absorbFields σ fs) = doneFrames σ ∧
    cur (absorbFields σ fs) = { cur σ with fields := (cur σ).fields ++ fs } := by
  induction fs generalizing σ with
  | nil => simp [absorbFields]
  | cons kv rest ih =>
    have hb := bstep_field σ kv.1 kv.2
    have := ih (bstep σ (.field kv.1 kv.2)).1
    simp only [absorbFields, List.foldl_cons] at this ⊢
    obtain ⟨h1, h2, h3⟩ := this
    refine ⟨h1.trans hb.2.1, h2.trans hb.2.2.2, ?_⟩
    rw [h3, hb.2.2.1]
    simp [pushField]

/-- the whole body of a frame: fields, with the binary section somewhere in between -/
def absorbFrame (σ : BState) (f : Spec.AbsFrame) : BState :=
  match f.binary with
  | none => absorbFields σ f.fields
  | some b => absorbFields (bstep (absorbFields σ (f.fields.take f.binPos)) (.binary b)).1 (f.fields.drop f.binPos)

theorem wfFrame_fields (f : Spec.AbsFrame) (h : Spec.wfFrame f = true) : wfFields f.fields := by
  intro kv hkv
  simp only [Spec.wfFrame, Bool.and_eq_true, List.all_eq_true] at h
  exact h.1 kv hkv

theorem feed_frameBody (σ : BState) (f : Spec.AbsFrame) (tl : Bytes) (hwf : Spec.wfFrame f = true) :
    feed σ (Spec.encFrameBody f ++ tl) = feed (absorbFrame σ f) tl := by
  have hfs := wfFrame_fields f hwf
  unfold Spec.encFrameBody absorbFrame
  cases hb : f.binary with
  | none =>
    simp only
    rw [← List.flatMap_append, List.take_append_drop]
    exact feed_fields σ f.fields tl hfs
  | some b =>
    simp only
    have hlen : b.length ≤ U64MAX := by
      simp only [Spec.wfFrame, Bool.and_eq_true, hb, Option.all_some, decide_eq_true_eq] at hwf
      exact hwf.2
    have h1 : wfFields (f.fields.take f.binPos) := fun x hx => hfs x (List.mem_of_mem_take hx)
    have h2 : wfFields (f.fields.drop f.binPos) := fun x hx => hfs x (List.mem_of_mem_drop hx)
    rw [List.append_assoc, List.append_assoc, feed_fields _ _ _ h1]
    have hw := wire_binarySection b hlen
    rw [feed_wire _ _ _ _ hw (fun k v h => by cases h)]
    have hp : pieceOf (.binary b.length) (Spec.binarySection b) = .binary b := by
      obtain ⟨_, _, h3⟩ := natToDec_spec b.length
      have := pieceOf_binary (natToDec b.length) b h3.symm
      rw [h3] at this
      exact this
    rw [hp]
    have hbb := bstep_binary (absorbFields σ (f.fields.take f.binPos)) b
    rcases hbs : bstep (absorbFields σ (f.fields.take f.binPos)) (.binary b) with ⟨σ', o⟩
    rw [hbs] at hbb
    simp only at hbb
    rw [hbb.1]
    simp only
    exact feed_fields σ' _ tl h2

theorem absorbFrame_view (σ : BState) (f : Spec.AbsFrame) :
    isList (absorbFrame σ f) = isList σ ∧ doneFrames (absorbFrame σ f) = doneFrames σ ∧
    cur (absorbFrame σ f) =
      { fields := (cur σ).fields ++ f.fields,
        binary := match f.binary with | some b => some b | none => (cur σ).binary } := by
  unfold absorbFrame
  cases hb : f.binary with
  | none =>
    obtain ⟨h1, h2, h3⟩ := absorbFields_view σ f.fields
    exact ⟨h1, h2, by rw [h3]⟩
  | some b =>
    simp only
    obtain ⟨a1, a2, a3⟩ := absorbFields_view σ (f.fields.take f.binPos)
    have hbb := bstep_binary (absorbFields σ (f.fields.take f.binPos)) b
    obtain ⟨c1, c2, c3⟩ := absorbFields_view (bstep (absorbFields σ (f.fields.take f.binPos)) (.binary b)).1
      (f.fields.drop f.binPos)
    refine ⟨c1.trans (hbb.2.1.trans a1), c2.trans (hbb.2.2.2.trans a2), ?_⟩
    rw [c3, hbb.2.2.1, a3]
    simp [List.append_assoc]

/-- on a fresh frame the builder's current frame is exactly the encoded frame's view -/
theorem absorbFrame_fresh (σ : BState) (f : Spec.AbsFrame) (hc : cur σ = emptyFrame) :
    cur (absorbFrame σ f) = Spec.viewFrame f := by
  rw [(absorbFrame_view σ f).2.2, hc]
  simp only [emptyFrame, List.nil_append, Spec.viewFrame]
  cases f.binary <;> rfl

/-! ## terminators -/

theorem feed_OK (σ : BState) (tl : Bytes) :
    feed σ (str "OK\n" ++ tl) =
      (.initial, tl, .done { frames := if isList σ then doneFrames σ else [cur σ], error := none }) := by
  rw [feed_wire σ _ _ _ Wire.endOfResponse (fun k v h => by cases h)]
  simp only [pieceOf, bstep_endOfResponse]

theorem feed_listOK (σ : BState) (tl : Bytes) :
    feed σ (str "list_OK\n" ++ tl) = feed (.listInProgress emptyFrame (doneFrames σ ++ [cur σ])) tl := by
  rw [feed_wire σ _ _ _ Wire.endOfFrame (fun k v h => by cases h)]
  simp only [pieceOf, bstep_endOfFrame]

theorem feed_ACK (σ : BState) (e : Spec.Err) (tl : Bytes) (he : Spec.wfErr e = true) :
    feed σ (Spec.encErr e ++ tl) =
      (.initial, tl, .done { frames := if isList σ then doneFrames σ else [], error := some e }) := by
  rw [feed_wire σ _ _ _ (wire_encErr e he) (fun k v h => by cases h)]
  simp only [pieceOf, bstep_error]

/-- the builder state after the completed frames of a list reply -/
def afterFrames (c : BState) (fs : List Spec.AbsFrame) : BState :=
  fs.foldl (fun σ f => .listInProgress emptyFrame (doneFrames (absorbFrame σ f) ++ [cur (absorbFrame σ f)])) c

theorem feed_listFrames (c : BState) (fs : List Spec.AbsFrame) (tl : Bytes)
    (hwf : ∀ f ∈ fs, Spec.wfFrame f = true) :
    feed c (fs.flatMap (fun f => Spec.encFrameBody f ++ str "list_OK\n") ++ tl) = feed (afterFrames c fs) tl := by
  induction fs generalizing c with
  | nil => simp [afterFrames]
  | cons f rest ih =>
    simp only [List.flatMap_cons, List.append_assoc]
    rw [feed_frameBody c f _ (hwf f (by simp)), feed_listOK, ih _ (fun x hx => hwf x (by simp [hx]))]
    simp [afterFrames]

theorem afterFrames_view (c : BState) (fs : List Spec.AbsFrame) (hc : cur c = emptyFrame) (hne : fs ≠ []) :
    afterFrames c fs = .listInProgress emptyFrame (doneFrames c ++ fs.map Spec.viewFrame) := by
  induction fs generalizing c with
  | nil => exact absurd rfl hne
  | cons f rest ih =>
    have hv := absorbFrame_view c f
    have hcur := absorbFrame_fresh c f hc
    have hstep : afterFrames c (f :: rest) =
        afterFrames (.listInProgress emptyFrame (doneFrames c ++ [Spec.viewFrame f])) rest := by
      simp [afterFrames, hv.2.1, hcur]
    rw [hstep]
    by_cases hr : rest = []
    · subst hr; simp [afterFrames]
    · rw [ih _ rfl hr]; simp [doneFrames]

theorem feed_nil (σ : BState) : feed σ [] = (σ, [], .pending) := by
  have h : parseComp [] = .incomplete := by decide
  rw [feed]
  split <;> rename_i h2 <;> rw [h] at h2 <;> first | (simp at h2; done) | rfl

/-! ## the main theorem -/

theorem wf_parts (r : Spec.AbsResp) (h : Spec.WF r = true) :
    (∀ f ∈ r.frames, Spec.wfFrame f = true) ∧ (∀ f, r.partialFrame = some f → Spec.wfFrame f = true) ∧
    (∀ e, r.error = some e → Spec.wfErr e = true) := by
  simp only [Spec.WF, Bool.and_eq_true, List.all_eq_true] at h
  obtain ⟨⟨⟨h1, h2⟩, h3⟩, _⟩ := h
  refine ⟨h1, ?_, ?_⟩
  · intro f hf; rw [hf] at h2; simpa using h2
  · intro e he; rw [he] at h3; simpa using h3

/-- **C03**: a well-formed response is decoded to exactly its view, and the bytes that follow are
left untouched, whatever they are -/
theorem C03_response (r : Spec.AbsResp) (tl : Bytes) (hwf : Spec.WF r = true) :
    feed .initial (Spec.enc r ++ tl) =
      (.initial, tl, .done { frames := (Spec.view r).1, error := (Spec.view r).2 }) := by
  obtain ⟨hfr, hpf, her⟩ := wf_parts r hwf
  unfold Spec.enc Spec.view
  by_cases hl : r.listForm = true
  · -- reply to a command list
    simp only [hl, if_true, List.append_assoc]
    rw [feed_listFrames .initial r.frames _ hfr]
    cases he : r.error with
    | none =>
      simp only
      have hne : r.frames ≠ [] := by
        intro h0
        simp only [Spec.WF, hl, he, h0] at hwf
        simp at hwf
      rw [feed_OK, afterFrames_view .initial r.frames rfl hne]
      simp [isList, doneFrames]
    | some e =>
      simp only
      by_cases hne : r.frames = []
      · have h0 : afterFrames .initial r.frames = .initial := by rw [hne]; rfl
        rw [h0, hne]
        cases hp : r.partialFrame with
        | none =>
          simp only [Spec.encPartial, List.nil_append]
          rw [feed_ACK .initial e tl (her e he)]
          simp [isList]
        | some pf =>
          simp only [Spec.encPartial, List.append_assoc]
          rw [feed_frameBody .initial pf _ (hpf pf hp), feed_ACK _ e tl (her e he)]
          have hv := absorbFrame_view .initial pf
          rw [hv.1]
          simp [isList]
      · rw [afterFrames_view .initial r.frames rfl hne]
        cases hp : r.partialFrame with
        | none =>
          simp only [Spec.encPartial, List.nil_append]
          rw [feed_ACK _ e tl (her e he)]
          simp [isList, doneFrames]
        | some pf =>
          simp only [Spec.encPartial, List.append_assoc]
          rw [feed_frameBody _ pf _ (hpf pf hp), feed_ACK _ e tl (her e he)]
          have hv := absorbFrame_view (.listInProgress emptyFrame (doneFrames .initial ++ r.frames.map Spec.viewFrame)) pf
          rw [hv.1, hv.2.1]
          simp [isList, doneFrames]
  · -- reply to a single command
    have hl' : r.listForm = false := by simpa using hl
    simp only [hl', Bool.false_eq_true, if_false]
    cases he : r.error with
    | none =>
      simp only
      have h1 : ∃ f, r.frames = [f] := by
        simp only [Spec.WF, hl', he] at hwf
        simp only [Bool.false_eq_true, if_false, Bool.and_eq_true, beq_iff_eq] at hwf
        match hfr' : r.frames, hwf.2.1 with
        | [f], _ => exact ⟨f, rfl⟩
      obtain ⟨f, hf⟩ := h1
      rw [hf]
      simp only [List.flatMap_cons, List.flatMap_nil, List.append_nil, List.map_cons, List.map_nil, List.append_assoc]
      rw [feed_frameBody .initial f _ (hfr f (by simp [hf])), feed_OK]
      have hv := absorbFrame_view .initial f
      have hc := absorbFrame_fresh .initial f rfl
      rw [hv.1, hc]
      simp [isList]
    | some e =>
      simp only
      cases hp : r.partialFrame with
      | none =>
        simp only [Spec.encPartial, List.nil_append]
        rw [feed_ACK .initial e tl (her e he)]
        simp [isList]
      | some pf =>
        simp only [Spec.encPartial, List.append_assoc]
        rw [feed_frameBody .initial pf _ (hpf pf hp), feed_ACK _ e tl (her e he)]
        have hv := absorbFrame_view .initial pf
        rw [hv.1]
        simp [isList]

def viewItem (r : Spec.AbsResp) : Item :=
  .resp { frames := (Spec.view r).1, error := (Spec.view r).2 }

/-- **C03 for streams**: several responses back to back decode to their views, in order, and the
decoding continues with whatever follows -/
theorem C03_stream (fuel : Nat) (rs : List Spec.AbsResp) (tl : Bytes) (term : Term)
    (hwf : ∀ r ∈ rs, Spec.WF r = true) :
    decodeAll (fuel + rs.length) (rs.flatMap Spec.enc ++ tl) term =
      rs.map viewItem ++ decodeAll fuel tl term := by
  induction rs with
  | nil => simp
  | cons r rest ih =>
    simp only [List.flatMap_cons, List.append_assoc, List.length_cons, List.map_cons, List.cons_append]
    rw [← Nat.add_assoc, decodeAll, C03_response r _ (hwf r (by simp))]
    simp only [viewItem]
    rw [ih (fun x hx => hwf x (by simp [hx]))]

/-- **C03 on both connections, under every segmentation** -/
theorem C03_async (fuel : Nat) (rs : List Spec.AbsResp) (chunks : List Bytes) (term : Term)
    (hwf : ∀ r ∈ rs, Spec.WF r = true) (hne : NonEmptyChunks chunks)
    (hflat : chunks.flatten = rs.flatMap Spec.enc) :
    sessionA (fuel + 1 + rs.length) 0 .initial [] chunks term = rs.map viewItem ++ [termItem term .initial []] := by
  rw [C02.C02_async _ [] chunks term hne, List.nil_append, hflat]
  have := C03_stream (fuel + 1) rs [] term hwf
  rw [List.append_nil] at this
  rw [this, decodeAll, feed_nil]

theorem C03_sync (fuel : Nat) (rs : List Spec.AbsResp) (chunks : List Bytes) (term : Term)
    (hwf : ∀ r ∈ rs, Spec.WF r = true) (hne : NonEmptyChunks chunks)
    (hflat : chunks.flatten = rs.flatMap Spec.enc) :
    sessionS (fuel + 1 + rs.length) 0 .initial { cap := DEFAULT_CAP, data := [] } chunks term =
      rs.map viewItem ++ [termItem term .initial []] := by
  rw [C02.C02_sync _ _ chunks term hne C02.fresh_inv, List.nil_append, hflat]
  have := C03_stream (fuel + 1) rs [] term hwf
  rw [List.append_nil] at this
  rw [this, decodeAll, feed_nil]

/-! ## consequences stated explicitly (non-vacuity) -/

/-- a response whose payload is made of protocol look-alikes and whose values mimic keywords -/
def tricky : Spec.AbsResp :=
  { listForm := false,
    frames := [{ fields := [(str "size", str "9"), (str "a", str "OK"), (str "b", str "ACK [5@0] {} x"),
                            (str "c", str "binary: 3"), (str "OK", [])],
                 binary := some (str "OK\nlist_OK\nACK [1@0] {} x\n"), binPos := 1 }] }

theorem tricky_wf : Spec.WF tricky = true := by decide +kernel

/-- the payload is never scanned and keyword-like values are plain values: decoded verbatim, and
the bytes after the response are left for the next receive -/
example : feed .initial (Spec.enc tricky ++ str "next") =
    (.initial, str "next", .done { frames := (Spec.view tricky).1, error := (Spec.view tricky).2 }) :=
  C03_response tricky _ tricky_wf

example : (Spec.view tricky).1 =
    [{ fields := [(str "size", str "9"), (str "a", str "OK"), (str "b", str "ACK [5@0] {} x"),
                  (str "c", str "binary: 3"), (str "OK", [])],
       binary := some (str "OK\nlist_OK\nACK [1@0] {} x\n") }] := by decide +kernel

end Mpd.C03
