import Mpd.Filter
import MpdSpec.Tokenizer
import MpdSpec.FilterParse
import MpdProofs.Lemmas.Filter
import MpdProofs.Lemmas.Utf8
/-!
# C11 — filter expressions mean on the server what was built on the client

Property (full strength): *for every filter built from tags, operators, string values, negation
and conjunction, the argument sent to the server, once MPD's request tokenizer and
filter-expression grammar have been applied to it, denotes the same expression: same tags and
operators, same nesting up to associativity of AND, and byte-identical values.*

Full statement aimed at:
`∀ f, Built f → wordTags f → sent line of `find f` tokenizes to one argument that parses to `mirror f``.
It does **not** hold for the code as it is: a value containing `"` is rendered as `\\"` (pinned by
the crate's test `filter_escaping`), which MPD's tokenizer reads as an escaped backslash followed
by the closing quote (known finding K2, `C11_K2_fails`).  Proved here: `C11_partial`, the full
statement for every tree and all values outside the decidable class `K2`; the exact behaviour on
K2; the `tag_exists` / `tag_absent` shorthands; AND-flattening = associativity; the LF/NUL case
(nothing is sent); panic-freedom of rendering for every filter the public API can build.

`wordTags` (every tag name has MPD's `ExpectWord` shape `[A-Za-z][A-Za-z_-]*` and is not one of
MPD's five operator-less filter types) holds for every named `Tag` variant, `Tag::any()`, `file`
and every name MPD knows; hand-built `Tag::Other` values and `try_from` results starting with
`_`/`-` are outside (they cannot name an MPD tag).
-/
namespace Mpd.C11
open Mpd Mpd.Filter Spec.Filter Spec.Tok

/-- filters the public API can produce: `Filter::new` (`tag`, `tag_exists`, `tag_absent` are
instances of it), `negate` / `!`, `and` -/
inductive Built : FilterType → Prop
  | new (t : Tag) (op : Operator) (v : Bytes) : Built (Filter.new t op v)
  | negate {f : FilterType} : Built f → Built (Filter.negate f)
  | and {a b : FilterType} : Built a → Built b → Built (Filter.and a b)

theorem Built.tag (t : Tag) (v : Bytes) : Built (Filter.tag t v) := .new t .equal v
theorem Built.tagExists (t : Tag) : Built (Filter.tagExists t) := .new t .notEqual []
theorem Built.tagAbsent (t : Tag) : Built (Filter.tagAbsent t) := .new t .equal []

/-- the children list `Filter::and` takes from one of its operands -/
def operands : FilterType → List FilterType
  | .and inner => inner
  | c => [c]

theorem and_eq (a b : FilterType) : Filter.and a b = .and (operands a ++ operands b) := by
  cases a <;> cases b <;> rfl

theorem operands_wf {a : FilterType} (h : wf a = true) :
    1 ≤ (operands a).length ∧ ∀ f ∈ operands a, wf f = true ∧ isAnd f = false := by
  cases a with
  | tag t op v => simp [operands, wf, isAnd]
  | not f => simpa [operands, isAnd] using h
  | and fs =>
    simp only [wf, Bool.and_eq_true, decide_eq_true_eq, wfList_iff] at h
    exact ⟨by simp only [operands]; omega, h.2⟩

/-- **invariant of the public API**: every `And` node has at least two children, none of which is
itself an `And` (flattening) -/
theorem C11_built_wf {f : FilterType} (h : Built f) : wf f = true := by
  induction h with
  | new t op v => rfl
  | negate _ ih => simpa [Filter.negate, wf] using ih
  | and _ _ iha ihb =>
    obtain ⟨la, ha⟩ := operands_wf iha
    obtain ⟨lb, hb⟩ := operands_wf ihb
    rw [and_eq]
    simp only [wf, Bool.and_eq_true, decide_eq_true_eq, wfList_iff, List.length_append, List.mem_append]
    exact ⟨by omega, fun f hf => hf.elim (ha f) (hb f)⟩

theorem renderAnd_some (fs : List FilterType) (h : ∀ f ∈ fs, ∃ r, renderType f = some r) (first : Bool) :
    ∃ r, renderAnd fs first = some r := by
  induction fs generalizing first with
  | nil => exact ⟨[], rfl⟩
  | cons f fs ih =>
    obtain ⟨a, ha⟩ := h f (by simp)
    obtain ⟨b, hb⟩ := ih (fun g hg => h g (by simp [hg])) false
    exact ⟨_, by rw [renderAnd, ha, hb]⟩

theorem wf_render : ∀ (f : FilterType), wf f = true → ∃ r, renderType f = some r := by
  intro f
  induction f using FilterType.induct with
  | tag t op v => intro _; exact ⟨_, rfl⟩
  | not f ih =>
    intro h
    obtain ⟨r, hr⟩ := ih (by simpa [wf] using h)
    exact ⟨_, by rw [renderType, hr]⟩
  | and fs ih =>
    intro h
    simp only [wf, Bool.and_eq_true, decide_eq_true_eq, wfList_iff] at h
    obtain ⟨r, hr⟩ := renderAnd_some fs (fun f hf => ih f hf (h.2 f hf).1) true
    have : ¬ fs.length < 2 := by omega
    exact ⟨Filter.LPAREN :: r ++ [Filter.RPAREN], by rw [renderType, hr]; simp [this]⟩

/-- **the `assert!(inner.len() >= 2)` in `FilterType::render` is unreachable** for every filter
built through the public API: rendering never panics -/
theorem C11_render_no_panic {f : FilterType} (h : Built f) : ∃ r, Filter.render f = some r := by
  obtain ⟨r, hr⟩ := wf_render f (C11_built_wf h)
  exact ⟨_, by rw [Filter.render, hr]⟩

/-! ## what `add_argument` accepts -/

theorem firstForbidden_none {r : Bytes} (h : ∀ b ∈ r, isForbidden b = false) : Cmd.firstForbidden r = none := by
  induction r with
  | nil => rfl
  | cons x xs ih =>
    have hx := h x (by simp)
    simp only [isForbidden] at hx
    simp [Cmd.firstForbidden, hx, ih (fun b hb => h b (by simp [hb]))]

theorem firstForbidden_some {r : Bytes} {b : UInt8} (hb : b ∈ r) (h : isForbidden b = true) :
    ∃ i, Cmd.firstForbidden r = some i := by
  induction r with
  | nil => simp at hb
  | cons x xs ih =>
    by_cases hx : isForbidden x = true
    · simp only [isForbidden] at hx
      exact ⟨0, by simp [Cmd.firstForbidden, hx]⟩
    · have hbx : b ∈ xs := by
        simp only [List.mem_cons] at hb
        rcases hb with rfl | hb
        · exact absurd h hx
        · exact hb
      obtain ⟨i, hi⟩ := ih hbx
      simp only [isForbidden] at hx
      exact ⟨i + 1, by simp [Cmd.firstForbidden, hx, hi]⟩

theorem addRendered_ok (cmd r : Bytes) (h : Cmd.firstForbidden r = none) :
    Cmd.addRendered cmd r = (.ok (cmd ++ SPACE :: r), cmd ++ SPACE :: r) := by
  simp [Cmd.addRendered, Cmd.validateArgument, h]

theorem addRendered_err (cmd r : Bytes) {i : Nat} (h : Cmd.firstForbidden r = some i) :
    Cmd.addRendered cmd r = (.error (.invalidChar i), cmd) := by
  simp [Cmd.addRendered, Cmd.validateArgument, h]

theorem mem_esc1 {b : UInt8} {a : Bytes} (h : b ∈ esc1 a) : b ∈ a ∨ b = BSLASH := by
  induction a with
  | nil => simp at h
  | cons x xs ih =>
    rw [esc1] at h
    split at h
    · simp only [List.mem_cons] at h
      rcases h with h | h | h
      · exact .inr h
      · exact .inl (by simp [h])
      · exact (ih h).imp (fun m => by simp [m]) id
    · simp only [List.mem_cons] at h
      rcases h with h | h
      · exact .inl (by simp [h])
      · exact (ih h).imp (fun m => by simp [m]) id

theorem mem_escV {b : UInt8} {a : Bytes} (h : b ∈ escV a) : b ∈ a := by
  induction a with
  | nil => simp at h
  | cons x xs ih =>
    rw [escV] at h
    split at h
    · rename_i hx
      simp only [List.mem_cons] at h
      have hx' : x = BSLASH := by simpa using hx
      rcases h with h | h | h
      · simp [h, hx']
      · simp [h, hx']
      · simp [ih h]
    · simp only [List.mem_cons] at h
      rcases h with h | h
      · simp [h]
      · simp [ih h]

theorem asStr_ok (op : Operator) : ∀ b ∈ op.asStr, isForbidden b = false := by
  cases op <;> decide

theorem innerAnd_ok (fs : List FilterType) (h : ∀ f ∈ fs, ∀ b ∈ inner f, isForbidden b = false) (first : Bool) :
    ∀ b ∈ innerAnd fs first, isForbidden b = false := by
  induction fs generalizing first with
  | nil => simp [innerAnd]
  | cons f fs ih =>
    intro b hb
    simp only [innerAnd, List.mem_append] at hb
    rcases hb with (hb | hb) | hb
    · cases first
      · revert b; decide
      · simp at hb
    · exact h f (by simp) b hb
    · exact ih (fun g hg => h g (by simp [hg])) false b hb

/-- no LF / NUL in tag names and values ⇒ none in what the filter parser gets -/
theorem inner_ok : ∀ (f : FilterType), hasForbidden f = false → ∀ b ∈ inner f, isForbidden b = false := by
  intro f
  induction f using FilterType.induct with
  | tag t op v =>
    intro h b hb
    simp only [hasForbidden, leaves, List.any_cons, List.any_nil, Bool.or_false, Bool.or_eq_false_iff,
      List.any_eq_false] at h
    simp only [inner, List.mem_cons, List.mem_append, List.not_mem_nil, or_false, or_assoc] at hb
    rcases hb with rfl | hb | rfl | hb | rfl | rfl | hb | rfl | rfl
    · decide
    · simpa using h.1 b hb
    · decide
    · exact asStr_ok op b hb
    · decide
    · decide
    · simpa using h.2 b (mem_escV hb)
    · decide
    · decide
  | not f ih =>
    intro h b hb
    simp only [inner, List.mem_cons, List.mem_append, List.not_mem_nil, or_false, or_assoc] at hb
    rcases hb with rfl | rfl | hb | rfl
    · decide
    · decide
    · exact ih (by simpa [hasForbidden, leaves] using h) b hb
    · decide
  | and fs ih =>
    intro h b hb
    rw [hasForbidden_and] at h
    simp only [inner, List.mem_cons, List.mem_append, List.not_mem_nil, or_false, or_assoc] at hb
    rcases hb with rfl | hb | rfl
    · decide
    · exact innerAnd_ok fs (fun f hf => ih f hf (h f hf)) true b hb
    · decide

theorem esc1_inner_ok {f : FilterType} (h : hasForbidden f = false) :
    ∀ b ∈ QUOTE :: esc1 (inner f) ++ [QUOTE], isForbidden b = false := by
  intro b hb
  simp only [List.mem_cons, List.mem_append, List.not_mem_nil, or_false, or_assoc] at hb
  rcases hb with rfl | hb | rfl
  · decide
  · rcases mem_esc1 hb with hb | rfl
    · exact inner_ok f h b hb
    · decide
  · decide

theorem not_zero_of_ok {b : UInt8} (h : isForbidden b = false) : b ≠ 0 := by
  rintro rfl; revert h; decide

/-! ## the property -/

/-- **C11 (partial: all filters outside the known-finding class K2).**  For every filter built
through the public API — any depth and width, any mix of NOT / AND, all five operators — with
MPD-readable tag names, whose values are arbitrary byte strings without `"` (single quotes,
backslashes, parentheses, `AND`, blanks, empty, non-ASCII, control bytes …) and without LF/NUL:

1. rendering does not panic and `add_argument` accepts the argument;
2. MPD's request tokenizer reads the sent line `find "<…>"` back as the command `find` with exactly
   one argument, `inner f` (first unescaping layer);
3. MPD's filter parser turns that argument into exactly `mirror f`: the same tags, operators and
   nesting, and byte-identical values (second unescaping layer), consuming all input. -/
theorem C11_partial (f : FilterType) (hb : Built f) (hw : wordTags f = true) (hk : K2 f = false)
    (hn : hasForbidden f = false) :
    ∃ r, Filter.render f = some r ∧
      Cmd.addRendered (str "find") r = (.ok (str "find" ++ SPACE :: r), str "find" ++ SPACE :: r) ∧
      tokenizeLine (str "find" ++ SPACE :: r) = some (str "find", [inner f]) ∧
      parseFilterTop (inner f) = some (mirror f) := by
  have hwf := C11_built_wf hb
  have hok := esc1_inner_ok hn
  refine ⟨QUOTE :: esc1 (inner f) ++ [QUOTE], ?_, ?_, ?_, ?_⟩
  · rw [Filter.render, renderType_eq f hwf hw hk]
  · exact addRendered_ok _ _ (firstForbidden_none hok)
  · have h0 : ∀ b ∈ esc1 (inner f), b ≠ 0 := fun b hb => not_zero_of_ok (hok b (by simp [hb]))
    have := tokenizeLine_find (esc1 (inner f)) h0
    rw [stringBody_esc1_end] at this
    simpa [params] using this
  · have h0 : ∀ b ∈ inner f, b ≠ 0 := fun b hb => not_zero_of_ok (inner_ok f hn b hb)
    obtain ⟨t, ht⟩ := inner_cons f
    have hp := parseExpr_inner f ((inner f).length + 1) [] hwf hw hk (by omega)
    rw [List.append_nil] at hp
    have hs : Spec.Filter.stripLeft [] = [] := rfl
    simp only [parseFilterTop, cstr_id h0, hp, hs]
    simp [ht]

/-! ### the same, on the bytes written by `Connection::send` -/

theorem splitLines_go_line (l acc : Bytes) (h : LF ∉ l) :
    splitLines.go (l ++ [LF]) acc = some [acc.reverse ++ l] := by
  induction l generalizing acc with
  | nil => simp [splitLines.go]
  | cons x xs ih =>
    have hx : (x == LF) = false := by
      apply beq_false_of_ne; rintro rfl; exact h (by simp)
    rw [List.cons_append, splitLines.go]
    simp [hx, ih (x :: acc) (fun hm => h (by simp [hm]))]

theorem tokenizeStream_line (l : Bytes) (h : LF ∉ l) : tokenizeStream (l ++ [LF]) = some [tokenizeLine l] := by
  have : splitLines (l ++ [LF]) = splitLines.go (l ++ [LF]) [] := by
    cases l <;> rfl
  simp [tokenizeStream, this, splitLines_go_line l [] h]

/-- `C11_partial` stated on the wire: the bytes `send` writes are one request line which the
server reads as `find` with the single argument `inner f`, and that argument parses to `mirror f` -/
theorem C11_partial_wire (f : FilterType) (hb : Built f) (hw : wordTags f = true) (hk : K2 f = false)
    (hn : hasForbidden f = false) :
    ∃ wire, sendFind f = .wrote wire ∧
      tokenizeStream wire = some [some (str "find", [inner f])] ∧
      parseFilterTop (inner f) = some (mirror f) := by
  obtain ⟨r, h1, h2, h3, h4⟩ := C11_partial f hb hw hk hn
  have hwf := C11_built_wf hb
  have hr : r = QUOTE :: esc1 (inner f) ++ [QUOTE] := by
    rw [Filter.render, renderType_eq f hwf hw hk] at h1
    exact (Option.some.inj h1).symm
  refine ⟨(str "find" ++ SPACE :: r) ++ [LF], ?_, ?_, h4⟩
  · simp [sendFind, h1, h2, Cmd.sendBytes]
  · have hlf : LF ∉ str "find" ++ SPACE :: r := by
      intro hm
      rw [hr, str_find] at hm
      simp only [List.mem_append, List.mem_cons, List.not_mem_nil, or_false, or_assoc] at hm
      rcases hm with h | h | h | h | h | h | h | h
      any_goals (revert h; decide)
      have := esc1_inner_ok hn LF (by simp [h])
      revert this; decide
    rw [tokenizeStream_line _ hlf, h3]

/-! ## AND: flattening is associativity -/

theorem mirrorList_append (x y : List FilterType) : mirrorList (x ++ y) = mirrorList x ++ mirrorList y := by
  simp [mirrorList_eq_map]

theorem conjunctsList_append (x y : List Expr) : conjunctsList (x ++ y) = conjunctsList x ++ conjunctsList y := by
  induction x with
  | nil => rfl
  | cons e es ih => simp [conjunctsList, ih]

theorem conjuncts_operands (a : FilterType) : conjunctsList (mirrorList (operands a)) = conjuncts (mirror a) := by
  cases a <;> simp [operands, mirror, mirrorList, conjuncts, conjunctsList]

/-- **same nesting up to associativity of AND**: `a.and(b)` denotes an AND node whose flattened
conjuncts are those of `a` followed by those of `b` — exactly the flattened conjuncts of the
logical conjunction `AND[a, b]`; whether an operand was itself a conjunction only changes the
bracketing -/
theorem C11_and_assoc (a b : FilterType) :
    (∃ es, mirror (Filter.and a b) = .and es) ∧
    conjuncts (mirror (Filter.and a b)) = conjuncts (mirror a) ++ conjuncts (mirror b) ∧
    conjuncts (mirror (Filter.and a b)) = conjuncts (.and [mirror a, mirror b]) := by
  have h : conjuncts (mirror (Filter.and a b)) = conjuncts (mirror a) ++ conjuncts (mirror b) := by
    rw [and_eq, mirror, conjuncts, mirrorList_append, conjunctsList_append, conjuncts_operands, conjuncts_operands]
  refine ⟨⟨_, by rw [and_eq, mirror]⟩, h, ?_⟩
  rw [h]; simp [conjuncts, conjunctsList]

/-- chains: `a.and(b).and(c)` and `a.and(b.and(c))` are the same filter -/
theorem C11_and_chain (a b c : FilterType) : Filter.and (Filter.and a b) c = Filter.and a (Filter.and b c) := by
  simp [and_eq, operands]

/-! ### whole call trees: the built filter denotes the logical expression modulo AND-associativity -/

/-- a sequence of calls of the public API, as a syntax tree -/
inductive Call where
  | new (t : Tag) (op : Operator) (v : Bytes)
  | negate (c : Call)
  | and (a b : Call)

/-- what the calls build (model of `filter.rs`) -/
def Call.build : Call → FilterType
  | .new t op v => Filter.new t op v
  | .negate c => Filter.negate c.build
  | .and a b => Filter.and a.build b.build

/-- what the calls *mean*: `a.and(b)` is the binary conjunction of the two meanings, no flattening -/
def Call.denote : Call → Expr
  | .new t op v => .tag t.name (specOp op) v
  | .negate c => .not c.denote
  | .and a b => .and [a.denote, b.denote]

theorem Call.built (c : Call) : Built c.build := by
  induction c with
  | new t op v => exact .new t op v
  | negate c ih => exact .negate ih
  | and a b iha ihb => exact .and iha ihb

theorem normConj_append (x y : List Expr) : Expr.normConj (x ++ y) = Expr.normConj x ++ Expr.normConj y := by
  induction x with
  | nil => rfl
  | cons e es ih => cases e <;> simp [Expr.normConj, ih]

/-- the conjuncts an expression contributes to an enclosing AND, from its normal form -/
def unAnd : Expr → List Expr
  | .and es => es
  | e => [e]

theorem normConj_single (e : Expr) : Expr.normConj [e] = unAnd e.norm := by
  cases e <;> simp [Expr.normConj, Expr.norm, unAnd]

theorem normConj_operands (a : FilterType) : Expr.normConj (mirrorList (operands a)) = unAnd (mirror a).norm := by
  cases a with
  | tag t op v => simp [operands, mirrorList, normConj_single]
  | not f => simp [operands, mirrorList, normConj_single]
  | and fs => simp [operands, mirror, Expr.norm, unAnd]

/-- **same nesting up to associativity of AND, for whole trees**: for every tree of API calls
(any bracketing of `and` chains, any mix with `negate`), the filter that is built denotes the
logical expression of the calls once nested ANDs are flattened on both sides (`Expr.norm`) -/
theorem C11_denotes (c : Call) : (mirror c.build).norm = c.denote.norm := by
  induction c with
  | new t op v => rfl
  | negate c ih => simp [Call.build, Call.denote, Filter.negate, mirror, Expr.norm, ih]
  | and a b iha ihb =>
    have h2 : Expr.normConj [a.denote, b.denote] = Expr.normConj [a.denote] ++ Expr.normConj [b.denote] :=
      normConj_append [a.denote] [b.denote]
    simp only [Call.build, Call.denote, and_eq, mirror, Expr.norm, mirrorList_append, normConj_append,
      normConj_operands, iha, ihb, h2, normConj_single]

/-! ## shorthands -/

/-- `Filter::tag_exists(t)` reaches the server as `(t != "")` -/
theorem C11_tag_exists (t : Tag) : mirror (Filter.tagExists t) = .tag t.name .notEqual [] := rfl
/-- `Filter::tag_absent(t)` reaches the server as `(t == "")` -/
theorem C11_tag_absent (t : Tag) : mirror (Filter.tagAbsent t) = .tag t.name .equal [] := rfl
/-- `Filter::tag(t, v)` reaches the server as `(t == "v")` -/
theorem C11_tag_eq (t : Tag) (v : Bytes) : mirror (Filter.tag t v) = .tag t.name .equal v := rfl

/-- the shorthands are covered by `C11_partial` for every MPD-readable tag name -/
theorem C11_shorthands (t : Tag) (hw : isWordTag t.name = true) :
    (∃ wire, sendFind (Filter.tagExists t) = .wrote wire ∧
      ∃ arg, tokenizeStream wire = some [some (str "find", [arg])] ∧
        parseFilterTop arg = some (.tag t.name .notEqual [])) ∧
    (∃ wire, sendFind (Filter.tagAbsent t) = .wrote wire ∧
      ∃ arg, tokenizeStream wire = some [some (str "find", [arg])] ∧
        parseFilterTop arg = some (.tag t.name .equal [])) := by
  have hword : isWord t.name = true := by
    simp only [isWordTag, Bool.and_eq_true] at hw; exact hw.1
  have hname : t.name.any isForbidden = false := by
    rw [List.any_eq_false]
    intro b hb
    obtain ⟨h1, h2⟩ : b ≠ BSLASH ∧ b ≠ QUOTE := isWord_plain hword b hb
    cases n : t.name with
    | nil => simp [n] at hb
    | cons x xs =>
      rw [n] at hword hb
      simp only [isWord, Bool.and_eq_true, List.all_eq_true] at hword
      have : isTagChar b = true := by
        simp only [List.mem_cons] at hb
        rcases hb with rfl | hb
        · simp [isTagChar, hword.1]
        · exact hword.2 b hb
      intro hf
      simp only [isForbidden, Bool.or_eq_true, beq_iff_eq] at hf
      rcases hf with rfl | rfl <;> (revert this; decide)
  constructor
  · obtain ⟨w, h1, h2, h3⟩ := C11_partial_wire (Filter.tagExists t) (Built.tagExists t)
      (by simp [wordTags, leaves, Filter.tagExists, Filter.new, hw])
      (by simp [K2, leaves, Filter.tagExists, Filter.new, TAG_IS_ABSENT])
      (by simp [hasForbidden, leaves, Filter.tagExists, Filter.new, TAG_IS_ABSENT, hname])
    exact ⟨w, h1, _, h2, h3⟩
  · obtain ⟨w, h1, h2, h3⟩ := C11_partial_wire (Filter.tagAbsent t) (Built.tagAbsent t)
      (by simp [wordTags, leaves, Filter.tagAbsent, Filter.new, hw])
      (by simp [K2, leaves, Filter.tagAbsent, Filter.new, TAG_IS_ABSENT])
      (by simp [hasForbidden, leaves, Filter.tagAbsent, Filter.new, TAG_IS_ABSENT, hname])
    exact ⟨w, h1, _, h2, h3⟩

/-- every named `Tag` variant, `Tag::any()` and `file` are MPD-readable tag names -/
theorem C11_named_wordTag (v : TagV) : isWordTag (Tag.named v).name = true := by
  cases v <;> decide
theorem C11_any_file_wordTag : isWordTag (Tag.other (str "any")).name = true ∧
    isWordTag (Tag.other (str "file")).name = true := by decide

/-! ## known finding K2: a value containing `"` -/

/-- `NextString` closed the string before the end of the line -/
def Early (s : Bytes) : Prop := ∀ v rest, stringBody s = some (v, rest) → rest ≠ []

/-- whatever follows (ending in a non-blank, e.g. the argument's closing quote) -/
def EarlyK (r : Bytes) : Prop := ∀ (k : Bytes) (c : UInt8), Spec.Tok.isWs c = false → Early (r ++ k ++ [c])

theorem early_of_map {s X : Bytes} {g : Bytes → Bytes}
    (h : stringBody s = (stringBody X).map fun p => (g p.1, p.2)) (hX : Early X) : Early s := by
  intro v rest hs
  rw [h] at hs
  cases hx : stringBody X with
  | none => simp [hx] at hs
  | some p =>
    obtain ⟨v', rest'⟩ := p
    simp only [hx, Option.map_some, Option.some.injEq, Prod.mk.injEq] at hs
    exact hs.2 ▸ hX v' rest' hx

theorem early_esc1 (a : Bytes) {X : Bytes} (h : Early X) : Early (esc1 a ++ X) :=
  early_of_map (stringBody_esc1 a X) h

theorem tok_stripLeft_snoc_ne (l : Bytes) {c : UInt8} (hc : Spec.Tok.isWs c = false) :
    Spec.Tok.stripLeft (l ++ [c]) ≠ [] := by
  induction l with
  | nil => simp [Spec.Tok.stripLeft, hc]
  | cons x xs ih =>
    rw [List.cons_append, Spec.Tok.stripLeft]
    split
    · exact ih
    · simp

theorem early_quote (t : Bytes) {c : UInt8} (hc : Spec.Tok.isWs c = false) : Early (QUOTE :: (t ++ [c])) := by
  intro v rest hs
  cases ht : t ++ [c] with
  | nil => simp at ht
  | cons d ds =>
    rw [ht, stringBody_quote_more] at hs
    split at hs
    · simp only [Option.some.injEq, Prod.mk.injEq] at hs
      rw [← hs.2, ← ht]
      exact tok_stripLeft_snoc_ne t hc
    · simp at hs

theorem exists_first_quote {v : Bytes} (h : QUOTE ∈ v) : ∃ a b, v = a ++ QUOTE :: b ∧ QUOTE ∉ a := by
  induction v with
  | nil => simp at h
  | cons x xs ih =>
    by_cases hx : x = QUOTE
    · exact ⟨[], xs, by simp [hx], by simp⟩
    · have : QUOTE ∈ xs := by
        simp only [List.mem_cons] at h
        rcases h with h | h
        · exact absurd h.symm hx
        · exact h
      obtain ⟨a, b, hv, ha⟩ := ih this
      exact ⟨x :: a, b, by simp [hv], by simp [ha, Ne.symm hx]⟩

/-- a single `Tag` node whose value contains `"`: the tokenizer's string ends at the first one -/
theorem earlyK_tag (t : Tag) (op : Operator) {v : Bytes} (hw : isWord t.name = true) (hq : QUOTE ∈ v) :
    ∀ r, renderType (.tag t op v) = some r → EarlyK r := by
  intro r hr k c hc
  obtain ⟨a, b, hv, ha⟩ := exists_first_quote hq
  have hlp : Spec.Filter.LPAREN ≠ BSLASH ∧ Spec.Filter.LPAREN ≠ QUOTE := by decide
  have hsp : SPACE ≠ BSLASH ∧ SPACE ≠ QUOTE := by decide
  have e : r ++ k ++ [c] =
      esc1 (Spec.Filter.LPAREN :: t.name ++ SPACE :: op.asStr ++ SPACE :: QUOTE :: escV a) ++
        BSLASH :: BSLASH :: QUOTE :: ((escapeFilterValue b ++ [BSLASH, QUOTE, Filter.RPAREN] ++ k) ++ [c]) := by
    rw [renderType, hv, escapeFilterValue_quote ha] at hr
    rw [← Option.some.inj hr]
    simp only [esc1_append, esc1_cons_plain hlp.1 hlp.2, esc1_cons_plain hsp.1 hsp.2, esc1_cons_quote,
      esc1_id (isWord_plain hw), esc1_asStr, LPAREN_eq]
    simp
  rw [e]
  apply early_esc1
  exact early_of_map (stringBody_bslash _ _) (early_quote _ hc)

theorem earlyK_list (fs : List FilterType)
    (hwf : ∀ g ∈ fs, wf g = true) (hw : ∀ g ∈ fs, wordTags g = true)
    (ih : ∀ g ∈ fs, K2 g = true → ∀ r, renderType g = some r → EarlyK r)
    (hk : ∃ g ∈ fs, K2 g = true) :
    ∀ first r, renderAnd fs first = some r → EarlyK r := by
  induction fs with
  | nil => simp at hk
  | cons g gs ihl =>
    intro first r hr k c hc
    rw [renderAnd] at hr
    cases ha : renderType g with
    | none => simp [ha] at hr
    | some a =>
      cases hb : renderAnd gs false with
      | none => simp [ha, hb] at hr
      | some b =>
        simp only [ha, hb, Option.some.injEq] at hr
        have hsep : (if first = true then [] else str " AND ") = esc1 (if first = true then [] else str " AND ") := by
          cases first <;> decide
        by_cases hg : K2 g = true
        · have := ih g (by simp) hg a ha (b ++ k) c hc
          have e : r ++ k ++ [c] = esc1 (if first = true then [] else str " AND ") ++ (a ++ (b ++ k) ++ [c]) := by
            rw [← hr, ← hsep]; simp
          rw [e]
          exact early_esc1 _ this
        · have hg' : K2 g = false := by simpa using hg
          have hgs : ∃ g' ∈ gs, K2 g' = true := by
            obtain ⟨g', hm, hk'⟩ := hk
            simp only [List.mem_cons] at hm
            rcases hm with rfl | hm
            · exact absurd hk' hg
            · exact ⟨g', hm, hk'⟩
          have hb' := ihl (fun x hx => hwf x (by simp [hx])) (fun x hx => hw x (by simp [hx]))
            (fun x hx => ih x (by simp [hx])) hgs false b hb k c hc
          have ea : a = esc1 (inner g) := by
            have := renderType_eq g (hwf g (by simp)) (hw g (by simp)) hg'
            rw [ha] at this
            exact Option.some.inj this
          have e : r ++ k ++ [c] = esc1 ((if first = true then [] else str " AND ") ++ inner g) ++ (b ++ k ++ [c]) := by
            rw [← hr, ea, esc1_append, ← hsep]; simp
          rw [e]
          exact early_esc1 _ hb'

/-- in any built tree with a `"` in some value the tokenizer's string ends early -/
theorem earlyK_render : ∀ (f : FilterType), wf f = true → wordTags f = true → K2 f = true →
    ∀ r, renderType f = some r → EarlyK r := by
  intro f
  induction f using FilterType.induct with
  | tag t op v =>
    intro _ hw hk
    simp only [wordTags, leaves, List.all_cons, List.all_nil, Bool.and_true, isWordTag, Bool.and_eq_true] at hw
    exact earlyK_tag t op hw.1 (by simpa [K2, leaves] using hk)
  | not f ih =>
    intro hwf hw hk r hr k c hc
    rw [renderType] at hr
    cases ha : renderType f with
    | none => simp [ha] at hr
    | some a =>
      simp only [ha, Option.some.injEq] at hr
      have := ih (by simpa [wf] using hwf) (by simpa [wordTags, leaves] using hw)
        (by simpa [K2, leaves] using hk) a ha (Filter.RPAREN :: k) c hc
      have e : r ++ k ++ [c] = esc1 (str "(!") ++ (a ++ (Filter.RPAREN :: k) ++ [c]) := by
        rw [← hr, show esc1 (str "(!") = str "(!" by decide]; simp
      rw [e]
      exact early_esc1 _ this
  | and fs ih =>
    intro hwf hw hk r hr k c hc
    simp only [wf, Bool.and_eq_true, decide_eq_true_eq, wfList_iff] at hwf
    rw [wordTags_and] at hw
    have hk' : ∃ g ∈ fs, K2 g = true := by
      apply Classical.byContradiction
      intro hne
      have : K2 (.and fs) = false := (K2_and fs).2 (fun g hg => by
        cases hkg : K2 g with
        | false => rfl
        | true => exact absurd ⟨g, hg, hkg⟩ hne)
      rw [hk] at this; exact Bool.noConfusion this
    rw [renderType] at hr
    have hlen : ¬ fs.length < 2 := by omega
    simp only [hlen, if_false] at hr
    cases ha : renderAnd fs true with
    | none => simp [ha] at hr
    | some a =>
      simp only [ha, Option.some.injEq] at hr
      have := earlyK_list fs (fun g hg => (hwf.2 g hg).1) hw
        (fun g hg hkg => ih g hg (hwf.2 g hg).1 (hw g hg) hkg) hk' true a ha (Filter.RPAREN :: k) c hc
      have e : r ++ k ++ [c] = esc1 [Filter.LPAREN] ++ (a ++ (Filter.RPAREN :: k) ++ [c]) := by
        rw [← hr, show esc1 [Filter.LPAREN] = [Filter.LPAREN] by decide]; simp
      rw [e]
      exact early_esc1 _ this

theorem mem_replaceByte {b x : UInt8} {rep v : Bytes} (h : b ∈ replaceByte x rep v) : b ∈ v ∨ b ∈ rep := by
  induction v with
  | nil => simp [replaceByte] at h
  | cons y ys ih =>
    rw [replaceByte] at h
    split at h
    · simp only [List.mem_append] at h
      rcases h with h | h
      · exact .inr h
      · exact (ih h).imp (fun m => by simp [m]) id
    · simp only [List.mem_cons] at h
      rcases h with h | h
      · exact .inl (by simp [h])
      · exact (ih h).imp (fun m => by simp [m]) id

theorem mem_escapeFilterValue {b : UInt8} {v : Bytes} (h : b ∈ escapeFilterValue v) :
    b ∈ v ∨ b = BSLASH ∨ b = QUOTE := by
  rw [escapeFilterValue_eq] at h
  rcases mem_replaceByte h with h | h
  · rcases mem_replaceByte h with h | h
    · exact .inl h
    · simp only [List.mem_cons, List.not_mem_nil, or_false, or_self] at h
      exact .inr (.inl h)
  · simp only [List.mem_cons, List.not_mem_nil, or_false] at h
    rcases h with h | h | h
    · exact .inr (.inl h)
    · exact .inr (.inl h)
    · exact .inr (.inr h)

theorem renderAnd_ok (fs : List FilterType)
    (h : ∀ f ∈ fs, ∀ r, renderType f = some r → ∀ b ∈ r, isForbidden b = false) :
    ∀ first r, renderAnd fs first = some r → ∀ b ∈ r, isForbidden b = false := by
  induction fs with
  | nil => intro first r hr; simp only [renderAnd, Option.some.injEq] at hr; simp [← hr]
  | cons g gs ih =>
    intro first r hr b hb
    rw [renderAnd] at hr
    cases ha : renderType g with
    | none => simp [ha] at hr
    | some a =>
      cases hb' : renderAnd gs false with
      | none => simp [ha, hb'] at hr
      | some bb =>
        simp only [ha, hb', Option.some.injEq] at hr
        rw [← hr] at hb
        simp only [List.mem_append] at hb
        rcases hb with (hb | hb) | hb
        · cases first
          · revert b; decide
          · simp at hb
        · exact h g (by simp) a ha b hb
        · exact ih (fun x hx => h x (by simp [hx])) false bb hb' b hb

/-- no LF / NUL in tag names and values ⇒ none in the rendered expression (any values) -/
theorem render_ok : ∀ (f : FilterType), hasForbidden f = false →
    ∀ r, renderType f = some r → ∀ b ∈ r, isForbidden b = false := by
  intro f
  induction f using FilterType.induct with
  | tag t op v =>
    intro h r hr b hb
    simp only [hasForbidden, leaves, List.any_cons, List.any_nil, Bool.or_false, Bool.or_eq_false_iff,
      List.any_eq_false] at h
    rw [renderType] at hr
    rw [← Option.some.inj hr] at hb
    simp only [List.mem_cons, List.mem_append, List.not_mem_nil, or_false, or_assoc] at hb
    rcases hb with rfl | hb | rfl | hb | rfl | rfl | rfl | hb | rfl | rfl | rfl
    · decide
    · simpa using h.1 b hb
    · decide
    · exact asStr_ok op b hb
    · decide
    · decide
    · decide
    · rcases mem_escapeFilterValue hb with hb | rfl | rfl
      · simpa using h.2 b hb
      · decide
      · decide
    · decide
    · decide
    · decide
  | not f ih =>
    intro h r hr b hb
    rw [renderType] at hr
    cases ha : renderType f with
    | none => simp [ha] at hr
    | some a =>
      simp only [ha, Option.some.injEq] at hr
      rw [← hr, str_open_not] at hb
      simp only [List.mem_cons, List.mem_append, List.not_mem_nil, or_false, or_assoc] at hb
      rcases hb with rfl | rfl | hb | rfl
      · decide
      · decide
      · exact ih (by simpa [hasForbidden, leaves] using h) a ha b hb
      · decide
  | and fs ih =>
    intro h r hr b hb
    rw [hasForbidden_and] at h
    rw [renderType] at hr
    split at hr
    · simp at hr
    · cases ha : renderAnd fs true with
      | none => simp [ha] at hr
      | some a =>
        simp only [ha, Option.some.injEq] at hr
        rw [← hr] at hb
        simp only [List.mem_cons, List.mem_append, List.not_mem_nil, or_false, or_assoc] at hb
        rcases hb with rfl | hb | rfl
        · decide
        · exact renderAnd_ok fs (fun f hf => ih f hf (h f hf)) true a ha b hb
        · decide

theorem params_ne_nil (n : Nat) {rest : Bytes} (h : rest ≠ []) :
    params n rest = none ∨ ∃ a as, params n rest = some (a :: as) := by
  cases rest with
  | nil => exact absurd rfl h
  | cons b bs =>
    cases n with
    | zero => exact .inl rfl
    | succ n =>
      rw [params]
      cases nextParam (b :: bs) with
      | none => exact .inl rfl
      | some p =>
        obtain ⟨a, r⟩ := p
        cases hp : params n r with
        | none => exact .inl (by simp [hp])
        | some as => exact .inr ⟨a, as, by simp [hp]⟩

/-- **C11 fails exactly on K2** (known finding, not fixable without editing the pinned test
`filter_escaping`).  For *every* filter built through the public API with MPD-readable tags in
which some value contains a double quote: rendering and `add_argument` succeed, the line is sent,
and MPD's tokenizer closes the quoted argument at the first such `"` (rendered `\\"`: an escaped
backslash, then a bare quote).  The server therefore either rejects the request line or sees at
least two arguments — never the one-argument `find` that was built. -/
theorem C11_K2_fails (f : FilterType) (hb : Built f) (hw : wordTags f = true) (hn : hasForbidden f = false)
    (hk : K2 f = true) :
    ∃ r, Filter.render f = some r ∧
      Cmd.addRendered (str "find") r = (.ok (str "find" ++ SPACE :: r), str "find" ++ SPACE :: r) ∧
      (tokenizeLine (str "find" ++ SPACE :: r) = none ∨
        ∃ a b rest, tokenizeLine (str "find" ++ SPACE :: r) = some (str "find", a :: b :: rest)) := by
  have hwf := C11_built_wf hb
  obtain ⟨e, he⟩ := wf_render f hwf
  have hok := render_ok f hn e he
  have hall : ∀ b ∈ QUOTE :: e ++ [QUOTE], isForbidden b = false := by
    intro b hb
    simp only [List.mem_cons, List.mem_append, List.not_mem_nil, or_false, or_assoc] at hb
    rcases hb with rfl | hb | rfl
    · decide
    · exact hok b hb
    · decide
  refine ⟨QUOTE :: e ++ [QUOTE], by rw [Filter.render, he], addRendered_ok _ _ (firstForbidden_none hall), ?_⟩
  have hearly := earlyK_render f hwf hw hk e he [] QUOTE (by decide)
  rw [List.append_nil] at hearly
  have e1 : str "find" ++ SPACE :: (QUOTE :: e ++ [QUOTE]) = str "find" ++ SPACE :: QUOTE :: e ++ [QUOTE] := by simp
  rw [e1, tokenizeLine_find e (fun b hb => not_zero_of_ok (hok b hb))]
  cases hs : stringBody (e ++ [QUOTE]) with
  | none => exact .inl rfl
  | some p =>
    obtain ⟨a, rest⟩ := p
    rcases params_ne_nil (e.length + 2) (hearly a rest hs) with h | ⟨b, as, h⟩
    · exact .inl (by simp [h])
    · exact .inr ⟨a, b, as, by simp [h]⟩

/-- in particular the server never sees the built expression -/
theorem C11_K2_never_mirror (f : FilterType) (hb : Built f) (hw : wordTags f = true)
    (hn : hasForbidden f = false) (hk : K2 f = true) :
    ∃ wire, sendFind f = .wrote wire ∧
      ¬ ∃ arg, tokenizeStream wire = some [some (str "find", [arg])] := by
  obtain ⟨r, h1, h2, h3⟩ := C11_K2_fails f hb hw hn hk
  refine ⟨(str "find" ++ SPACE :: r) ++ [LF], by simp [sendFind, h1, h2, Cmd.sendBytes], ?_⟩
  have hlf : LF ∉ str "find" ++ SPACE :: r := by
    intro hm
    have hwf := C11_built_wf hb
    obtain ⟨e, he⟩ := wf_render f hwf
    rw [Filter.render, he] at h1
    rw [← Option.some.inj h1, str_find] at hm
    simp only [List.mem_append, List.mem_cons, List.not_mem_nil, or_false, or_assoc] at hm
    rcases hm with h | h | h | h | h | h | h | h
    any_goals (revert h; decide)
    have := render_ok f hn e he LF h
    revert this; decide
  rw [tokenizeStream_line _ hlf]
  rintro ⟨arg, harg⟩
  simp only [Option.some.injEq, List.cons.injEq, and_true] at harg
  rcases h3 with h | ⟨a, b, rest, h⟩
  · rw [h] at harg; simp at harg
  · rw [h] at harg; simp at harg

/-! ## LF / NUL: nothing is sent -/

theorem mem_replaceByte_of_ne {b x : UInt8} {rep v : Bytes} (h : b ∈ v) (hx : b ≠ x) : b ∈ replaceByte x rep v := by
  induction v with
  | nil => simp at h
  | cons y ys ih =>
    rw [replaceByte]
    simp only [List.mem_cons] at h
    split
    · rename_i hy
      have hy' : y = x := by simpa using hy
      rcases h with h | h
      · exact absurd (h.trans hy') hx
      · simp [ih h]
    · rcases h with h | h
      · simp [h]
      · simp [ih h]

theorem forbidden_plain {b : UInt8} (h : isForbidden b = true) : b ≠ BSLASH ∧ b ≠ QUOTE := by
  constructor <;> (rintro rfl; revert h; decide)

theorem renderAnd_sub {f : FilterType} {fs : List FilterType} (hf : f ∈ fs) :
    ∀ first r, renderAnd fs first = some r → ∃ a, renderType f = some a ∧ ∀ b ∈ a, b ∈ r := by
  induction fs with
  | nil => simp at hf
  | cons g gs ih =>
    intro first r hr
    rw [renderAnd] at hr
    cases ha : renderType g with
    | none => simp [ha] at hr
    | some a =>
      cases hb' : renderAnd gs false with
      | none => simp [ha, hb'] at hr
      | some bb =>
        simp only [ha, hb', Option.some.injEq] at hr
        simp only [List.mem_cons] at hf
        rcases hf with rfl | hf
        · exact ⟨a, ha, fun b hb => by rw [← hr]; simp [hb]⟩
        · obtain ⟨a', ha', hsub⟩ := ih hf false bb hb'
          exact ⟨a', ha', fun b hb => by rw [← hr]; simp [hsub b hb]⟩

/-- a forbidden byte in a tag name or value shows up in the rendered expression -/
theorem render_has_forbidden : ∀ (f : FilterType), hasForbidden f = true →
    ∀ r, renderType f = some r → ∃ b ∈ r, isForbidden b = true := by
  intro f
  induction f using FilterType.induct with
  | tag t op v =>
    intro h r hr
    simp only [hasForbidden, leaves, List.any_cons, List.any_nil, Bool.or_false, Bool.or_eq_true,
      List.any_eq_true] at h
    rw [renderType] at hr
    rcases h with ⟨b, hb, hf⟩ | ⟨b, hb, hf⟩
    · exact ⟨b, by rw [← Option.some.inj hr]; simp [hb], hf⟩
    · obtain ⟨h1, h2⟩ := forbidden_plain hf
      have : b ∈ escapeFilterValue v := by
        rw [escapeFilterValue_eq]
        exact mem_replaceByte_of_ne (mem_replaceByte_of_ne hb h1) h2
      exact ⟨b, by rw [← Option.some.inj hr]; simp [this], hf⟩
  | not f ih =>
    intro h r hr
    rw [renderType] at hr
    cases ha : renderType f with
    | none => simp [ha] at hr
    | some a =>
      simp only [ha, Option.some.injEq] at hr
      obtain ⟨b, hb, hf⟩ := ih (by simpa [hasForbidden, leaves] using h) a ha
      exact ⟨b, by rw [← hr]; simp [hb], hf⟩
  | and fs ih =>
    intro h r hr
    have : ∃ g ∈ fs, hasForbidden g = true := by
      apply Classical.byContradiction
      intro hne
      have : hasForbidden (.and fs) = false := (hasForbidden_and fs).2 (fun g hg => by
        cases hkg : hasForbidden g with
        | false => rfl
        | true => exact absurd ⟨g, hg, hkg⟩ hne)
      rw [h] at this; exact Bool.noConfusion this
    obtain ⟨g, hg, hfg⟩ := this
    rw [renderType] at hr
    split at hr
    · simp at hr
    · cases ha : renderAnd fs true with
      | none => simp [ha] at hr
      | some a =>
        simp only [ha, Option.some.injEq] at hr
        obtain ⟨ag, hag, hsub⟩ := renderAnd_sub hg true a ha
        obtain ⟨b, hb, hf⟩ := ih g hg hfg ag hag
        exact ⟨b, by rw [← hr]; simp [hsub b hb], hf⟩

/-- **LF / NUL**: if a value (or a hand-built tag name) contains a line feed or a NUL byte,
`Command::add_argument` rejects the filter, the command buffer is left as it was and nothing
reaches the server (`Command::argument`, the chaining variant, would panic instead — it is
documented to) -/
theorem C11_lf_nul_rejected (f : FilterType) (hb : Built f) (hn : hasForbidden f = true) :
    ∃ r i, Filter.render f = some r ∧
      Cmd.addRendered (str "find") r = (.error (.invalidChar i), str "find") ∧
      sendFind f = .rejected := by
  obtain ⟨e, he⟩ := wf_render f (C11_built_wf hb)
  obtain ⟨b, hbe, hf⟩ := render_has_forbidden f hn e he
  obtain ⟨i, hi⟩ := firstForbidden_some (r := QUOTE :: e ++ [QUOTE]) (b := b) (by simp [hbe]) hf
  have h1 : Filter.render f = some (QUOTE :: e ++ [QUOTE]) := by rw [Filter.render, he]
  have h2 := addRendered_err (str "find") (QUOTE :: e ++ [QUOTE]) hi
  exact ⟨_, i, h1, h2, by rw [sendFind, h1]; simp only [h2]⟩

/-! ## non-vacuity and concrete witnesses -/

/-- NOT of an AND of three (built as a chain, so flattening is exercised) AND a fourth node;
values with backslashes, single quotes, parentheses, ` AND `, blanks, empty (`tag_exists`),
non-ASCII bytes (`é 日`); all of `contains`, `!=`, `!~`, `==` -/
def exBig : FilterType :=
  Filter.and
    (Filter.negate
      (Filter.and
        (Filter.and (Filter.new (.named .Artist) .contain (str "a\\b 'c' (d) AND e\\"))
          (Filter.tagExists (.named .Album)))
        (Filter.new (.other (str "any")) .notMatch [0xc3, 0xa9, 0x20, 0xe6, 0x97, 0xa5])))
    (Filter.tag (.named .Title) (str "  \\\\ \\' ) AND ( "))

example : Built exBig :=
  .and (.negate (.and (.and (.new _ _ _) (Built.tagExists _)) (.new _ _ _))) (Built.tag _ _)
example : wordTags exBig = true ∧ K2 exBig = false ∧ hasForbidden exBig = false := by decide
/-- the hypotheses of `C11_partial` are satisfiable on it, and its conclusion can be *computed*:
model rendering → specification tokenizer → specification filter parser gives the mirror -/
example : (match sendFind exBig with
    | .wrote w =>
      match tokenizeStream w with
      | some [some (_, [arg])] => (parseFilterTop arg).map (Expr.beq (mirror exBig))
      | _ => none
    | _ => none) = some true := by decide +kernel
/-- as a call tree: left chain inside the NOT; `C11_denotes` applies -/
example : exBig = (Call.and (.negate (.and (.and (.new (.named .Artist) .contain (str "a\\b 'c' (d) AND e\\"))
    (.new (.named .Album) .notEqual [])) (.new (.other (str "any")) .notMatch [0xc3, 0xa9, 0x20, 0xe6, 0x97, 0xa5])))
    (.new (.named .Title) .equal (str "  \\\\ \\' ) AND ( "))).build := rfl
example : mirror exBig = .and [.not (.and [.tag (str "Artist") .contain (str "a\\b 'c' (d) AND e\\"),
    .tag (str "Album") .notEqual [], .tag (str "any") .notMatches [0xc3, 0xa9, 0x20, 0xe6, 0x97, 0xa5]]),
    .tag (str "Title") .equal (str "  \\\\ \\' ) AND ( ")] := rfl

/-- the repo's own test vectors (`filter_and_multiple`, `filter_not`, `filter_other_operator`) -/
example : Filter.render (Filter.and (Filter.and (Filter.tag (.named .Artist) (str "hello"))
    (Filter.tag (.named .Album) (str "world"))) (Filter.tag (.named .Title) (str "foo"))) =
    some (str "\"((Artist == \\\"hello\\\") AND (Album == \\\"world\\\") AND (Title == \\\"foo\\\"))\"") := by
  decide
example : Filter.render (Filter.negate (Filter.tag (.named .Artist) (str "hello"))) =
    some (str "\"(!(Artist == \\\"hello\\\"))\"") := by decide
example : Filter.render (Filter.new (.named .Artist) .contain (str "mep mep")) =
    some (str "\"(Artist contains \\\"mep mep\\\")\"") := by decide
/-- F9: a backslash in a value is written as four backslashes -/
example : Filter.render (Filter.tag (.named .Artist) (str "a\\b")) =
    some (str "\"(Artist == \\\"a\\\\\\\\b\\\")\"") := by decide

/-- K2 witness, the value `foo"bar`; first the pinned rendering of the repo's test `filter_escaping` -/
example : Filter.render (Filter.tag (.named .Artist) (str "foo's bar\"")) =
    some (str "\"(Artist == \\\"foo's bar\\\\\"\\\")\"") := by decide
def exK2 : FilterType := Filter.tag (.named .Artist) (str "foo\"bar")
example : Built exK2 ∧ wordTags exK2 = true ∧ hasForbidden exK2 = false ∧ K2 exK2 = true :=
  ⟨Built.tag _ _, by decide, by decide, by decide⟩
example : sendFind exK2 = .wrote (str "find \"(Artist == \\\"foo\\\\\"bar\\\")\"\n") := by decide
/-- MPD rejects that request line ("Space expected after closing '\"'") -/
example : tokenizeStream (str "find \"(Artist == \\\"foo\\\\\"bar\\\")\"\n") = some [none] := by decide +kernel
/-- with *three* backslashes before the quote the server would read the value back -/
example : tokenizeStream (str "find \"(Artist == \\\"foo\\\\\\\"bar\\\")\"\n") =
    some [some (str "find", [str "(Artist == \"foo\\\"bar\")"])] := by decide +kernel
example : (parseFilterTop (str "(Artist == \"foo\\\"bar\")")).map
    (Expr.beq (.tag (str "Artist") .equal (str "foo\"bar"))) = some true := by decide +kernel
/-- a K2 value followed by a blank: the tokenizer accepts the early close and then fails on the rest -/
example : tokenizeStream (match sendFind (Filter.tag (.named .Artist) (str "a\" b")) with
    | .wrote w => w | _ => []) = some [none] := by decide +kernel

/-- LF / NUL witnesses -/
example : sendFind (Filter.tag (.named .Artist) (str "a\nb")) = .rejected := by decide
example : sendFind (Filter.negate (Filter.tag (.named .Artist) [97, 0])) = .rejected := by decide
example : Built (Filter.tag (.named .Artist) (str "a\nb")) ∧
    hasForbidden (Filter.tag (.named .Artist) (str "a\nb")) = true := ⟨Built.tag _ _, by decide⟩

/-- the `assert!` branch exists in the model (hand-made values the public API cannot build) -/
example : Filter.render (.and [Filter.tag (.named .Artist) (str "x")]) = none := by decide
example : Filter.render (.and []) = none := by decide
example : wf (.and [Filter.tag (.named .Artist) (str "x")]) = false := by decide

/-- tags outside `wordTags`: MPD's special filter types and non-words -/
example : isWordTag (str "base") = false ∧ isWordTag (str "AudioFormat") = false ∧
    isWordTag (str "_foo") = false ∧ isWordTag (str "a b") = false ∧ isWordTag (str "MUSICBRAINZ_WORKID") = true ∧
    isWordTag (str "modified-since") = false ∧ isWordTag (str "x-y_z") = true := by decide

/-! ## `escape_filter_value` uses `str::replace` on chars: the bytewise model agrees on every string -/

theorem C11_value_escape_is_charwise (cs : List Nat) (h : ∀ c ∈ cs, Utf8.isScalar c = true) :
    escapeFilterValue (Utf8.encodeStr cs) = Utf8.encodeStr (Utf8.escapeFilterValueC cs) :=
  Utf8.escapeFilterValue_encode cs (Utf8.chars_of_scalar cs h)

end Mpd.C11
