import MpdProofs.Lemmas.Records
import MpdProofs.C20
import Mpd.Typed.Seq
import Mpd.Typed.CmdList
import MpdSpec.Names
/-!
# C12 (the half of package `typed`) — typed conversion never panics

For every decoder other than the song listings, every accessor, and typed command lists:
the outcome is a value or a typed-response error, never `panic` — for every frame the protocol
parser can produce (`ParserFrame`: keys non-empty over `Spec.fieldNameChar`), whatever the values,
numeric magnitudes, duplicates, binary part or frame count.

The partial operations of the Rust are explicit `panic` branches of the model:
`Tag::try_from(key).unwrap()` in `List::from_frame` (needs the parser's key alphabet — and is
shown to be LIVE outside it), `songs.unwrap()`/`playtime.unwrap()` in `build_grouped_values`
(unreachable because of the loop condition). `parse_duration` (F2), the grouped-list iterator
(F3) and typed command lists (F4) have no panic branch left: the model mirrors the fixed code, and
the correspondence run is what ties that to the implementation.
-/
namespace Mpd.C12
open Mpd Mpd.Typed

/-! ## record decoders (field-extraction programs) -/

/-- no leaf of the program is a panic -/
inductive Safe {α} : Prog α → Prop where
  | ret (o : Outcome α) : o ≠ .panic → Safe (.ret o)
  | get (k c) : (∀ v, Safe (c v)) → Safe (.get k c)

theorem Safe.run {α} {p : Prog α} (h : Safe p) : ∀ f : AFrame, p.run f ≠ .panic := by
  induction h with
  | ret o ho => intro _; exact ho
  | get k c _ ih => intro f; exact ih _ _

theorem Safe.terr {α} : Safe (.ret (.terr : Outcome α)) := Safe.ret _ (by intro h; cases h)
theorem Safe.ok {α} (a : α) : Safe (.ret (.ok a)) := Safe.ret _ (by intro h; cases h)

theorem Safe.pValue {α β} {conv : Bytes → Option α} {k} {c : α → Prog β} (hc : ∀ a, Safe (c a)) :
    Safe (pValue conv k c) := by
  unfold Typed.pValue
  refine Safe.get _ _ (fun v => ?_)
  cases v with
  | none => exact Safe.terr
  | some v => simp only []; cases conv v with
    | none => exact Safe.terr
    | some a => exact hc a

theorem Safe.pOptional {α β} {conv : Bytes → Option α} {k} {c : Option α → Prog β} (hc : ∀ a, Safe (c a)) :
    Safe (pOptional conv k c) := by
  unfold Typed.pOptional
  refine Safe.get _ _ (fun v => ?_)
  cases v with
  | none => exact hc none
  | some v => simp only []; cases conv v with
    | none => exact Safe.terr
    | some a => exact hc _

theorem Safe.pRaw {β} {k} {c : Option Bytes → Prog β} (hc : ∀ a, Safe (c a)) : Safe (pRaw k c) :=
  Safe.get _ _ hc

theorem Safe.pSongIdentifier {β} {pk ik} {c : Option (Nat × Nat) → Prog β} (hc : ∀ a, Safe (c a)) :
    Safe (pSongIdentifier pk ik c) := by
  unfold Typed.pSongIdentifier
  refine Safe.pOptional (fun o => ?_)
  cases o with
  | none => exact hc none
  | some p => exact Safe.pValue (fun i => hc _)

macro "safe_step" : tactic => `(tactic| first
  | exact Safe.ok _
  | exact Safe.terr
  | (refine Safe.pSongIdentifier (fun _ => ?_))
  | (refine Safe.pValue (fun _ => ?_))
  | (refine Safe.pOptional (fun _ => ?_))
  | (refine Safe.pRaw (fun _ => ?_))
  | (refine Safe.get _ _ (fun _ => ?_)))

theorem statusRest_safe (s d) : Safe (statusRest s d) := by unfold statusRest; repeat safe_step

theorem statusProg_safe : Safe statusProg := by
  unfold statusProg
  safe_step
  split
  · safe_step
  safe_step
  split
  · split
    · safe_step
    · exact statusRest_safe _ _
  · safe_step
    split
    · split
      · safe_step
      · exact statusRest_safe _ _
    · exact statusRest_safe _ _

/-- `Status::from_frame` never panics, on any frame (durations of any magnitude included: after
F2 `parse_duration` has no partial operation) -/
theorem C12_status_total (f : AFrame) : decStatus f ≠ .panic := statusProg_safe.run f
theorem C12_stats_total (f : AFrame) : decStats f ≠ .panic :=
  Safe.run (by unfold statsProg; repeat safe_step) f
theorem C12_replayGain_total (f : AFrame) : decReplayGain f ≠ .panic :=
  Safe.run (by unfold replayGainProg; repeat safe_step) f
theorem C12_count_total (f : AFrame) : decCount f ≠ .panic :=
  Safe.run (by unfold countProg; repeat safe_step) f
theorem C12_update_total (f : AFrame) : decUpdate f ≠ .panic :=
  Safe.run (by unfold updateProg; repeat safe_step) f
theorem C12_addId_total (f : AFrame) : decAddId f ≠ .panic :=
  Safe.run (by unfold addIdProg; repeat safe_step) f
theorem C12_unit_total (f : AFrame) : decUnit f ≠ .panic := by intro h; cases h
theorem C12_albumArt_total (f : AFrame) : decAlbumArt f ≠ .panic := by
  unfold decAlbumArt AFrame.takeBinary
  cases f.binary with
  | none => intro h; cases h
  | some data => exact Safe.run (by repeat safe_step) _

/-! ## grouped count: the `unwrap`s after the inner loop are unreachable -/

theorem gcAfter_ne_panic (v : Bytes) (s : Option Nat) (p : Option Dur) (out) : gcAfter v s p out ≠ .panic := by
  unfold gcAfter
  cases s <;> cases p <;> simp

theorem gcGo_ne_panic (tag : Bytes) (l : Fields) : ∀ st out, gcGo tag st l out ≠ .panic := by
  induction l with
  | nil => intro st out; cases st <;> simp [gcGo]
  | cons p rest ih =>
    intro st out
    obtain ⟨k, v⟩ := p
    cases st with
    | idle =>
      unfold gcGo
      split
      · intro h; cases h
      · exact ih _ _
    | inGroup value songs playtime =>
      unfold gcGo
      split
      · split
        · cases hp : parseU64 v with
          | none => simp
          | some n =>
            simp only []
            cases ha : gcAfter value (some n) playtime out with
            | ok r => exact ih _ _
            | terr => simp
            | panic => exact absurd ha (gcAfter_ne_panic _ _ _ _)
        · intro h; cases h
      · split
        · split
          · cases hp : parseDuration v with
            | none => simp
            | some d =>
              simp only []
              cases ha : gcAfter value songs (some d) out with
              | ok r => exact ih _ _
              | terr => simp
              | panic => exact absurd ha (gcAfter_ne_panic _ _ _ _)
          · intro h; cases h
        · intro h; cases h

theorem C12_countGrouped_total (t : Tag) (f : AFrame) : decCountGrouped t f ≠ .panic :=
  gcGo_ne_panic _ _ _ _

/-! ## list: `Tag::try_from(key).unwrap()` needs the parser's key alphabet -/

/-- what `mpd_protocol`'s parser guarantees about the keys of a frame -/
def ParserFrame (f : AFrame) : Prop := ∀ p ∈ f.fields, p.1 ≠ [] ∧ p.1.all Spec.fieldNameChar = true

theorem tryFrom_parserKey (k : Bytes) (h : k ≠ [] ∧ k.all Spec.fieldNameChar = true) :
    ∃ t, Tag.tryFrom k = .ok t :=
  (Mpd.C20.C20_parse_accepts_iff k).mpr (by rw [Mpd.C20.tagChar_eq_fieldNameChar]; exact h)

theorem listFields_ok (l : Fields) (h : ∀ p ∈ l, p.1 ≠ [] ∧ p.1.all Spec.fieldNameChar = true) :
    ∃ r, listFields l = .ok r := by
  induction l with
  | nil => exact ⟨[], rfl⟩
  | cons p ps ih =>
    obtain ⟨t, ht⟩ := tryFrom_parserKey p.1 (h p (List.mem_cons_self ..))
    obtain ⟨r, hr⟩ := ih (fun q hq => h q (List.mem_cons_of_mem _ hq))
    exact ⟨(t, p.2) :: r, by simp [listFields, ht, hr]⟩

/-- `List::from_frame` succeeds on every frame the parser can produce -/
theorem C12_list_total (t : Tag) (gs : List Tag) (f : AFrame) (h : ParserFrame f) :
    ∃ r, decList t gs f = .ok r := by
  obtain ⟨r, hr⟩ := listFields_ok f.fields h
  exact ⟨{ primary := t, groupings := gs, fields := r }, by simp [decList, hr]⟩

/-- … and the `unwrap` is live: a single key outside the alphabet makes it panic (so the theorem
above really depends on the cross-module fact) -/
theorem C12_list_unwrap_is_live (t : Tag) (gs : List Tag) (f : AFrame) (k v : Bytes)
    (hm : (k, v) ∈ f.fields) (hk : k = [] ∨ k.all Spec.fieldNameChar = false) : decList t gs f = .panic := by
  have hbad : ∀ t', Tag.tryFrom k ≠ .ok t' := by
    intro t' ht
    have := (Mpd.C20.C20_parse_accepts_iff k).mp ⟨t', ht⟩
    rw [Mpd.C20.tagChar_eq_fieldNameChar] at this
    rcases hk with hk | hk
    · exact this.1 hk
    · rw [this.2] at hk; cases hk
  have : listFields f.fields = .panic := by
    generalize f.fields = l at hm
    induction l with
    | nil => simp at hm
    | cons p ps ih =>
      simp only [List.mem_cons] at hm
      unfold listFields
      cases hp : Tag.tryFrom p.1 with
      | error e => rfl
      | ok t' =>
        simp only []
        rcases hm with hm | hm
        · subst hm; exact absurd hp (hbad t')
        · rw [ih hm]
  simp [decList, this]

/-- F3: a field that is neither the listed tag nor a grouping tag is skipped by
`GroupedListValuesIter::next` (it used to be `.position(..).unwrap()`) -/
theorem C12_grouped_iterator_skips (primary : Tag) (gs : List Tag) (tag : Tag) (v : Bytes)
    (rest : List (Tag × Bytes)) (cur : List Bytes)
    (h1 : tag.eq primary = false) (h2 : tagPosition tag gs = none) :
    groupedGo primary gs ((tag, v) :: rest) cur = groupedGo primary gs rest cur := by
  simp [groupedGo, h1, h2]

/-! ## the other decoders that walk the frame -/

theorem playlistsGo_ne_panic (l : Fields) : ∀ cur out, playlistsGo cur l out ≠ .panic := by
  induction l with
  | nil => intro cur out; cases cur <;> simp [playlistsGo]
  | cons p rest ih =>
    intro cur out
    cases cur <;> (unfold playlistsGo; split) <;> first | exact ih _ _ | (intro h; cases h)

theorem C12_playlists_total (f : AFrame) : decPlaylists f ≠ .panic := playlistsGo_ne_panic _ _ _

theorem C12_stickerGet_total (f : AFrame) : decStickerGet f ≠ .panic := by
  unfold decStickerGet
  cases f.fields with
  | nil => simp
  | cons p _ =>
    simp only []
    split
    · simp
    · cases parseStickerValue p.2 <;> simp

theorem stickerListGo_ne_panic (l : Fields) : ∀ m, stickerListGo l m ≠ .panic := by
  induction l with
  | nil => intro m; simp [stickerListGo]
  | cons p rest ih =>
    intro m
    unfold stickerListGo
    cases parseStickerValue p.2 with
    | none => simp
    | some q => exact ih _

theorem C12_stickerList_total (f : AFrame) : decStickerList f ≠ .panic := stickerListGo_ne_panic _ _

theorem stickerFindGo_ne_panic (l : Fields) : ∀ file m, stickerFindGo file l m ≠ .panic := by
  induction l with
  | nil => intro file m; simp [stickerFindGo]
  | cons p rest ih =>
    intro file m
    unfold stickerFindGo
    split
    · exact ih _ _
    · split
      · cases parseStickerValue p.2 with
        | none => simp
        | some q => exact ih _ _
      · simp

theorem C12_stickerFind_total (f : AFrame) : decStickerFind f ≠ .panic := stickerFindGo_ne_panic _ _ _

theorem C12_channelMessages_total (f : AFrame) : decChannelMessages f ≠ .panic := by
  unfold decChannelMessages
  generalize ([] : List (Bytes × Bytes)) = out
  generalize f.fields = l
  induction l, out using channelMessagesGo.induct with
  | case1 out => simp [channelMessagesGo]
  | case2 _ _ => simp [channelMessagesGo]
  | case3 k c k' m rest out hk => simp [channelMessagesGo, hk]
  | case4 k c k' m rest out hk hk' => simp [channelMessagesGo, hk']
  | case5 k c k' m rest out hk hk' ih =>
    simp only [ne_eq, Decidable.not_not] at hk hk'
    simpa [channelMessagesGo, hk, hk'] using ih

theorem C12_listChannels_total (f : AFrame) : decListChannels f ≠ .panic := by
  unfold decListChannels
  induction f.fields with
  | nil => simp [listChannelsGo]
  | cons p rest ih =>
    unfold listChannelsGo
    split
    · simp
    · cases h : listChannelsGo rest with
      | ok l => simp
      | terr => simp
      | panic => exact absurd h ih

/-- a tag-type VALUE that is not a tag is an error, not an `unwrap` -/
theorem C12_tagTypes_total (f : AFrame) : decTagTypes f ≠ .panic := by
  unfold decTagTypes
  induction f.fields with
  | nil => simp [tagTypesGo]
  | cons p rest ih =>
    unfold tagTypesGo
    split
    · simp
    · cases Tag.tryFrom p.2 with
      | error e => simp
      | ok t =>
        simp only []
        cases h : tagTypesGo rest with
        | ok l => simp
        | terr => simp
        | panic => exact absurd h ih

/-! ## typed command lists (F4) -/

theorem zipResponses_ne_panic {ρ} (cmds : List (AFrame → Outcome ρ)) (frames : List AFrame)
    (h : ∀ c ∈ cmds, ∀ f ∈ frames, c f ≠ .panic) : zipResponses cmds frames ≠ .panic := by
  induction cmds generalizing frames with
  | nil => simp [zipResponses]
  | cons c cs ih =>
    cases frames with
    | nil => simp [zipResponses]
    | cons f fs =>
      unfold zipResponses
      cases hc : c f with
      | ok r =>
        simp only []
        cases hz : zipResponses cs fs with
        | ok l => simp
        | terr => simp
        | panic =>
          exact absurd hz (ih fs fun c' hc' f' hf' =>
            h c' (List.mem_cons_of_mem _ hc') f' (List.mem_cons_of_mem _ hf'))
      | terr => simp
      | panic => exact absurd hc (h c (List.mem_cons_self ..) f (List.mem_cons_self ..))

/-- `Vec<C>::responses`: any number of commands against any number of frames -/
theorem C12_vec_total {ρ} (cmds : List (AFrame → Outcome ρ)) (frames : List AFrame)
    (h : ∀ c ∈ cmds, ∀ f ∈ frames, c f ≠ .panic) : vecResponses cmds frames ≠ .panic := by
  unfold vecResponses
  split
  · simp
  · exact zipResponses_ne_panic cmds frames h

/-- a frame-count mismatch is a typed-response error (was `assert_eq!`) -/
theorem C12_vec_mismatch {ρ} (cmds : List (AFrame → Outcome ρ)) (frames : List AFrame)
    (h : cmds.length ≠ frames.length) : vecResponses cmds frames = .terr := by
  simp [vecResponses, h]

/-- tuples of any arity (the macro instances are arities 1–8): any number of frames -/
theorem C12_tuple_total {ρ} (cmds : List (AFrame → Outcome ρ)) (frames : List AFrame)
    (h : ∀ c ∈ cmds, ∀ f ∈ frames, c f ≠ .panic) : tupleResponses cmds frames ≠ .panic := by
  induction cmds generalizing frames with
  | nil => simp [tupleResponses]
  | cons c cs ih =>
    cases frames with
    | nil => simp [tupleResponses]
    | cons f fs =>
      unfold tupleResponses
      cases hc : c f with
      | ok r =>
        simp only []
        cases hz : tupleResponses cs fs with
        | ok l => simp
        | terr => simp
        | panic =>
          exact absurd hz (ih fs fun c' hc' f' hf' =>
            h c' (List.mem_cons_of_mem _ hc') f' (List.mem_cons_of_mem _ hf'))
      | terr => simp
      | panic => exact absurd hc (h c (List.mem_cons_self ..) f (List.mem_cons_self ..))

/-- fewer frames than commands is a typed-response error (was `frames.next().unwrap()`) -/
theorem C12_tuple_short {ρ} (cmds : List (AFrame → Outcome ρ)) (frames : List AFrame)
    (hp : ∀ c ∈ cmds, ∀ f ∈ frames, c f ≠ .panic) (h : frames.length < cmds.length) :
    tupleResponses cmds frames = .terr := by
  induction cmds generalizing frames with
  | nil => simp at h
  | cons c cs ih =>
    cases frames with
    | nil => rfl
    | cons f fs =>
      unfold tupleResponses
      cases hc : c f with
      | ok r =>
        simp only []
        rw [ih fs (fun c' hc' f' hf' => hp c' (List.mem_cons_of_mem _ hc') f' (List.mem_cons_of_mem _ hf'))
          (by simp only [List.length_cons] at h; omega)]
      | terr => rfl
      | panic => exact absurd hc (hp c (List.mem_cons_self ..) f (List.mem_cons_self ..))

/-! ## non-vacuity -/

example : ParserFrame ⟨[(str "Album", str "x"), (str "x-custom_tag", []), (str "OK", str "1")], some []⟩ := by
  intro p hp
  simp only [List.mem_cons, List.not_mem_nil, or_false] at hp
  rcases hp with rfl | rfl | rfl <;> decide
example : decList (.named .Album) [] ⟨[(str "bad key", str "x")], none⟩ = .panic := by decide
example : decCountGrouped (.named .Album) ⟨[(str "Album", str "a"), (str "songs", str "1")], none⟩ = .terr := by
  decide
example : vecResponses [decUpdate, decUpdate] [⟨[(str "updating_db", str "1")], none⟩] = .terr := by decide
example : tupleResponses [decUpdate, decAddId] [⟨[(str "updating_db", str "1")], none⟩] = .terr := by decide
example : tupleResponses [decUpdate] [⟨[(str "updating_db", str "1")], none⟩, ⟨[], none⟩] = .ok [1] := by decide

end Mpd.C12
