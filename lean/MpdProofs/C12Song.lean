import Mpd.Typed.Song
import MpdSpec.Listing
import MpdProofs.Lemmas.Song
import MpdProofs.C14
/-!
# C12 (song half) — converting any reply into the typed response of a song-returning command never panics

The model has exactly two partial operations in `responses/song.rs`:
`Tag::try_from(tag).unwrap()` (`handle_song_field`) and `assert!(!self.url.is_empty())` (`into_song`).
The accessors of `Song` (`file_path`, `artists`, `album_artists`, `album`, `title`, `number`,
`tag_values`, `single_tag_value`) contain none (slice patterns, `unwrap_or`), so in the model they are
total functions returning plain values: reading every accessor of every decoded song cannot panic
by construction. What needs a proof is the decoding itself.

The theorems quantify over every abstract frame whose keys are non-empty strings over
`Spec.fieldNameChar`, the byte class the protocol parser accepts in field names. That a
parser-produced key is an acceptable tag is the cross-module fact `SongLemmas.tryFrom_ok_of_wfKey`
(via `C20.tagChar_eq_fieldNameChar`): **if the parser's alphabet were widened beyond
`Tag::try_from`'s, that lemma — and with it `C12_song_total` — would break**, and
`C12_song_field_panic_iff` says exactly which replies would then panic.
-/
namespace Mpd.C12
open Mpd Mpd.Typed Mpd.SongLemmas Mpd.C14

theorem finish_ne_panic (b : Builder) : b.finish ≠ .panic := by
  unfold Builder.finish Builder.intoSong
  cases h : b.url.isEmpty <;> simp

theorem handleStartField_ne_panic (b : Builder) (k v : Bytes) : b.handleStartField k v ≠ .panic := by
  unfold Builder.handleStartField
  split
  · simp
  · split <;> simp

/-- exact characterisation of the panicking field: a song is in progress, the key is neither an entry
name nor one of the eight attribute names, and `Tag::try_from` rejects it -/
theorem C12_song_field_panic_iff (ts : Bytes → Bool) (b : Builder) (k v : Bytes) :
    b.field ts k v = .panic ↔
      b.url ≠ [] ∧ isStartField k = false ∧ Spec.isAttrKey k = false ∧ ∀ t, Tag.tryFrom k ≠ .ok t := by
  unfold Builder.field
  by_cases hu : b.url = []
  · simp only [hu, List.isEmpty_nil, if_true, ne_eq, not_true_eq_false, false_and, iff_false]
    have := handleStartField_ne_panic b k v
    cases hh : b.handleStartField k v <;> simp_all
  · have he : b.url.isEmpty = false := by simpa using hu
    simp only [he, Bool.false_eq_true, if_false, ne_eq, hu, not_false_eq_true, true_and]
    unfold Builder.handleSongField
    by_cases hs : isStartField k = true
    · simp only [hs, if_true, Bool.true_eq_false, false_and, iff_false]
      rw [intoSong_ok b hu]
      have := handleStartField_ne_panic {} k v
      cases hh : ({} : Builder).handleStartField k v <;> simp_all
    · have hs' : isStartField k = false := by simpa using hs
      simp only [hs', Bool.false_eq_true, if_false, true_and, kDuration, kTime, kRange, kFormat,
        kLastModified, kPrio, kPos, kId]
      by_cases h1 : k = str "duration"
      · subst h1; simp +decide; cases parseDuration v <;> simp
      by_cases h2 : k = str "Time"
      · subst h2; simp +decide
        cases b.duration <;> simp
        cases parseDuration v <;> simp
      by_cases h3 : k = str "Range"
      · subst h3; simp +decide; cases parseRange v <;> simp
      by_cases h4 : k = str "Format"
      · subst h4; simp +decide
      by_cases h5 : k = str "Last-Modified"
      · subst h5; simp +decide; cases ts v <;> simp
      by_cases h6 : k = str "Prio"
      · subst h6; simp +decide; cases parseU8 v <;> simp
      by_cases h7 : k = str "Pos"
      · subst h7; simp +decide; cases parseUsize v <;> simp
      by_cases h8 : k = str "Id"
      · subst h8; simp +decide; cases parseU64 v <;> simp
      have hattr : Spec.isAttrKey k = false := by
        simp [Spec.isAttrKey, Spec.attrKeys, h1, h2, h3, h4, h5, h6, h7, h8]
      simp only [h1, h2, h3, h4, h5, h6, h7, h8, if_false, hattr, true_and]
      cases ht : Tag.tryFrom k with
      | error e => simp
      | ok t => simp

theorem field_ne_panic (ts : Bytes → Bool) (b : Builder) (k v : Bytes) (hk : Spec.wfFieldName k = true) :
    b.field ts k v ≠ .panic := by
  intro h
  obtain ⟨t, ht⟩ := tryFrom_ok_of_wfKey k hk
  exact ((C12_song_field_panic_iff ts b k v).mp h).2.2.2 t ht

theorem run_ne_panic (ts : Bytes → Bool) (fs : List (Bytes × Bytes))
    (h : ∀ kv ∈ fs, Spec.wfFieldName kv.1 = true) : ∀ b, run ts b fs ≠ .panic := by
  induction fs with
  | nil => intro b; simp [run]
  | cons kv rest ih =>
    intro b
    obtain ⟨k, v⟩ := kv
    have hk := h (k, v) (by simp)
    have hrest := ih (fun kv hkv => h kv (by simp [hkv]))
    simp only [run]
    cases hf : b.field ts k v with
    | panic => exact absurd hf (field_ne_panic ts b k v hk)
    | terr => simp
    | ok r =>
      obtain ⟨b', o⟩ := r
      simp only
      cases hr : run ts b' rest with
      | panic => exact absurd hr (hrest b')
      | terr => simp
      | ok r2 => simp

/-- **C12, song decoders**: for every frame the protocol parser can produce (any number of fields,
any values, any binary part), none of the three song decoders panics -/
theorem C12_song_decoders_total (ts : Bytes → Bool) (f : AFrame)
    (h : ∀ kv ∈ f.fields, Spec.wfFieldName kv.1 = true) :
    SongInQueue.fromFrameMulti ts f ≠ .panic ∧ Song.fromFrameMulti ts f ≠ .panic ∧
    SongInQueue.fromFrameSingle ts f ≠ .panic := by
  have hr := run_ne_panic ts f.fields h {}
  simp only [SongInQueue.fromFrameMulti, Song.fromFrameMulti, SongInQueue.fromFrameSingle,
    multiLoop_eq_run, singleLoop_eq_run]
  cases hrun : run ts {} f.fields with
  | panic => exact absurd hrun hr
  | terr => simp
  | ok r =>
    obtain ⟨bf, songs⟩ := r
    have := finish_ne_panic bf
    simp only
    cases hfin : bf.finish with
    | panic => exact absurd hfin this
    | terr => simp
    | ok o => simp

/-- **C12, song-returning commands**: `Queue`, `QueueRange`, `CurrentSong`, `Find`, `GetPlaylist`,
`ListAllIn`, `Add`: `response` yields a value or a typed-response error, never a panic -/
theorem C12_song_total (ts : Bytes → Bool) (f : AFrame)
    (h : ∀ kv ∈ f.fields, Spec.wfFieldName kv.1 = true) (c : SongCmd) :
    response ts c f ≠ .panic := by
  obtain ⟨h1, h2, h3⟩ := C12_song_decoders_total ts f h
  cases c <;> simp only [response, Outcome.map, Outcome.bind]
  case queue => cases hq : SongInQueue.fromFrameMulti ts f <;> simp_all
  case queuerange => cases hq : SongInQueue.fromFrameMulti ts f <;> simp_all
  case currentsong => cases hq : SongInQueue.fromFrameSingle ts f <;> simp_all
  case find => cases hq : Song.fromFrameMulti ts f <;> simp_all
  case getplaylist => cases hq : Song.fromFrameMulti ts f <;> simp_all
  case listallinfo => cases hq : Song.fromFrameMulti ts f <;> simp_all
  case addid =>
    unfold value
    cases hg : f.get kId with
    | mk o f' =>
      cases o with
      | none => simp
      | some v => cases hp : parseU64 v <;> simp [Outcome.ofOption, hp]

/-! ## keys outside the parser's alphabet

The property text also mentions field names outside the alphabet the protocol layer accepts today.
Such a frame cannot be obtained through the public API (the parser rejects the line as an invalid
message), but the decoder itself is NOT total on them: with a song in progress, a key `Tag::try_from`
rejects makes the `unwrap` in `handle_song_field` panic. Witnesses (by evaluation of the model): -/

example : response (fun _ => true) .find ⟨[(str "file", str "a"), (str "Track1", str "x")], none⟩ = .panic := by
  decide +kernel
example : response (fun _ => true) .queue ⟨[(str "file", str "a"), ([], str "x")], none⟩ = .panic := by
  decide +kernel
example : response (fun _ => true) .currentsong ⟨[(str "file", str "a"), (str "a b", str "x")], none⟩ = .panic := by
  decide +kernel
/-- the same key while no song is in progress is an ordinary typed-response error -/
example : response (fun _ => true) .find ⟨[(str "Track1", str "x")], none⟩ = .terr := by decide +kernel

/-! ## non-vacuity: frames within the alphabet that exercise the guarded operations -/
example : ∀ kv ∈ [(str "file", str "a"), (str "x-custom_TAG", str "v"), (str "Pos", str "-1")],
    Spec.wfFieldName kv.1 = true := by decide +kernel
example : response (fun _ => true) .queue
    ⟨[(str "file", str "a"), (str "duration", str "18446744073709551616")], none⟩ = .terr := by decide +kernel
def exSong : Song :=
  { url := str "a", duration := none, tags := [(.named .Title, [str "t", str "u"]), (.other (str "x-custom_TAG"), [str "v"])],
    format := none, lastModified := none }
example : response (fun _ => true) .find
    ⟨[(str "file", str "a"), (str "x-custom_TAG", str "v"), (str "TITLE", str "t"), (str "Title", str "u")], none⟩
    = .ok (.songs [exSong]) := by decide +kernel
example : exSong.tagValues (.other (str "x-custom_TAG")) = [str "v"] ∧ exSong.title = some (str "t") ∧
    exSong.album = none ∧ exSong.artists = [] ∧ exSong.number = (0, 0) := by decide +kernel

end Mpd.C12
