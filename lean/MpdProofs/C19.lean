import Mpd.Frame
import Mpd.FrameOps
import MpdSpec.FrameSpec
import MpdProofs.Lemmas.Frame
/-!
# C19 — frames and responses behave as ordered collections of what the server sent

"A response frame behaves as an ordered multimap over the lines the server sent: iteration
(forward, backward, borrowed or owned) yields the remaining key-value pairs in wire order, lookup by
key returns the first remaining match case-sensitively, taking a value removes exactly that first
match, and length/emptiness queries agree with iteration. A response yields its successful frames in
order followed by its error, if any, with exact size hints from either end."

Shape of the proof: a *refinement*. The concrete model (`Mpd/Frame.lean`: slot vector with holes,
hole-skipping iterators popping from either end of the remaining slots) is related to the
specification (`Mpd/AFrame.lean`: list multimap; `MpdSpec/FrameSpec.lean`: a double-ended iterator
is the list of items not yet yielded) by the abstraction functions

* `Frame.abs f = ⟨f.slots.filterMap id, f.binary⟩` on frames,
* `absSlots it = it.filterMap id` on `Fields` states, `absInto` on `IntoIter` states,
* `absFrames it = it.frames.map ok ++ it.error.toList.map err` on `FramesRef` / `Frames` states.

Every method is proved to commute with the abstraction (one step), then every *sequence* of calls
by induction on the sequence. All statements are for all frames (holes anywhere, duplicate keys,
any bytes) and all call sequences; there are no size bounds.
-/
namespace Mpd.C19
open Mpd Mpd.FrameOps Mpd.FrameSpec Mpd.FrameLemmas

/-- abstraction function on frames (defined in the model file so that other models can use it) -/
abbrev abs (f : Frame) : AFrame := f.abs

theorem abs_fields (f : Frame) : (abs f).fields = absSlots f.slots := rfl

/-! ## 1. single calls commute with the abstraction -/

theorem findSome_key (k : Bytes) (l : List (Bytes × Bytes)) :
    l.findSome? (fun kv => if kv.1 == k then some kv.2 else none) = (l.find? (·.1 == k)).map (·.2) := by
  induction l with
  | nil => rfl
  | cons p t ih =>
    simp only [List.findSome?_cons, List.find?_cons]
    by_cases h : p.1 == k
    · simp [h]
    · simp only [h]; exact ih

/-- `Frame::find` is the multimap's lookup of the first remaining match -/
theorem C19_find_refines (f : Frame) (k : Bytes) : f.find k = (abs f).find k := by
  simp only [Frame.find, Frame.fields, findMap_eq, findSome_key, AFrame.find]
  rfl

/-- `Frame::get` returns what the multimap's `get` returns and leaves (up to holes) what it leaves -/
theorem C19_get_refines (f : Frame) (k : Bytes) :
    (f.get k).1 = ((abs f).get k).1 ∧ abs (f.get k).2 = ((abs f).get k).2 := by
  have h1 := getSlots_fst k f.slots
  have h2 := getSlots_snd k f.slots
  have hfind : (abs f).find k = ((absSlots f.slots).find? (·.1 == k)).map (·.2) := rfl
  simp only [AFrame.get]
  cases hf : (abs f).find k with
  | none =>
    rw [hfind] at hf
    refine ⟨by simp [Frame.get, h1, hf], ?_⟩
    have hnot : ∀ p ∈ absSlots f.slots, p.1 ≠ k := by
      intro p hp hk
      have : (absSlots f.slots).find? (·.1 == k) = none := by simpa using hf
      have := List.find?_eq_none.mp this p hp
      simp [hk] at this
    show (⟨absSlots (Frame.getSlots k f.slots).2, f.binary⟩ : AFrame) = abs f
    rw [h2, eraseFirst_of_not_mem k _ hnot]
    rfl
  | some v =>
    rw [hfind] at hf
    refine ⟨by simp [Frame.get, h1, hf], ?_⟩
    show (⟨absSlots (Frame.getSlots k f.slots).2, f.binary⟩ : AFrame) = _
    rw [h2]
    rfl

/-- `get` only punches a hole: the slot vector keeps its length (no shifting, positions stable) -/
theorem C19_get_keeps_slots (f : Frame) (k : Bytes) : (f.get k).2.slots.length = f.slots.length :=
  getSlots_length k f.slots

theorem C19_takeBinary_refines (f : Frame) :
    f.takeBinary.1 = (abs f).takeBinary.1 ∧ abs f.takeBinary.2 = (abs f).takeBinary.2 := ⟨rfl, rfl⟩

/-- after `take_binary` every further `take_binary` / `binary` / `has_binary` sees nothing -/
theorem C19_takeBinary_once (f : Frame) :
    f.takeBinary.2.takeBinary.1 = none ∧ f.takeBinary.2.getBinary = none ∧ f.takeBinary.2.hasBinary = false :=
  ⟨rfl, rfl, rfl⟩

theorem C19_binary_refines (f : Frame) : f.getBinary = (abs f).binary := rfl
theorem C19_hasBinary_refines (f : Frame) : f.hasBinary = (abs f).binary.isSome := rfl

/-- `fields_len` = number of pairs iteration yields -/
theorem C19_fieldsLen_refines (f : Frame) : f.fieldsLen = (abs f).fieldsLen := by
  simp [Frame.fieldsLen, Frame.fields, count_eq, AFrame.fieldsLen, abs_fields]

theorem C19_isEmpty_refines (f : Frame) : f.isEmpty = (abs f).isEmpty := by
  simp only [Frame.isEmpty, AFrame.isEmpty, C19_fieldsLen_refines, AFrame.fieldsLen, Frame.hasBinary]
  cases (abs f).fields <;> cases hb : f.binary <;> simp [Frame.abs, hb]

/-- length / emptiness agree with iteration -/
theorem C19_len_agrees_with_iteration (f : Frame) :
    f.fieldsLen = (Fields.collect f.fields).length ∧
    f.fieldsLen = (Fields.collectBack f.fields).length ∧
    (f.isEmpty = true ↔ Fields.collect f.fields = [] ∧ f.binary = none) := by
  refine ⟨?_, ?_, ?_⟩
  · simp [Frame.fieldsLen, count_eq, collect_eq]
  · simp [Frame.fieldsLen, count_eq, collectBack_eq]
  · rw [C19_isEmpty_refines]
    simp [AFrame.isEmpty, collect_eq, Frame.fields, Frame.abs, absSlots]

/-! ## 2. borrowed iteration (`Fields`) refines the double-ended queue -/

/-- one `next()` -/
theorem C19_fields_next_refines (it : List Slot) :
    (Fields.next it).1 = (DQ.next (absSlots it)).1 ∧ absSlots (Fields.next it).2 = (DQ.next (absSlots it)).2 :=
  next_refines it

/-- one `next_back()` -/
theorem C19_fields_nextBack_refines (it : List Slot) :
    (Fields.nextBack it).1 = (DQ.nextBack (absSlots it)).1 ∧
      absSlots (Fields.nextBack it).2 = (DQ.nextBack (absSlots it)).2 :=
  nextBack_refines it

/-- EVERY sequence of `next` / `next_back` calls on `frame.fields()` yields exactly what the queue
over the remaining pairs yields -/
theorem C19_fields_seq_refines (f : Frame) (pat : List Bool) :
    driveFields pat f.fields = DQ.drive pat (abs f).fields :=
  driveFields_refines pat f.slots

/-- the same started from any iterator state (any slot list, e.g. mid-iteration) -/
theorem C19_fields_seq_refines_state (it : List Slot) (pat : List Bool) :
    driveFields pat it = DQ.drive pat (absSlots it) :=
  driveFields_refines pat it

theorem DQ_drive_nil {α : Type} (pat : List Bool) : DQ.drive pat ([] : List α) = pat.map (fun _ => none) := by
  induction pat with
  | nil => rfl
  | cons b pat ih => cases b <;> simp [DQ.drive, DQ.next, DQ.nextBack, ih]

/-- fused: once a call returned `None`, every later call (from either end) returns `None` -/
theorem C19_fields_fused (it : List Slot) (b : Bool) (pat : List Bool)
    (h : (if b then Fields.nextBack it else Fields.next it).1 = none) :
    driveFields pat (if b then Fields.nextBack it else Fields.next it).2 = pat.map (fun _ => none) := by
  have hr := fields_step_refines b it
  rw [driveFields_refines, hr.2]
  rw [hr.1] at h
  have : absSlots it = [] := by
    cases b
    · simpa [DQ.next] using h
    · simpa [DQ.nextBack] using h
  rw [this]
  cases b <;> simp [DQ.next, DQ.nextBack, DQ_drive_nil]

/-- forward collection = the remaining pairs in wire order -/
theorem C19_fields_forward (f : Frame) : Fields.collect f.fields = (abs f).fields := collect_eq f.slots

/-- backward collection = the same pairs reversed -/
theorem C19_fields_backward (f : Frame) : Fields.collectBack f.fields = (abs f).fields.reverse :=
  collectBack_eq f.slots

/-! ### what the queue specification says (sanity of the spec itself) -/

/-- items returned by the `next()` calls of a run, in call order -/
def fronts {α : Type} : List Bool → List (Option α) → List α
  | false :: p, some a :: o => a :: fronts p o
  | _ :: p, _ :: o => fronts p o
  | _, _ => []

/-- items returned by the `next_back()` calls of a run, in call order -/
def backs {α : Type} : List Bool → List (Option α) → List α
  | true :: p, some a :: o => a :: backs p o
  | _ :: p, _ :: o => backs p o
  | _, _ => []

theorem fronts_nil {α : Type} (pat : List Bool) : fronts pat (pat.map fun _ => (none : Option α)) = [] := by
  induction pat with
  | nil => rfl
  | cons b p ih => cases b <;> simp [fronts, ih]

theorem backs_nil {α : Type} (pat : List Bool) : backs pat (pat.map fun _ => (none : Option α)) = [] := by
  induction pat with
  | nil => rfl
  | cons b p ih => cases b <;> simp [backs, ih]

theorem DQ_remaining_nil {α : Type} (pat : List Bool) : DQ.remaining pat ([] : List α) = [] := by
  induction pat with
  | nil => rfl
  | cons b p ih => cases b <;> simp [DQ.remaining, DQ.next, DQ.nextBack, ih]

/-- For every run: (items the `next` calls returned, in order) ++ (items not yet yielded) ++
(items the `next_back` calls returned, reversed) is the original list. So front calls consume a
prefix in order, back calls a suffix in reverse order, nothing is yielded twice or skipped. -/
theorem C19_deque_partition {α : Type} (pat : List Bool) (l : List α) :
    fronts pat (DQ.drive pat l) ++ DQ.remaining pat l ++ (backs pat (DQ.drive pat l)).reverse = l := by
  induction pat generalizing l with
  | nil => simp [DQ.remaining, fronts, backs]
  | cons b p ih =>
    cases b with
    | false =>
      cases l with
      | nil =>
        simp only [DQ.drive, DQ.remaining, DQ.next, List.head?_nil, List.tail_nil, Bool.false_eq_true, if_false]
        simp [fronts, backs, DQ_drive_nil, fronts_nil, backs_nil, DQ_remaining_nil]
      | cons a t =>
        have := ih t
        simp only [DQ.drive, DQ.remaining, DQ.next, List.head?_cons, List.tail_cons, Bool.false_eq_true, if_false]
        simp only [fronts, backs]
        simpa using this
    | true =>
      rcases eq_nil_or_snoc l with rfl | ⟨t, a, rfl⟩
      · simp only [DQ.drive, DQ.remaining, DQ.nextBack, List.getLast?_nil, List.dropLast_nil, if_true]
        simp [fronts, backs, DQ_drive_nil, fronts_nil, backs_nil, DQ_remaining_nil]
      · have := ih t
        simp only [DQ.drive, DQ.remaining, DQ.nextBack, List.getLast?_concat, List.dropLast_concat, if_true]
        simp only [fronts, backs, List.reverse_cons]
        rw [← List.append_assoc, this]

/-- the partition statement for the real iterator, any frame, any call sequence -/
theorem C19_fields_partition (f : Frame) (pat : List Bool) :
    fronts pat (driveFields pat f.fields) ++ DQ.remaining pat (abs f).fields ++
      (backs pat (driveFields pat f.fields)).reverse = (abs f).fields := by
  rw [C19_fields_seq_refines]; exact C19_deque_partition pat _

/-! ## 3. owned iteration (`IntoIter`) -/

theorem C19_into_step_refines (it : IntoIter) (s : IStep) :
    (stepInto it s).1 = ((absInto it).step s).1 ∧ absInto (stepInto it s).2 = ((absInto it).step s).2 :=
  stepInto_refines it s

/-- EVERY sequence of `next` / `next_back` / `take_binary` calls on `frame.into_iter()` -/
theorem C19_into_seq_refines (f : Frame) (pat : List IStep) :
    driveInto pat f.intoIter = AInto.drive pat { items := (abs f).fields, binary := (abs f).binary } :=
  driveInto_refines pat f.intoIter

theorem AInto_drive_nil (pat : List IStep) (hp : ∀ s ∈ pat, s ≠ .takeBinary) (b : Option Bytes) :
    AInto.drive pat { items := [], binary := b } = pat.map (fun _ => .kv none) := by
  induction pat with
  | nil => rfl
  | cons s pat ih =>
    have := ih (fun s hs => hp s (by simp [hs]))
    cases s with
    | next => simp [AInto.drive, AInto.step, this]
    | nextBack => simp [AInto.drive, AInto.step, this]
    | takeBinary => exact absurd rfl (hp _ (by simp))

/-- fused (owned): after a `None` from either end, all later `next` / `next_back` return `None` -/
theorem C19_into_fused (it : IntoIter) (s : IStep) (pat : List IStep)
    (h : (stepInto it s).1 = .kv none) (hp : ∀ s ∈ pat, s ≠ .takeBinary) :
    driveInto pat (stepInto it s).2 = pat.map (fun _ => .kv none) := by
  have hr := stepInto_refines it s
  rw [driveInto_refines, hr.2]
  rw [hr.1] at h
  cases s with
  | next =>
    simp only [AInto.step, StepOut.kv.injEq] at h ⊢
    have : (absInto it).items = [] := by simpa using h
    simp only [this, List.tail_nil]; exact AInto_drive_nil pat hp _
  | nextBack =>
    simp only [AInto.step, StepOut.kv.injEq] at h ⊢
    have : (absInto it).items = [] := by simpa using h
    simp only [this, List.dropLast_nil]; exact AInto_drive_nil pat hp _
  | takeBinary => simp [AInto.step] at h

/-! ## 4. every sequence of public calls: the operation language -/

/-- MAIN REFINEMENT THEOREM. For every frame (holes anywhere) and every sequence of
`find / get / take_binary / fields_len / is_empty / has_binary / binary / fields().collect() /
fields().rev().collect() / pattern-driven fields() / pattern-driven into_iter()` the real
representation returns exactly what the ordered multimap returns. -/
theorem C19_refines (f : Frame) (ops : List Op) : run f ops = runAbs (abs f) ops := by
  induction ops generalizing f with
  | nil => rfl
  | cons op ops ih =>
    cases op with
    | find k => simp only [run, runAbs, C19_find_refines, ih]
    | get k =>
      have := C19_get_refines f k
      simp only [run, runAbs, ih, this.1, this.2]
    | takeBinary =>
      have := C19_takeBinary_refines f
      simp only [run, runAbs, ih, this.1, this.2]
    | len => simp only [run, runAbs, C19_fieldsLen_refines, ih]
    | isEmpty => simp only [run, runAbs, C19_isEmpty_refines, ih]
    | hasBinary => simp only [run, runAbs, C19_hasBinary_refines, ih]
    | binary => simp only [run, runAbs, C19_binary_refines, ih]
    | iterAll => simp only [run, runAbs, C19_fields_forward, ih]
    | iterBackAll => simp only [run, runAbs, C19_fields_backward, ih]
    | iterMixed pat => simp only [run, runAbs, C19_fields_seq_refines, ih]
    | into pat => simp only [run, runAbs, C19_into_seq_refines]

/-- frames as the parser builds them (no holes) abstract to their field list -/
theorem C19_abs_ofFields (fields : List (Bytes × Bytes)) (binary : Option Bytes) :
    abs (Frame.ofFields fields binary) = { fields := fields, binary := binary } := by
  simp [Frame.abs, Frame.ofFields, List.filterMap_map]

/-- what the correspondence run checks, as a theorem about the model: on a frame fresh from the
parser the model's outputs are the multimap's outputs on the field list of the wire -/
theorem C19_refines_wire (fields : List (Bytes × Bytes)) (binary : Option Bytes) (ops : List Op) :
    run (Frame.ofFields fields binary) ops = runAbs { fields := fields, binary := binary } ops := by
  rw [C19_refines, C19_abs_ofFields]

/-! ## 5. first remaining match, case-sensitively -/

/-- lookup: exactly the first pair whose key is *byte-equal* to `k` (no case folding, no trimming) -/
theorem C19_find_first_match (f : Frame) (k v : Bytes) :
    f.find k = some v ↔
      ∃ pre post, (abs f).fields = pre ++ (k, v) :: post ∧ ∀ p ∈ pre, p.1 ≠ k := by
  rw [C19_find_refines, AFrame.find]
  constructor
  · intro h
    rcases split_first k (abs f).fields with hn | ⟨pre, v', post, hl, hpre⟩
    · simp [find_of_not_mem k _ hn] at h
    · rw [hl, find_first k v' pre post hpre] at h
      simp at h; subst h; exact ⟨pre, post, hl, hpre⟩
  · rintro ⟨pre, post, hl, hpre⟩
    rw [hl, find_first k v pre post hpre]; rfl

theorem C19_find_none (f : Frame) (k : Bytes) :
    f.find k = none ↔ ∀ p ∈ (abs f).fields, p.1 ≠ k := by
  rw [C19_find_refines, AFrame.find]
  constructor
  · intro h p hp hk
    have : (abs f).fields.find? (·.1 == k) = none := by simpa using h
    have := List.find?_eq_none.mp this p hp
    simp [hk] at this
  · intro h; simp [find_of_not_mem k _ h]

/-- taking: returns the first match and removes exactly that pair, everything else stays in order -/
theorem C19_get_removes_first (f : Frame) (k v : Bytes) (pre post : List (Bytes × Bytes))
    (hl : (abs f).fields = pre ++ (k, v) :: post) (hpre : ∀ p ∈ pre, p.1 ≠ k) :
    (f.get k).1 = some v ∧ (abs (f.get k).2).fields = pre ++ post ∧ (abs (f.get k).2).binary = (abs f).binary := by
  have hr := C19_get_refines f k
  have hfind : (abs f).find k = some v := by
    rw [AFrame.find, hl, find_first k v pre post hpre]; rfl
  have hg : (abs f).get k = (some v, { abs f with fields := AFrame.eraseFirst k (abs f).fields }) := by
    simp [AFrame.get, hfind]
  rw [hr.1, hr.2, hg]
  refine ⟨rfl, ?_, rfl⟩
  show AFrame.eraseFirst k (abs f).fields = pre ++ post
  rw [hl, eraseFirst_first k v pre post hpre]

/-- a `get` that finds nothing changes nothing -/
theorem C19_get_none (f : Frame) (k : Bytes) (h : ∀ p ∈ (abs f).fields, p.1 ≠ k) :
    (f.get k).1 = none ∧ abs (f.get k).2 = abs f := by
  have hr := C19_get_refines f k
  have hfind : (abs f).find k = none := by simp [AFrame.find, find_of_not_mem k _ h]
  rw [hr.1, hr.2]; simp [AFrame.get, hfind]

/-- `get k` after `get k` returns the second original match; the third `get k` the third … -/
theorem C19_get_twice (f : Frame) (k v₁ v₂ : Bytes) (pre mid post : List (Bytes × Bytes))
    (hl : (abs f).fields = pre ++ (k, v₁) :: mid ++ (k, v₂) :: post)
    (hpre : ∀ p ∈ pre, p.1 ≠ k) (hmid : ∀ p ∈ mid, p.1 ≠ k) :
    (f.get k).1 = some v₁ ∧ ((f.get k).2.get k).1 = some v₂ ∧
      (abs ((f.get k).2.get k).2).fields = pre ++ mid ++ post := by
  have h1 := C19_get_removes_first f k v₁ pre (mid ++ (k, v₂) :: post) (by simpa using hl) hpre
  have hpm : ∀ p ∈ pre ++ mid, p.1 ≠ k := by
    intro p hp; simp at hp; rcases hp with hp | hp
    · exact hpre p hp
    · exact hmid p hp
  have h2 := C19_get_removes_first (f.get k).2 k v₂ (pre ++ mid) post (by simpa using h1.2.1) hpm
  exact ⟨h1.1, h2.1, h2.2.1⟩

/-- a key differing only in letter case does not match -/
theorem C19_find_case_sensitive (f : Frame) (k : Bytes) (h : ∀ p ∈ (abs f).fields, p.1 ≠ k) :
    f.find k = none ∧ (f.get k).1 = none :=
  ⟨(C19_find_none f k).mpr h, (C19_get_none f k h).1⟩

/-! ## 6. responses: `FramesRef` / `Frames` -/

/-- abstraction of a frames-iterator state: the items not yet yielded -/
def absFrames (it : FramesIter) : List (Except Err Frame) := respItems it.frames it.error

theorem absFrames_iter (r : Response) : absFrames r.iter = respItems r.frames r.error := rfl

theorem C19_frames_next_refines (it : FramesIter) :
    it.next.1 = (DQ.next (absFrames it)).1 ∧ absFrames it.next.2 = (DQ.next (absFrames it)).2 := by
  obtain ⟨frames, error⟩ := it
  cases frames with
  | cons f rest => simp [FramesIter.next, SlotIter.popFront, absFrames, respItems, DQ.next]
  | nil =>
    cases error <;> simp [FramesIter.next, SlotIter.popFront, absFrames, respItems, DQ.next]

theorem C19_frames_nextBack_refines (it : FramesIter) :
    it.nextBack.1 = (DQ.nextBack (absFrames it)).1 ∧ absFrames it.nextBack.2 = (DQ.nextBack (absFrames it)).2 := by
  obtain ⟨frames, error⟩ := it
  cases error with
  | some e =>
    simp [FramesIter.nextBack, absFrames, respItems, DQ.nextBack]
  | none =>
    rcases eq_nil_or_snoc frames with rfl | ⟨t, a, rfl⟩
    · simp [FramesIter.nextBack, absFrames, respItems, DQ.nextBack]
    · simp [FramesIter.nextBack, absFrames, respItems, DQ.nextBack]

/-- `size_hint()` is exact in every state: both bounds = number of items not yet yielded -/
theorem C19_frames_sizeHint_state (it : FramesIter) :
    it.sizeHint = ((absFrames it).length, some (absFrames it).length) := by
  obtain ⟨frames, error⟩ := it
  cases error <;> simp [FramesIter.sizeHint, absFrames, respItems]

theorem frames_step_refines (b : Bool) (it : FramesIter) :
    (if b then it.nextBack else it.next).1 = (if b then DQ.nextBack (absFrames it) else DQ.next (absFrames it)).1 ∧
    absFrames (if b then it.nextBack else it.next).2 =
      (if b then DQ.nextBack (absFrames it) else DQ.next (absFrames it)).2 := by
  cases b
  · simpa using C19_frames_next_refines it
  · simpa using C19_frames_nextBack_refines it

/-- EVERY sequence of `next` / `next_back` on `response.frames()` / `response.into_iter()`: the
items are `frames.map Ok ++ error.map Err` consumed from either end, and the `size_hint()` observed
after every call is exactly the number of items not yet yielded -/
theorem C19_frames_seq_refines_state (it : FramesIter) (pat : List Bool) :
    driveFrames pat it = DQ.driveSized pat (absFrames it) := by
  induction pat generalizing it with
  | nil => rfl
  | cons b pat ih =>
    have := frames_step_refines b it
    simp only [driveFrames, DQ.driveSized]
    rw [ih, this.1, C19_frames_sizeHint_state, this.2]

theorem C19_frames_seq_refines (r : Response) (pat : List Bool) :
    driveFrames pat r.iter = DQ.driveSized pat (respItems r.frames r.error) :=
  C19_frames_seq_refines_state r.iter pat

/-- the initial `size_hint()` is frames + (1 if error) -/
theorem C19_frames_sizeHint_initial (r : Response) :
    r.iter.sizeHint = (r.successfulFrames + (if r.isError then 1 else 0),
                       some (r.successfulFrames + (if r.isError then 1 else 0))) := rfl

theorem DQ_driveSized_fst {α : Type} (pat : List Bool) (l : List α) :
    (DQ.driveSized pat l).map (·.1) = DQ.drive pat l := by
  induction pat generalizing l with
  | nil => rfl
  | cons b pat ih => simp [DQ.driveSized, DQ.drive, ih]

/-- the items alone -/
theorem C19_frames_items (r : Response) (pat : List Bool) :
    (driveFrames pat r.iter).map (·.1) = DQ.drive pat (respItems r.frames r.error) := by
  rw [C19_frames_seq_refines, DQ_driveSized_fst]

/-- number of `Some` among the first outputs -/
def yielded {α : Type} (outs : List (Option α)) : Nat := (outs.filter Option.isSome).length

theorem DQ_remaining_length {α : Type} (pat : List Bool) (l : List α) :
    (DQ.remaining pat l).length + yielded (DQ.drive pat l) = l.length := by
  induction pat generalizing l with
  | nil => simp [DQ.remaining, DQ.drive, yielded]
  | cons b pat ih =>
    cases b with
    | false =>
      cases l with
      | nil =>
        have := ih ([] : List α)
        simp only [DQ.remaining, DQ.drive, DQ.next, Bool.false_eq_true, if_false, List.head?_nil, List.tail_nil]
        simpa [yielded] using this
      | cons a t =>
        have := ih t
        simp only [DQ.remaining, DQ.drive, DQ.next, Bool.false_eq_true, if_false, List.head?_cons, List.tail_cons]
        simp [yielded] at this ⊢; omega
    | true =>
      rcases eq_nil_or_snoc l with rfl | ⟨t, a, rfl⟩
      · have := ih ([] : List α)
        simp only [DQ.remaining, DQ.drive, DQ.nextBack, if_true, List.getLast?_nil, List.dropLast_nil]
        simpa [yielded] using this
      · have := ih t
        simp only [DQ.remaining, DQ.drive, DQ.nextBack, if_true, List.getLast?_concat, List.dropLast_concat]
        simp [yielded] at this ⊢; omega

/-- the iterator state after a call sequence -/
def framesAfter : List Bool → FramesIter → FramesIter
  | [], it => it
  | b :: pat, it => framesAfter pat (if b then it.nextBack else it.next).2

theorem absFrames_after (pat : List Bool) (it : FramesIter) :
    absFrames (framesAfter pat it) = DQ.remaining pat (absFrames it) := by
  induction pat generalizing it with
  | nil => rfl
  | cons b pat ih =>
    simp only [framesAfter, DQ.remaining]
    rw [ih, (frames_step_refines b it).2]

/-- exact size hints, counted: after ANY call sequence,
`size_hint() = (n, Some(n))` with `n + (number of items yielded so far) = frames + (1 if error)` -/
theorem C19_frames_sizeHint_exact (r : Response) (pat : List Bool) :
    ∃ n, (framesAfter pat r.iter).sizeHint = (n, some n) ∧
      n + yielded ((driveFrames pat r.iter).map (·.1)) = r.frames.length + (if r.error.isSome then 1 else 0) := by
  refine ⟨(absFrames (framesAfter pat r.iter)).length, C19_frames_sizeHint_state _, ?_⟩
  rw [absFrames_after, C19_frames_items, absFrames_iter, DQ_remaining_length]
  cases r.error <;> simp [respItems]

/-- fused -/
theorem C19_frames_fused (it : FramesIter) (b : Bool) (pat : List Bool)
    (h : (if b then it.nextBack else it.next).1 = none) :
    (driveFrames pat (if b then it.nextBack else it.next).2).map (·.1) = pat.map (fun _ => none) := by
  have hr := frames_step_refines b it
  rw [C19_frames_seq_refines_state, DQ_driveSized_fst, hr.2]
  rw [hr.1] at h
  have : absFrames it = [] := by
    cases b
    · simpa [DQ.next] using h
    · simpa [DQ.nextBack] using h
  rw [this]
  cases b <;> simp [DQ.next, DQ.nextBack, DQ_drive_nil]

theorem DQ_drive_all_front {α : Type} (l : List α) :
    DQ.drive (List.replicate l.length false) l = l.map some := by
  induction l with
  | nil => rfl
  | cons a t ih => simp [List.replicate_succ, DQ.drive, DQ.next, ih]

theorem DQ_drive_all_back {α : Type} (l : List α) :
    DQ.drive (List.replicate l.length true) l = l.reverse.map some := by
  induction l using snoc_induction with
  | nil => rfl
  | snoc t a ih => simp [List.replicate_succ, DQ.drive, DQ.nextBack, ih]

/-- forward: successful frames in order, then the error -/
theorem C19_frames_forward (r : Response) :
    (driveFrames (List.replicate (r.frames.length + r.error.toList.length) false) r.iter).map (·.1) =
      (r.frames.map Except.ok ++ r.error.toList.map Except.error).map some := by
  rw [C19_frames_items]
  have : r.frames.length + r.error.toList.length = (respItems r.frames r.error).length := by simp [respItems]
  rw [this, DQ_drive_all_front]; rfl

/-- backward: the error first, then the frames last to first -/
theorem C19_frames_backward (r : Response) :
    (driveFrames (List.replicate (r.frames.length + r.error.toList.length) true) r.iter).map (·.1) =
      (r.error.toList.map Except.error ++ r.frames.reverse.map Except.ok).map some := by
  rw [C19_frames_items]
  have : r.frames.length + r.error.toList.length = (respItems r.frames r.error).length := by simp [respItems]
  rw [this, DQ_drive_all_back]
  cases r.error <;> simp [respItems]

theorem C19_successfulFrames (r : Response) : r.successfulFrames = r.frames.length := rfl
theorem C19_isError (r : Response) : r.isError = r.error.isSome := rfl

/-! ## 7. `into_single_frame` and its `unwrap` -/

/-- responses the builder can produce: at least one frame, or an error -/
def Response.WellFormed (r : Response) : Prop := r.frames ≠ [] ∨ r.error.isSome = true

instance (r : Response) : Decidable (Response.WellFormed r) := by unfold Response.WellFormed; exact inferInstance

/-- exact characterisation: the `unwrap` panics iff there is neither a frame nor an error -/
theorem C19_intoSingleFrame_panic_iff (r : Response) :
    r.intoSingleFrame = .panic ↔ ¬ Response.WellFormed r := by
  obtain ⟨frames, error⟩ := r
  cases frames <;> cases error <;>
    simp [Response.intoSingleFrame, Response.iter, FramesIter.next, SlotIter.popFront, Response.WellFormed]

/-- never panics on a well-formed response; the result is the first frame, else the error -/
theorem C19_intoSingleFrame (r : Response) (h : Response.WellFormed r) :
    r.intoSingleFrame = .val (match r.frames with | f :: _ => .ok f | [] => .error (r.error.getD {})) ∧
    r.intoSingleFrame ≠ .panic := by
  obtain ⟨frames, error⟩ := r
  cases frames <;> cases error <;>
    simp_all [Response.intoSingleFrame, Response.iter, FramesIter.next, SlotIter.popFront, Response.WellFormed]

/-- invariant of the builder state that makes the comment "There is always at least one frame" true -/
def stateOk : Assemble.State → Prop
  | .listInProgress _ done => done ≠ []
  | _ => True

theorem step_ok (s : Assemble.State) (c : Assemble.Comp) (hs : stateOk s) :
    stateOk (Assemble.step s c).1 ∧ ∀ r, (Assemble.step s c).2 = some r → Response.WellFormed r := by
  cases c <;> cases s <;> simp_all [Assemble.step, stateOk, Response.WellFormed, Response.empty]

/-- every response `ResponseBuilder` can emit — from any component stream, starting in any state
reachable from `Initial` — has a frame or an error, hence `into_single_frame` never panics on it -/
theorem C19_builder_wellformed (s : Assemble.State) (hs : stateOk s) (cs : List Assemble.Comp) :
    ∀ r ∈ (Assemble.run s cs).1, Response.WellFormed r ∧ r.intoSingleFrame ≠ .panic := by
  induction cs generalizing s with
  | nil => simp [Assemble.run]
  | cons c cs ih =>
    have hstep := step_ok s c hs
    simp only [Assemble.run]
    cases hc : Assemble.step s c with
    | mk s' o =>
      rw [hc] at hstep
      cases o with
      | none => exact ih s' hstep.1
      | some r0 =>
        intro r hr
        simp at hr
        rcases hr with rfl | hr
        · have := hstep.2 r rfl; exact ⟨this, (C19_intoSingleFrame r this).2⟩
        · exact ih s' hstep.1 r hr

theorem C19_builder_wellformed_initial (cs : List Assemble.Comp) :
    ∀ r ∈ (Assemble.run .initial cs).1, r.intoSingleFrame ≠ .panic :=
  fun r hr => (C19_builder_wellformed .initial trivial cs r hr).2

/-! ## 8. non-vacuity: a frame with duplicate keys, case-variant keys, holes and a blob -/

/-- wire: `a: 1`, (taken), `A: 2`, `a: 3`, (taken), `file: x`, binary `01 02` -/
def exF : Frame :=
  { slots := [some (str "a", str "1"), none, some (str "A", str "2"), some (str "a", str "3"), none,
              some (str "file", str "x")],
    binary := some [1, 2] }

def exFields : List (Bytes × Bytes) :=
  [(str "a", str "1"), (str "A", str "2"), (str "a", str "3"), (str "file", str "x")]

example : (abs exF).fields = exFields := by decide

-- the concrete functions really run over the holes (kernel evaluation of the model itself)
example : Fields.next exF.slots = (some (str "a", str "1"), exF.slots.tail) := by decide +kernel
example : Fields.next exF.slots.tail = (some (str "A", str "2"), exF.slots.drop 3) := by decide +kernel
example : Fields.nextBack (exF.get (str "file")).2.slots =
    (some (str "a", str "3"), [some (str "a", str "1"), none, some (str "A", str "2")]) := by decide +kernel
example : exF.fieldsLen = 4 ∧ exF.isEmpty = false ∧ exF.find (str "a") = some (str "1") ∧
    exF.find (str "FILE") = none ∧ exF.find (str "File") = none := by decide +kernel
example : (exF.get (str "a")).2.slots =
    [none, none, some (str "A", str "2"), some (str "a", str "3"), none, some (str "file", str "x")] := by
  decide +kernel
example : Fields.collect exF.slots = exFields ∧ Fields.collectBack exF.slots = exFields.reverse := by
  decide +kernel
example : driveFields [false, true, true, false, false, true, false] exF.slots =
    [some (str "a", str "1"), some (str "file", str "x"), some (str "a", str "3"), some (str "A", str "2"),
     none, none, none] := by decide +kernel

-- a call sequence through the refinement theorem: first / second / no third match of `a`, `A` untouched
example : run exF [.find (str "a"), .get (str "a"), .get (str "a"), .get (str "a"), .find (str "A"), .len,
                   .takeBinary, .takeBinary, .isEmpty, .iterBackAll, .into [.nextBack, .takeBinary, .next, .next]] =
    [.val (some (str "1")), .val (some (str "1")), .val (some (str "3")), .val none, .val (some (str "2")),
     .nat 2, .val (some [1, 2]), .val none, .bool false,
     .items [(str "file", str "x"), (str "A", str "2")],
     .steps [.kv (some (str "file", str "x")), .bin none, .kv (some (str "A", str "2")), .kv none]] := by
  rw [C19_refines]; decide

-- hypotheses of `C19_get_removes_first` / `C19_get_twice` / `C19_find_case_sensitive` are satisfiable
example : (exF.get (str "a")).1 = some (str "1") ∧
    (abs (exF.get (str "a")).2).fields = [(str "A", str "2"), (str "a", str "3"), (str "file", str "x")] := by
  have := C19_get_removes_first exF (str "a") (str "1") [] [(str "A", str "2"), (str "a", str "3"), (str "file", str "x")]
    (by decide) (by simp)
  exact ⟨this.1, this.2.1⟩

example : ((exF.get (str "a")).2.get (str "a")).1 = some (str "3") :=
  (C19_get_twice exF (str "a") (str "1") (str "3") [] [(str "A", str "2")] [(str "file", str "x")]
    (by decide) (by simp) (by decide)).2.1

example : exF.find (str "FILE") = none ∧ (exF.get (str "FILE")).1 = none :=
  C19_find_case_sensitive exF (str "FILE") (by decide)

-- hypothesis of the fused theorems: an iterator over holes only returns `None` at once
example : (if true then Fields.nextBack [none, none] else Fields.next [none, none]).1 = none := by
  decide +kernel
example : driveFields [false, true, false] (Fields.nextBack [none, none]).2 = [none, none, none] :=
  C19_fields_fused [none, none] true [false, true, false] (by decide +kernel)
example : (stepInto { iter := [none], binary := some [7] } .next).1 = .kv none := by decide +kernel

/-- a command-list response with two frames and an error -/
def exR : Response :=
  { frames := [Frame.ofFields [(str "i", str "0")] none, Frame.ofFields [(str "i", str "1")] (some [9])],
    error := some { code := 5, commandIndex := 2, message := str "boom" } }

example : (driveFrames [true, false, true, false, true] exR.iter).map (fun x => (x.1.map (·.isOk), x.2)) =
    [(some false, (2, some 2)), (some true, (1, some 1)), (some true, (0, some 0)),
     (none, (0, some 0)), (none, (0, some 0))] := by decide
example : exR.iter.sizeHint = (3, some 3) := by decide
example : Response.WellFormed exR := by decide
example : exR.intoSingleFrame = .val (.ok (Frame.ofFields [(str "i", str "0")] none)) := by decide
example : ({ frames := [], error := exR.error } : Response).intoSingleFrame = .val (.error (exR.error.getD {})) := by
  decide
/-- the `unwrap` is a real branch of the model: a hand-made response with nothing in it panics -/
example : ({ frames := [], error := none } : Response).intoSingleFrame = .panic := by decide
-- the builder invariant holds in a non-initial state, and the builder emits non-trivial responses
example : stateOk (.listInProgress {} [{}]) := by simp [stateOk]
example : (Assemble.run .initial [.field (str "i") (str "0"), .endOfFrame, .endOfFrame,
            .error { code := 5, commandIndex := 2 }, .endOfResponse, .error {}]).1 =
    [{ frames := [Frame.ofFields [(str "i", str "0")] none, {}], error := some { code := 5, commandIndex := 2 } },
     Response.empty, { frames := [], error := some {} }] := by decide

end Mpd.C19
