import Mpd.Command
import MpdSpec.Tokenizer
import MpdProofs.Lemmas.Tok
import MpdProofs.Lemmas.Utf8
/-!
# C06 — command arguments reach the server byte for byte

Full statement of the property (kept visible; it is FALSE on the code as it is, see `C06_K1_fails`):

    ∀ n as c, build n = .ok c → (∀ a ∈ as, accepted a) →
      ∃ line, addArguments c as = .ok line ∧ Spec.Tok.tokenizeLine line = some (n, as)

where `accepted a` (no LF, no NUL) is exactly "the builder accepts the string argument"
(`C06_accepted_iff`).  What is proved:

* `C06_partial` — the statement for all names and all argument lists none of whose arguments is
  in the decidable class `K1` (contains `'`, `"` or `\` and no byte `≤ 0x20`);
* `C06_iff_no_K1` — for accepted arguments the round trip holds **iff** no argument is in `K1`
  (so `K1` is the exact failure set, for every name, every list length and every position);
* `C06_K1_fails` + three `decide`d witnesses pinned by the repository's own tests;
* `C06_rejected` — what is not `accepted` is refused and leaves the command unchanged;
* `C06_wire` — the same on the bytes `Connection::send` writes.

MPD's limit of 16 arguments per request is not part of the tokenizer model.
-/
namespace Mpd.C06
open Mpd Mpd.Cmd Spec.Tok Mpd.TokL

/-- the string argument contains neither LF nor NUL (what `validate_argument` lets through) -/
def accepted (a : Bytes) : Prop := LF ∉ a ∧ (0 : UInt8) ∉ a

instance (a : Bytes) : Decidable (accepted a) := by unfold accepted; infer_instance

/-- known finding K1: a quote or backslash, and nothing that forces quoting -/
def K1 (a : Bytes) : Prop := a.any shouldEscape = true ∧ needsQuotes a = false

instance (a : Bytes) : Decidable (K1 a) := by unfold K1; infer_instance

/-- `K1` is the class the driver evaluates (`Mpd.Cmd.isK1`) -/
theorem K1_iff_isK1 (a : Bytes) : K1 a ↔ isK1 a = true := by
  simp [K1, isK1]

/-- a `K1` argument is always accepted by the builder (it has no byte `≤ 0x20`) -/
theorem K1.accepted {a : Bytes} (h : K1 a) : accepted a := by
  obtain ⟨_, hws⟩ := (needsQuotes_false_iff a).mp h.2
  exact ⟨fun hm => by simpa [ws_LF] using hws _ hm, fun hm => by simpa [ws_zero] using hws _ hm⟩

/-- the bytes all arguments add to the command buffer -/
def encArgs (as : List Bytes) : Bytes := as.flatMap fun a => SPACE :: escapeArgument a

/-- the request line for name `n` and string arguments `as` -/
def line (n : Bytes) (as : List Bytes) : Bytes := n ++ encArgs as

@[simp] theorem encArgs_nil : encArgs [] = [] := rfl
@[simp] theorem encArgs_cons (a : Bytes) (as : List Bytes) :
    encArgs (a :: as) = SPACE :: (escapeArgument a ++ encArgs as) := by
  simp [encArgs]
theorem encArgs_append (xs ys : List Bytes) : encArgs (xs ++ ys) = encArgs xs ++ encArgs ys := by
  simp [encArgs]

/-! ## the builder -/

theorem C06_accepted_iff (c a : Bytes) :
    (∃ c', (addArgument c a).1 = .ok c') ↔ accepted a := by
  unfold addArgument
  by_cases h : Clean (escapeArgument a)
  · rw [addRendered_clean c _ h]
    exact ⟨fun _ => (clean_escapeArgument a).mp h, fun _ => ⟨_, rfl⟩⟩
  · obtain ⟨i, hi⟩ := addRendered_unclean c _ h
    rw [hi]
    exact ⟨fun ⟨_, hc⟩ => (by simp at hc), fun ha => absurd ((clean_escapeArgument a).mpr ha) h⟩

/-- an argument with a line feed or a NUL is refused, and the command is exactly as before -/
theorem C06_rejected (c a : Bytes) (h : ¬ accepted a) :
    ∃ e, addArgument c a = (.error e, c) := by
  obtain ⟨i, hi⟩ := addRendered_unclean c (escapeArgument a)
    (fun hc => h ((clean_escapeArgument a).mp hc))
  exact ⟨_, hi⟩

theorem addArgument_accepted (c a : Bytes) (h : accepted a) :
    addArgument c a = (.ok (c ++ SPACE :: escapeArgument a), c ++ SPACE :: escapeArgument a) :=
  addRendered_clean c _ ((clean_escapeArgument a).mpr h)

/-- adding accepted arguments one after the other yields `line` -/
theorem addArguments_accepted (c : Bytes) (as : List Bytes) (h : ∀ a ∈ as, accepted a) :
    addArguments c as = .ok (c ++ encArgs as) := by
  induction as generalizing c with
  | nil => simp [addArguments]
  | cons a as ih =>
    have ha := h a (by simp)
    simp only [addArguments, addArgument_accepted c a ha]
    rw [ih _ fun x hx => h x (by simp [hx])]
    simp

/-! ## the request line as MPD sees it -/

theorem encArgs_wsOrEnd (as : List Bytes) : WsOrEnd (encArgs as) := by
  cases as with
  | nil => exact .inl rfl
  | cons a as => exact .inr ⟨SPACE, _, encArgs_cons a as, ws_SPACE⟩

/-- after the blank, the next parameter starts immediately -/
theorem stripLeft_encArgs (as : List Bytes) : stripLeft (encArgs as) = (encArgs as).tail := by
  cases as with
  | nil => rfl
  | cons a as =>
    obtain ⟨b, t, hb, hws⟩ := escapeArgument_head a
    simp [stripLeft_ws ws_SPACE, hb, stripLeft_head hws]

theorem encArgs_endsNW {as : List Bytes} (h : as ≠ []) : EndsNW (encArgs as) := by
  rcases List.eq_nil_or_concat as with h' | ⟨init, a, rfl⟩
  · exact absurd h' h
  · rw [List.concat_eq_append, encArgs_append]
    apply EndsNW.append_left
    simp only [encArgs_cons, encArgs_nil, List.append_nil]
    exact EndsNW.append_left [SPACE] (escapeArgument_endsNW a)

theorem line_endsNW {n : Bytes} (hn : NameOk n) (as : List Bytes) : EndsNW (line n as) := by
  unfold line
  cases as with
  | nil => simpa using hn.endsNW
  | cons a as => exact EndsNW.append_left n (encArgs_endsNW (by simp))

theorem encArgs_no_nul (as : List Bytes) (h : ∀ a ∈ as, accepted a) : (0 : UInt8) ∉ encArgs as := by
  induction as with
  | nil => simp
  | cons a as ih =>
    have ha := (clean_escapeArgument a).mpr (h a (by simp))
    have := ih fun x hx => h x (by simp [hx])
    simp only [encArgs_cons, List.mem_cons, List.mem_append, not_or]
    exact ⟨by decide, ha.2, this⟩

theorem encArgs_no_lf (as : List Bytes) (h : ∀ a ∈ as, accepted a) : LF ∉ encArgs as := by
  induction as with
  | nil => simp
  | cons a as ih =>
    have ha := (clean_escapeArgument a).mpr (h a (by simp))
    have := ih fun x hx => h x (by simp [hx])
    simp only [encArgs_cons, List.mem_cons, List.mem_append, not_or]
    exact ⟨by decide, ha.1, this⟩

/-- `StripRight` and the C-string view do not change the line: it ends in a name byte, a closing
quote or the last byte of an unquoted argument, and contains no NUL -/
theorem line_view {n : Bytes} (hn : NameOk n) (as : List Bytes) (h : ∀ a ∈ as, accepted a) :
    cstr (stripRight (line n as)) = line n as := by
  rw [(line_endsNW hn as).stripRight]
  apply cstr_of_no_nul
  unfold line
  simp only [List.mem_append, not_or]
  exact ⟨hn.no_nul, encArgs_no_nul as h⟩

/-! ## one parameter -/

/-- an argument outside `K1` is read back exactly, whatever follows it -/
theorem nextParam_good (a : Bytes) (as : List Bytes) (h : isK1 a = false) :
    nextParam (escapeArgument a ++ encArgs as) = some (a, (encArgs as).tail) := by
  rw [escapeArgument_eq]
  by_cases hq : needsQuotes a = true
  · simp only [hq, if_true, List.cons_append, List.append_assoc, List.nil_append, nextParam,
      beq_self_eq_true]
    rw [stringBody_escBody a _ (encArgs_wsOrEnd as), stripLeft_encArgs]
  · have hq' : needsQuotes a = false := by simpa using hq
    have he : a.any shouldEscape = false := by simpa [isK1, hq'] using h
    obtain ⟨hne, hws⟩ := (needsQuotes_false_iff a).mp hq'
    simp only [hq', Bool.false_eq_true, if_false, escBody_plain a he]
    have hall : a.all validUnquoted = true := by
      apply List.all_eq_true.mpr
      intro b hb
      have := List.any_eq_false.mp he b hb
      obtain ⟨_, h2, h3⟩ := (shouldEscape_false_iff b).mp (by simpa using this)
      exact (validUnquoted_iff b).mpr ⟨hws b hb, h2, h3⟩
    have hrun := nextUnquoted_run a (encArgs as) hne hws (encArgs_wsOrEnd as)
    rw [hall, if_pos rfl, stripLeft_encArgs] at hrun
    cases a with
    | nil => exact absurd rfl hne
    | cons b bs =>
      have hb : b ≠ QUOTE := ((validUnquoted_iff b).mp (List.all_eq_true.mp hall b (by simp))).2.1
      have hb' : (b == QUOTE) = false := by simpa using hb
      simpa only [List.cons_append, nextParam, hb', Bool.false_eq_true, if_false] using hrun

/-- a `K1` argument is never read back as itself: `NextUnquoted` either fails on the quote or
returns the argument *with* the backslashes the encoder inserted -/
theorem nextParam_K1 (a : Bytes) (as : List Bytes) (h : isK1 a = true) :
    nextParam (escapeArgument a ++ encArgs as) = none ∨
    nextParam (escapeArgument a ++ encArgs as) = some (escBody a, (encArgs as).tail) := by
  have hk := (K1_iff_isK1 a).mpr h
  obtain ⟨hne, hws⟩ := (needsQuotes_false_iff a).mp hk.2
  rw [escapeArgument_eq]
  simp only [hk.2, Bool.false_eq_true, if_false]
  have hws' : ∀ b ∈ escBody a, isWs b = false := by
    intro b hb
    rcases mem_escBody hb with hb | hb
    · exact hws b hb
    · subst hb; exact ws_BSLASH
  have hrun := nextUnquoted_run (escBody a) (encArgs as) (escBody_ne_nil hne) hws' (encArgs_wsOrEnd as)
  rw [stripLeft_encArgs] at hrun
  -- the first byte of `escBody a` is not a double quote, so `NextParam` takes the unquoted branch
  have hparam : nextParam (escBody a ++ encArgs as) = nextUnquoted (escBody a ++ encArgs as) := by
    cases a with
    | nil => exact absurd rfl hne
    | cons b bs =>
      simp only [escBody]
      by_cases hs : shouldEscape b = true
      · simp [hs, nextParam, BSLASH, QUOTE]
      · have hs' : shouldEscape b = false := by simpa using hs
        obtain ⟨_, h2, _⟩ := (shouldEscape_false_iff b).mp hs'
        simp [hs', nextParam, h2]
  rw [hparam, hrun]
  split
  · exact .inr rfl
  · exact .inl rfl

/-! ## the argument loop -/

theorem params_nil (fuel : Nat) : params fuel [] = some [] := by
  cases fuel <;> rfl

theorem params_succ {l : Bytes} (fuel : Nat) (h : l ≠ []) :
    params (fuel + 1) l =
      match nextParam l with
      | none => none
      | some (a, rest) => (params fuel rest).map (a :: ·) := by
  cases l with
  | nil => exact absurd rfl h
  | cons b bs => rfl

theorem tail_encArgs_cons (a : Bytes) (as : List Bytes) :
    (encArgs (a :: as)).tail = escapeArgument a ++ encArgs as := by simp

theorem tail_encArgs_ne_nil (a : Bytes) (as : List Bytes) : (encArgs (a :: as)).tail ≠ [] := by
  obtain ⟨b, t, hb, _⟩ := escapeArgument_head a
  simp [hb]

/-- the argument loop returns the argument list iff no argument is in `K1` -/
theorem params_encArgs (as : List Bytes) (fuel : Nat) (hf : as.length ≤ fuel) :
    params fuel (encArgs as).tail = some as ↔ ∀ a ∈ as, isK1 a = false := by
  induction as generalizing fuel with
  | nil => simp [params_nil]
  | cons a as ih =>
    cases fuel with
    | zero => simp at hf
    | succ fuel =>
      have hf' : as.length ≤ fuel := by simpa using hf
      rw [params_succ fuel (tail_encArgs_ne_nil a as), tail_encArgs_cons]
      by_cases hk : isK1 a = true
      · have hne := escBody_ne_of_any a ((K1_iff_isK1 a).mpr hk).1
        rcases nextParam_K1 a as hk with h | h
        · simp [h, hk]
        · rw [h]
          constructor
          · intro hp
            cases hp' : params fuel (encArgs as).tail with
            | none => simp [hp'] at hp
            | some xs => simp [hp'] at hp; exact absurd hp.1 hne
          · intro hall
            have := hall a (by simp)
            rw [hk] at this; cases this
      · have hk' : isK1 a = false := by simpa using hk
        rw [nextParam_good a as hk']
        simp only [List.mem_cons, forall_eq_or_imp, hk', true_and]
        rw [← ih fuel hf']
        cases params fuel (encArgs as).tail <;> simp

theorem length_le_encArgs (as : List Bytes) : as.length ≤ (encArgs as).length := by
  induction as with
  | nil => simp
  | cons a as ih => simp only [encArgs_cons, List.length_cons, List.length_append]; omega

/-- what MPD reads from the line of a valid name and accepted arguments -/
theorem tokenizeLine_line {n : Bytes} (hn : NameOk n) (as : List Bytes) (h : ∀ a ∈ as, accepted a) :
    tokenizeLine (line n as) =
      (params ((encArgs as).tail.length + 1) (encArgs as).tail).map fun xs => (n, xs) := by
  unfold tokenizeLine
  simp only [line_view hn as h]
  unfold line
  rw [nextWord_name hn _ (encArgs_wsOrEnd as), stripLeft_encArgs]

/-! ## the property -/

/-- **Exact characterisation.** For every accepted name and every list of accepted arguments, MPD
reads back the name and exactly those arguments **iff** no argument is in `K1`. -/
theorem C06_iff_no_K1 (n c : Bytes) (as : List Bytes) (hb : build n = .ok c)
    (hacc : ∀ a ∈ as, accepted a) :
    (∃ l, addArguments c as = .ok l ∧ tokenizeLine l = some (n, as)) ↔ ∀ a ∈ as, ¬ K1 a := by
  obtain ⟨rfl, hn⟩ := (build_ok_iff n c).mp hb
  have hfuel : as.length ≤ (encArgs as).tail.length + 1 := by
    have := length_le_encArgs as
    simp only [List.length_tail]; omega
  have key : tokenizeLine (line c as) = some (c, as) ↔ ∀ a ∈ as, ¬ K1 a := by
    rw [tokenizeLine_line hn as hacc]
    have := params_encArgs as _ hfuel
    simp only [K1_iff_isK1, Bool.not_eq_true]
    rw [← this]
    cases params ((encArgs as).tail.length + 1) (encArgs as).tail <;> simp
  rw [addArguments_accepted c as hacc]
  constructor
  · intro ⟨l, hl, ht⟩
    cases hl
    exact key.mp ht
  · intro hk
    exact ⟨_, rfl, key.mpr hk⟩

/-- **C06 outside K1** (all names, all argument lists of any length): the builder accepts, and
MPD's tokenizer splits the line into exactly the name and exactly the arguments. -/
theorem C06_partial (n c : Bytes) (as : List Bytes) (hb : build n = .ok c)
    (h : ∀ a ∈ as, accepted a ∧ ¬ K1 a) :
    ∃ l, addArguments c as = .ok l ∧ l = line n as ∧ tokenizeLine l = some (n, as) := by
  obtain ⟨l, h1, h2⟩ := (C06_iff_no_K1 n c as hb fun a ha => (h a ha).1).mpr fun a ha => (h a ha).2
  obtain ⟨rfl, _⟩ := (build_ok_iff n c).mp hb
  refine ⟨l, h1, ?_, h2⟩
  rw [addArguments_accepted c as fun a ha => (h a ha).1] at h1
  cases h1; rfl

/-- **K1 is a genuine failure**: the line built for a single `K1` argument is *not* read back as
that argument (known finding K1; the rendering is pinned by the crate's tests). -/
theorem C06_K1_fails (n c a : Bytes) (hb : build n = .ok c) (hk : K1 a) :
    addArguments c [a] = .ok (line n [a]) ∧ tokenizeLine (line n [a]) ≠ some (n, [a]) := by
  obtain ⟨rfl, _⟩ := (build_ok_iff n c).mp hb
  have hacc : ∀ x ∈ [a], accepted x := by simpa using hk.accepted
  refine ⟨addArguments_accepted c [a] hacc, fun ht => ?_⟩
  have := (C06_iff_no_K1 c c [a] hb hacc).mp ⟨_, addArguments_accepted c [a] hacc, ht⟩
  exact this a (by simp) hk

/-- … at any position of any argument list -/
theorem C06_K1_fails_anywhere (n c : Bytes) (as : List Bytes) (hb : build n = .ok c)
    (hacc : ∀ a ∈ as, accepted a) (hk : ∃ a ∈ as, K1 a) :
    ∀ l, addArguments c as = .ok l → tokenizeLine l ≠ some (n, as) := by
  intro l hl ht
  obtain ⟨a, ha, hka⟩ := hk
  exact (C06_iff_no_K1 n c as hb hacc).mp ⟨l, hl, ht⟩ a ha hka

/-- the same on the wire: `Connection::send` writes one request, and it is `(n, as)` -/
theorem C06_wire (n c : Bytes) (as : List Bytes) (hb : build n = .ok c)
    (h : ∀ a ∈ as, accepted a ∧ ¬ K1 a) :
    ∃ l, addArguments c as = .ok l ∧ tokenizeStream (sendBytes l) = some [some (n, as)] := by
  obtain ⟨l, h1, h2, h3⟩ := C06_partial n c as hb h
  refine ⟨l, h1, ?_⟩
  obtain ⟨rfl, hn⟩ := (build_ok_iff n c).mp hb
  have hlf : LF ∉ l := by
    rw [h2]; unfold line
    simp only [List.mem_append, not_or]
    exact ⟨hn.no_lf, encArgs_no_lf as fun a ha => (h a ha).1⟩
  simp [tokenizeStream, sendBytes, splitLines_one l hlf, h3]

/-! ## witnesses of K1 (renderings pinned by `argument_escaping` / `argument_rendering`) -/

/-- `Joe's` is sent as `Joe\'s`; MPD: "Invalid unquoted character" -/
theorem C06_K1_witness_squote :
    addArguments (str "find") [str "Joe's"] = .ok (str "find Joe\\'s") ∧
    tokenizeLine (str "find Joe\\'s") = none := by decide

/-- `a\b` is sent as `a\\b`; MPD reads the four bytes `a\\b` -/
theorem C06_K1_witness_bslash :
    addArguments (str "find") [str "a\\b"] = .ok (str "find a\\\\b") ∧
    tokenizeLine (str "find a\\\\b") = some (str "find", [str "a\\\\b"]) := by decide

/-- `foo"bar` is sent as `foo\"bar`; MPD: "Invalid unquoted character" -/
theorem C06_K1_witness_dquote :
    addArguments (str "find") [str "foo\"bar"] = .ok (str "find foo\\\"bar") ∧
    tokenizeLine (str "find foo\\\"bar") = none := by decide

/-! ## non-vacuity -/

example : build (str "find") = .ok (str "find") := by decide

/-- blanks, tab, quotes inside blanks, the empty string, a control byte, non-ASCII, a trailing
backslash inside a quoted argument -/
def sampleArgs : List Bytes :=
  [str "a b", [TAB], str "say \"hi\" it's", [], [0x0d], [0xc3, 0xa9, 0xe6, 0x97, 0xa5], str "x \\", str "plain"]

example : ∀ a ∈ sampleArgs, accepted a ∧ ¬ K1 a := by decide

example : addArguments (str "find") sampleArgs = .ok (line (str "find") sampleArgs) ∧
    tokenizeLine (line (str "find") sampleArgs) = some (str "find", sampleArgs) := by
  obtain ⟨l, h1, h2, h3⟩ := C06_partial (str "find") (str "find") sampleArgs (by decide) (by decide)
  subst h2; exact ⟨h1, h3⟩

example : K1 (str "Joe's") ∧ K1 (str "a\\b") ∧ K1 (str "foo\"bar") := by decide
example : ¬ accepted (str "a\nb") ∧ ¬ accepted [97, 0, 98] := by decide

/-! ## the bytewise model is not an approximation for non-ASCII text

`escape_argument` iterates `chars()`. For every Rust string — the UTF-8 encoding of any sequence of
Unicode scalar values — its transcription on chars (`Utf8.escapeArgumentC`, written as the Rust is
written) produces exactly the bytes the bytewise model produces, and those bytes are in the model's
domain (`validUtf8`). The theorems above, which quantify over all byte strings, therefore speak about
what the code does on every string, multi-byte characters included. -/

theorem C06_escape_is_charwise (cs : List Nat) (h : ∀ c ∈ cs, Utf8.isScalar c = true) :
    escapeArgument (Utf8.encodeStr cs) = Utf8.encodeStr (Utf8.escapeArgumentC cs) ∧
    validUtf8 (Utf8.encodeStr cs) = true :=
  ⟨Utf8.escapeArgument_encode cs (Utf8.chars_of_scalar cs h), Utf8.validUtf8_encodeStr cs h⟩

/-- non-vacuity: `Björk "Jóga"` (two-byte chars before a quote and a blank) -/
example : Utf8.encodeStr (Utf8.escapeArgumentC [66, 106, 246, 114, 107, 32, 34, 74, 243, 103, 97, 34]) =
    [34, 66, 106, 195, 182, 114, 107, 32, 92, 34, 74, 195, 179, 103, 97, 92, 34, 34] := by decide

end Mpd.C06
