import MpdProofs.Lemmas.Conn
import MpdProofs.Lemmas.Flaky
import MpdProofs.Lemmas.FlakyS
/-!
# C02 — parsed responses do not depend on how the byte stream is split into reads

For every byte stream, every segmentation into (non-empty) reads, every terminal condition, and
both connection flavours, the session (the sequence of `receive()` results up to and including the
first result that is not a response) equals `decodeAll`, the decoding of the whole stream delivered
at once. Hence any two segmentations of the same bytes, blocking or async, give identical results.
-/
namespace Mpd.C02
open Mpd Mpd.Parser Mpd.Builder Mpd.Conn

theorem termItem_not_resp (t : Term) (σ : BState) (u : Bytes) (r : Response) : termItem t σ u ≠ .resp r := by
  unfold termItem eofItem
  cases t <;> simp <;> split <;> simp

/-- `decodeAll` in terms of the one-call function -/
theorem decodeAll_succ (fuel : Nat) (s : Bytes) (term : Term) :
    decodeAll (fuel + 1) s term =
      match recvAll .initial s term with
      | (.resp r, rest) => .resp r :: decodeAll fuel rest term
      | (it, _) => [it] := by
  rw [decodeAll]
  unfold recvAll
  rcases hf : feed .initial s with ⟨σ', rest, out⟩
  cases out with
  | done r => simp
  | invalid => simp
  | panic => simp
  | pending =>
    simp only
    split
    · rename_i r rest' heq
      simp only [Prod.mk.injEq] at heq
      exact absurd heq.1 (termItem_not_resp _ _ _ _)
    · rename_i it rest' hne heq
      simp only [Prod.mk.injEq] at heq
      simp [heq.1]

/-- **async connection**: any segmentation = whole-stream decoding -/
theorem C02_async (fuel : Nat) (buf : Bytes) (chunks : List Bytes) (term : Term)
    (hne : NonEmptyChunks chunks) :
    sessionA fuel 0 .initial buf chunks term = decodeAll fuel (buf ++ chunks.flatten) term := by
  induction fuel generalizing buf chunks with
  | zero => simp [sessionA, decodeAll]
  | succ fuel ih =>
    rw [decodeAll_succ, sessionA]
    obtain ⟨h1, h2⟩ := recvLoopA_eq .initial buf chunks term hne
    have h0 := recvLoopA_resp_initial .initial buf chunks term
    unfold recvA
    rcases hr : recvLoopA .initial buf chunks term with ⟨it, buf', cs', σ'⟩
    rw [hr] at h1 h2 h0
    simp only at h1 h2 h0
    rw [← h1]
    cases it with
    | resp r => simp only; rw [h0 r rfl, ih buf' cs' h2]
    | clean => rfl
    | invalid => rfl
    | unexpectedEof => rfl
    | io k => rfl
    | panic => rfl

/-- **blocking connection** (fixed buffer of any positive size, doubling when full):
any segmentation = whole-stream decoding -/
theorem C02_sync (fuel : Nat) (b : SBuf) (chunks : List Bytes) (term : Term)
    (hne : NonEmptyChunks chunks) (hinv : SInv b) :
    sessionS fuel 0 .initial b chunks term = decodeAll fuel (b.data ++ chunks.flatten) term := by
  induction fuel generalizing b chunks with
  | zero => simp [sessionS, decodeAll]
  | succ fuel ih =>
    rw [decodeAll_succ, sessionS]
    obtain ⟨h1, h2, h3, _⟩ := recvLoopS_eq (scriptLen chunks + 1) .initial b chunks term hne hinv (Nat.lt_succ_self _)
    have h0 := recvLoopS_resp_initial (scriptLen chunks + 1) .initial b chunks term
    unfold recvS
    rcases hr : recvLoopS (scriptLen chunks + 1) .initial b chunks term with ⟨it, b', cs', σ'⟩
    rw [hr] at h1 h2 h3 h0
    simp only at h1 h2 h3 h0
    rw [← h1]
    cases it with
    | resp r => simp only; rw [h0 r rfl, ih b' cs' h2 h3]
    | clean => rfl
    | invalid => rfl
    | unexpectedEof => rfl
    | io k => rfl
    | panic => rfl

/-- the freshly connected blocking connection satisfies the buffer invariant -/
theorem fresh_inv : SInv { cap := DEFAULT_CAP, data := [] } := by unfold SInv DEFAULT_CAP; simp

/-- **C02**: the results depend only on the bytes sent — not on the segmentation, not on the flavour -/
theorem C02_segmentation_independent (fuel : Nat) (c1 c2 : List Bytes) (term : Term)
    (h1 : NonEmptyChunks c1) (h2 : NonEmptyChunks c2) (hflat : c1.flatten = c2.flatten) :
    sessionA fuel 0 .initial [] c1 term = sessionA fuel 0 .initial [] c2 term ∧
    sessionS fuel 0 .initial { cap := DEFAULT_CAP, data := [] } c1 term = sessionS fuel 0 .initial { cap := DEFAULT_CAP, data := [] } c2 term ∧
    sessionA fuel 0 .initial [] c1 term = sessionS fuel 0 .initial { cap := DEFAULT_CAP, data := [] } c2 term := by
  rw [C02_async fuel [] c1 term h1, C02_async fuel [] c2 term h2,
    C02_sync fuel _ c1 term h1 fresh_inv, C02_sync fuel _ c2 term h2 fresh_inv, hflat]
  simp

/-- the fuel is only a bound on the number of responses: with more fuel than bytes the session is
complete (it ends with a non-response item) and does not depend on the fuel -/
theorem decodeAll_fuel (f1 f2 : Nat) (s : Bytes) (term : Term) (h1 : s.length < f1) (h2 : s.length < f2) :
    decodeAll f1 s term = decodeAll f2 s term := by
  induction f1 generalizing f2 s with
  | zero => omega
  | succ f1 ih =>
    cases f2 with
    | zero => omega
    | succ f2 =>
      rw [decodeAll, decodeAll]
      rcases hf : feed .initial s with ⟨σ', rest, out⟩
      cases out with
      | done r =>
        have := feed_done_progress .initial s r (by rw [hf])
        rw [hf] at this
        simp only at this
        simp only
        rw [ih f2 rest (by omega) (by omega)]
      | invalid => rfl
      | panic => rfl
      | pending => rfl

theorem decodeAll_ends (fuel : Nat) (s : Bytes) (term : Term) (h : s.length < fuel) :
    ∃ pre last, decodeAll fuel s term = pre ++ [last] ∧ last.isResp = false ∧ ∀ x ∈ pre, x.isResp = true := by
  induction fuel generalizing s with
  | zero => omega
  | succ fuel ih =>
    rw [decodeAll]
    rcases hf : feed .initial s with ⟨σ', rest, out⟩
    cases out with
    | done r =>
      have := feed_done_progress .initial s r (by rw [hf])
      rw [hf] at this
      simp only at this
      obtain ⟨pre, last, h1, h2, h3⟩ := ih rest (by omega)
      refine ⟨.resp r :: pre, last, by simp [h1], h2, ?_⟩
      intro x hx
      simp only [List.mem_cons] at hx
      rcases hx with rfl | hx
      · rfl
      · exact h3 x hx
    | invalid => exact ⟨[], .invalid, rfl, rfl, by simp⟩
    | panic => exact ⟨[], .panic, rfl, rfl, by simp⟩
    | pending =>
      refine ⟨[], termItem term σ' rest, rfl, ?_, by simp⟩
      cases hti : termItem term σ' rest with
      | resp r => exact absurd hti (termItem_not_resp _ _ _ _)
      | _ => rfl

/-! ## non-vacuity: a response split inside a key, inside the binary header and inside the payload -/
example :
    sessionA 40 0 .initial [] [str "fo", str "o: bar\nbin", str "ary: 3\nA", str "\nB\nOK\nx"] .eof =
    decodeAll 40 (str "foo: bar\nbinary: 3\nA\nB\nOK\nx") .eof := by
  apply C02_async
  intro c hc
  simp only [List.mem_cons, List.mem_nil_iff, or_false] at hc
  rcases hc with rfl | rfl | rfl | rfl <;> decide

/-! ## a read that fails and delivers nothing is one more way of delivering the stream

If a `receive` call ends in a read error, the next call goes on from the connection state the failed
call left (receive buffer; builder state, fix F12) — and returns exactly what one uninterrupted call on
the whole script returns. Segmentation independence therefore extends to transports on which single
reads fail recoverably (time-out, `WouldBlock`, `Interrupted`): no line already consumed is lost. -/

theorem C02_failed_read_invisible_async (k : Nat) (t : Term) (cs1 cs2 : List Bytes) (σ : BState) (buf : Bytes)
    (h : (recvLoopA σ buf cs1 (.ioerr k)).1 = .io k) :
    recvLoopA (recvLoopA σ buf cs1 (.ioerr k)).2.2.2 (recvLoopA σ buf cs1 (.ioerr k)).2.1 cs2 t =
      recvLoopA σ buf (cs1 ++ cs2) t :=
  recvLoopA_resume k t cs2 cs1 σ buf h

theorem C02_failed_read_invisible_sync (k : Nat) (t : Term) (cs1 cs2 : List Bytes) (f1 f2 : Nat) (σ : BState) (b : SBuf)
    (h : (recvLoopS f1 σ b cs1 (.ioerr k)).1 = .io k) :
    ∃ f, recvLoopS f σ b (cs1 ++ cs2) t =
      recvLoopS (f2 + 1) (recvLoopS f1 σ b cs1 (.ioerr k)).2.2.2 (recvLoopS f1 σ b cs1 (.ioerr k)).2.1 cs2 t :=
  recvLoopS_resume k t cs2 f2 f1 cs1 σ b h

/-- non-vacuity: a time-out after `foo: bar\n` was consumed; the resumed call returns the whole frame -/
example : (recvLoopA .initial [] [str "foo: bar\n"] (.ioerr 2)).1 = .io 2 ∧
    (recvLoopA (recvLoopA .initial [] [str "foo: bar\n"] (.ioerr 2)).2.2.2
      (recvLoopA .initial [] [str "foo: bar\n"] (.ioerr 2)).2.1 [str "x: y\nOK\n"] .eof).1 =
      (recvLoopA .initial [] [str "foo: bar\nx: y\nOK\n"] .eof).1 := by
  decide +kernel

/-! ### any number of failed reads, anywhere (async connection)

A caller that simply calls `receive` again after every reported read failure (`recvRetryA`,
`sessionRetryA` in `Mpd/Conn.lean`): the pieces of the script between the failures behave like the
script without the failures — per logical receive (item, buffer and builder state left behind, rest
of the script) and for the whole session, which is therefore `decodeAll` of the bytes the peer sent. -/

theorem C02_failed_reads_invisible_call (more : List Conn.ScriptPiece) (σ : BState) (buf : Bytes) (cs : List Bytes) (t : Term)
    (hio : IoChain t more) :
    (recvRetryA σ buf cs t more).1 = (recvLoopA σ buf (flatScript cs more) (lastTerm t more)).1 ∧
    (recvRetryA σ buf cs t more).2.1 = (recvLoopA σ buf (flatScript cs more) (lastTerm t more)).2.1 ∧
    (recvRetryA σ buf cs t more).2.2.1 = (recvLoopA σ buf (flatScript cs more) (lastTerm t more)).2.2.2 :=
  ⟨(recvRetryA_eq more σ buf cs t hio).1, (recvRetryA_eq more σ buf cs t hio).2.1, (recvRetryA_eq more σ buf cs t hio).2.2.1⟩

theorem C02_failed_reads_invisible_session (fuel : Nat) (cs : List Bytes) (t : Term) (more : List Conn.ScriptPiece)
    (hio : IoChain t more) (hne : NonEmptyChunks (flatScript cs more)) :
    sessionRetryA fuel 0 .initial [] cs t more =
      decodeAll fuel (flatScript cs more).flatten (lastTerm t more) := by
  rw [sessionRetryA_eq fuel 0 .initial [] cs t more hio, C02_async fuel [] _ _ hne, List.nil_append]

/-- non-vacuity: a time-out in the middle of a line, then two failures in a row after a consumed line,
then the rest: the session is that of the unbroken stream -/
example :
    sessionRetryA 10 0 .initial [] [str "foo: b"] (.ioerr 2)
        [([str "ar\nx: y\n"], .ioerr 3), ([], .ioerr 2), ([str "OK\nz: 1\nOK\n"], .eof)] =
      decodeAll 10 (str "foo: bar\nx: y\nOK\nz: 1\nOK\n") .eof ∧
    IoChain (.ioerr 2) [([str "ar\nx: y\n"], .ioerr 3), ([], .ioerr 2), ([str "OK\nz: 1\nOK\n"], Term.eof)] := by
  constructor
  · decide +kernel
  · exact ⟨⟨2, rfl⟩, ⟨3, rfl⟩, ⟨2, rfl⟩, trivial⟩

/-! ### any number of failed reads, blocking connection -/

theorem C02_failed_reads_invisible_call_blocking (more : List Conn.ScriptPiece) (σ : BState) (b : SBuf)
    (cs : List Bytes) (t : Term) (hio : IoChain t more) (hne : NonEmptyChunks (flatScript cs more)) (hinv : SInv b) :
    ((recvRetryS σ b cs t more).1,
      (recvRetryS σ b cs t more).2.1.data ++
        (flatScript (recvRetryS σ b cs t more).2.2.2.1 (recvRetryS σ b cs t more).2.2.2.2.2).flatten) =
      recvAll σ (b.data ++ (flatScript cs more).flatten) (lastTerm t more) :=
  (recvRetryS_eq more σ b cs t hio hne hinv).1

theorem C02_failed_reads_invisible_session_blocking (fuel : Nat) (b : SBuf) (cs : List Bytes) (t : Term)
    (more : List Conn.ScriptPiece) (hio : IoChain t more) (hne : NonEmptyChunks (flatScript cs more)) (hinv : SInv b) :
    sessionRetryS fuel 0 .initial b cs t more =
      decodeAll fuel (b.data ++ (flatScript cs more).flatten) (lastTerm t more) := by
  induction fuel generalizing b cs t more with
  | zero => simp [sessionRetryS, decodeAll]
  | succ fuel ih =>
    rw [decodeAll_succ, sessionRetryS]
    obtain ⟨h1, h2, h3, h4, h5, h6⟩ := recvRetryS_eq more .initial b cs t hio hne hinv
    rcases hr : recvRetryS .initial b cs t more with ⟨it, b', σ', cs', t', more'⟩
    rw [hr] at h1 h2 h3 h4 h5 h6
    dsimp only at h1 h2 h3 h4 h5 h6
    rw [← h1]
    cases it with
    | resp r =>
      dsimp only
      rw [h6 r rfl, ih b' cs' t' more' h5 h2 h3, h4]
    | clean => rfl
    | invalid => rfl
    | unexpectedEof => rfl
    | io k => rfl
    | panic => rfl

/-- non-vacuity (blocking, a 16-byte buffer that has to double): a failure inside a line, two in a row -/
example :
    sessionRetryS 10 0 .initial { cap := 16, data := [] } [str "foo: b"] (.ioerr 2)
        [([str "ar\nx: y\n"], .ioerr 3), ([], .ioerr 2), ([str "OK\nz: 1\nOK\n"], .eof)] =
      decodeAll 10 (str "foo: bar\nx: y\nOK\nz: 1\nOK\n") .eof := by
  decide +kernel

end Mpd.C02
