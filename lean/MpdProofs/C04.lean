import MpdProofs.Lemmas.Skeleton
import MpdProofs.Lemmas.LoopInv
import MpdProofs.Lemmas.StreamRun
import MpdProofs.Lemmas.EndToEnd
/-!
# C04 — subsystem-change notifications are delivered exactly once and in order

* **message level, all schedules** (`C04_events`): in the closed system of `Lemmas/Skeleton.lean`
  (whole messages), for every interleaving, events delivered ++ changes still in flight =
  changes reported by the server, in order — nothing invented, nothing duplicated, nothing lost.
* **after fix F1** (`C04_all_changed_lines`): one event per `changed` line of an idle reply, in wire
  order (the unfixed code delivered only the first).
* **byte level, all runs** (`C04_events_from_stream`, `C04_drop_is_silent`): along every run of the
  task model after the greeting — any segmentation of the deliveries, any `select!` order, requests
  arriving (and receive futures being dropped) at any point — the events delivered are, in order,
  exactly the `changed` values of the idle replies among the responses decoded from the delivered
  stream; each response is consumed exactly once (`Loop.run_decodes`, `Loop.step_effect`).
* **names**: `Subsystem.fromName` preserves every name verbatim (C20: `C20_subsystem_name`).

FIXED FINDING K3 (fix F12): at BYTE level the property was false of the code: `receive()` was not
cancel-safe, so when the command branch of the `select!` won while the live receive future had
already parsed complete `changed:` lines of a not yet complete idle reply, those lines were lost.
After F12 the builder state of a dropped future is kept by the connection and resumed by the next
future (`dropFuture`, `St.bstash`); `C04_resume_witness` is the former failing schedule.
-/
namespace Mpd.C04
open Mpd Mpd.Loop

theorem C04_events (as : List Skeleton.Act) : Skeleton.Events (as.foldl Skeleton.step {}) :=
  (Skeleton.reach_all as).2.2.1

/-- after F1: every `changed` line of the frame becomes an event, in order, and nothing else -/
theorem C04_all_changed_lines (s : St) (f : AFrame) :
    (emitEvents s f).obs = s.obs ++ (changedValues f).map Obs.event :=
  (emitEvents_obs s f).1

example : changedValues { fields := [(str "changed", str "player"), (str "x", str "y"), (str "changed", str "mixer")] } =
    [str "player", str "mixer"] := by decide +kernel

/-- **byte level, all runs** -/
theorem C04_events_from_stream (s0 s : St) (D : Bytes) (h0 : AfterGreeting s0) (hr : Run s0 s D) :
    ∃ cs : List (Consumer × Builder.Response),
      (∀ q, Decodes .initial (D ++ q) (cs.map (·.2)) (future s q)) ∧ Attr cs (responses s.obs) (eventsOf s.obs) := by
  obtain ⟨cs, h1, h2, _⟩ := (run_decodes s0 s D h0 hr).2
  exact ⟨cs, h1, h2⟩

/-- the events a list of consumed responses produces: the `changed` values of those consumed by the
idle loop, in order -/
def idleEvents (cs : List (Consumer × Builder.Response)) : List Bytes :=
  cs.flatMap fun c => match c.1 with
    | .idle => eventsOfReply c.2
    | _ => []

theorem attr_events {cs : List (Consumer × Builder.Response)} {resp : List (Nat × Builder.Response)} {ev : List Bytes}
    (h : Attr cs resp ev) : ev = idleEvents cs := by
  induction h with
  | nil => rfl
  | reply id r _ ih => simp [idleEvents, List.flatMap_append] at ih ⊢; exact ih
  | idle r _ ih => simp [idleEvents, List.flatMap_append] at ih ⊢; rw [ih]
  | verdict r _ ih => simp [idleEvents, List.flatMap_append] at ih ⊢; exact ih

theorem zip_fst_snd {α β} (cs : List (α × β)) : (cs.map (·.1)).zip (cs.map (·.2)) = cs := by
  induction cs with
  | nil => rfl
  | cons c cs ih => simp [ih]

/-- **exactly the changes the server reported, once, in order** (byte level, all runs, in-order
server): if the peer's stream is the concatenation of the encodings of its well-formed replies
`srv`, the i-th answering the i-th reply-producing line it received, then the events delivered so
far are the `changed` values of `view srv[i]` for exactly those `i < n` whose line was an `idle`
(`n` = number of responses consumed so far), in order — nothing invented, nothing lost, nothing
twice; whatever the segmentation, the `select!` order, and the moments at which requests arrive. -/
theorem C04_events_for_in_order_server (s0 s : St) (D : Bytes) (h0 : AfterGreeting s0) (hr : Run s0 s D)
    (srv : List Spec.AbsResp) (hwf : ∀ r ∈ srv, Spec.WF r = true) (tail : Bytes)
    (hD : D ++ tail = srv.flatMap Spec.enc) :
    ∃ n, n ≤ srv.length ∧
      eventsOf s.obs = idleEvents (((replyWrites s.obs).take n).zip ((srv.map viewResp).take n)) := by
  obtain ⟨cs, ha, _, ⟨rest, hpre⟩, hlen, hview⟩ := pairing_end_to_end s0 s D h0 hr srv hwf tail hD
  refine ⟨cs.length, hlen, ?_⟩
  rw [attr_events ha]
  congr 1
  have h1 : (replyWrites s.obs).take cs.length = cs.map (·.1) := by
    rw [hpre]; exact List.take_left' (by simp)
  have h2 : (srv.map viewResp).take cs.length = cs.map (·.2) := by
    apply List.ext_getElem?
    intro i
    by_cases hi : i < cs.length
    · rw [List.getElem?_take_of_lt hi, ← hview i hi]
    · have hge : cs.length ≤ i := Nat.le_of_not_lt hi
      rw [List.getElem?_eq_none (by simp; omega), List.getElem?_eq_none (by simp; omega)]
  rw [h1, h2, zip_fst_snd]

/-- dropping the live receive future because a request arrived changes nothing about what the
connection will decode, and delivers nothing (this is where the unfixed code lost events) -/
theorem C04_drop_is_silent (s : St) (σ : Builder.BState) (hpc : s.pc = .idling σ)
    (hq : s.queue ≠ []) (hnp : recvPollable s = false) :
    ∃ s', step s false = some s' ∧ (∀ q, future s' q = future s q) ∧
      responses s'.obs = responses s.obs ∧ eventsOf s'.obs = eventsOf s.obs := by
  have hstep : step s false = some (startCancel (dropFuture s σ)) := by
    unfold step
    rw [hpc]
    have : s.queue.isEmpty = false := by cases h : s.queue <;> simp_all
    simp [this, hnp]
  refine ⟨_, hstep, ?_⟩
  cases step_effect s _ false (by rw [hpc]; simp) hstep with
  | silent hf hq' => exact ⟨hf, hq'.1, hq'.2⟩
  | consumed r hf hσ hd =>
    -- impossible: nothing was polled; but the statement follows anyway from the sub-routine lemmas
    have hs := startCancel_same_fresh (dropFuture s σ)
    have hq' := quiet_startCancel (dropFuture s σ)
    refine ⟨fun q => ?_, hq'.1, hq'.2⟩
    unfold future
    rw [resid_sub hs]
    simp [resid, σcur, hpc, dropFuture]
  | broken it hit hp hq' =>
    have hs := startCancel_same_fresh (dropFuture s σ)
    refine ⟨fun q => ?_, hq'.1, hq'.2⟩
    unfold future
    rw [resid_sub hs]
    simp [resid, σcur, hpc, dropFuture]

/-- the former K3 schedule (model): an idle reply arrives in two pieces and a request is issued in
between; the `changed: options` line already parsed by the dropped receive future is carried over
into the future that waits for the `noidle` reply -/
def k3State : St :=
  { pc := .idling (.inProgress { fields := [(str "changed", str "options")] }), fresh := false,
    queue := [{ id := 1, bytes := str "ping\n" }], senders := 2 }

theorem C04_resume_witness :
    (step k3State false).map (fun s => (s.pc, s.obs)) =
      some (.cancelWait { id := 1, bytes := str "ping\n" } (.inProgress { fields := [(str "changed", str "options")] }),
            [.wrote NOIDLE .noidle]) := by decide +kernel

/-- ... and when the rest of the reply (`OK`) arrives, the event is delivered -/
theorem C04_resume_event :
    ((step k3State false).bind fun s => step { s with avail := str "OK\n" } false).map (fun s => s.obs) =
      some [.wrote NOIDLE .noidle, .event (str "options"), .wrote (str "ping\n") (.request 1)] := by decide +kernel

end Mpd.C04
