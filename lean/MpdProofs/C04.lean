import MpdProofs.Lemmas.Skeleton
import MpdProofs.Lemmas.LoopInv
/-!
# C04 — subsystem-change notifications are delivered exactly once and in order

* **message level, all schedules** (`C04_events`): in the closed system of `Lemmas/Skeleton.lean`
  (whole messages), for every interleaving, events delivered ++ changes still in flight =
  changes reported by the server, in order — nothing invented, nothing duplicated, nothing lost.
* **after fix F1** (`C04_all_changed_lines`): one event per `changed` line of an idle reply, in wire
  order (the unfixed code delivered only the first).
* **names**: `Subsystem.fromName` preserves every name verbatim (C20: `C20_subsystem_name`).

KNOWN FINDING K3 (open): at BYTE level the property is false of the code: `receive()` is not
cancel-safe, so when the command branch of the `select!` wins while the live receive future has
already parsed complete `changed:` lines of a not yet complete idle reply, those lines are lost.
The byte-level model reproduces this (`dropFuture` records exactly the lines that die with the
future; ghost observation `lost`), `C04_K3_witness` is a kernel-checked concrete schedule of the
MODEL on which an event is lost, the correspondence run replays it on the implementation, and the
oracle requires `events = reported − lost` exactly, so any OTHER loss is still a violation.
-/
namespace Mpd.C04
open Mpd Mpd.Loop

theorem C04_events (as : List Skeleton.Act) : Skeleton.Events (as.foldl Skeleton.step {}) :=
  (Skeleton.reach_all as).2.2.1

/-- after F1: every `changed` line of the frame becomes an event, in order, and nothing else -/
theorem C04_all_changed_lines (s : St) (f : AFrame) :
    (emitEvents s f).obs = s.obs ++ (changedValues f).map Obs.event :=
  (emitEvents_obs s f).1

example : changedValues { fields := [(str "changed", str "player"), (str "x", str "y"), (str "changed", str "mixer")] } =
    [str "player", str "mixer"] := by decide +kernel

/-- **K3 witness** (model): an idle reply arrives in two pieces and a request is issued in between;
the `changed: options` line already parsed by the dropped receive future is lost: no event. -/
def k3State : St :=
  { pc := .idling (.inProgress { fields := [(str "changed", str "options")] }), fresh := false,
    queue := [{ id := 1, bytes := str "ping\n" }], senders := 2 }

theorem C04_K3_witness :
    (step k3State false).map (fun s => s.obs) =
      some [.lost [str "options"], .wrote NOIDLE] := by decide +kernel

end Mpd.C04
