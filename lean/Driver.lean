import Driver.Util
import Driver.Tags
import Driver.Typed
