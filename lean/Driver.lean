import Driver.Util
import Driver.Tags
import Driver.Proto
import Driver.Frame
import Driver.Cmd
import Driver.Song
import Driver.Filter
import Driver.Commands
