import Driver.Util
import Driver.Tags
