import Driver.Util
import Driver.Tags
import Driver.Song
