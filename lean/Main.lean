import Driver
/-!
`mpd_driver`: reads operation lines `<op> <args…> => <implementation result>` on stdin and prints,
per line, `<model result> <oracle verdict on the implementation result> <class> <branch>`.
The model functions executed here are the definitions the theorems in `MpdProofs` are about.
-/
open Driver

/-- op prefix (text before the first `.`) → family driver; one line per family -/
def families : List (List String × (List String → String → Verdict)) := [
  (["tag", "sub"], Tags.handle),
  (["proto"], Proto.handle),
  (["frame", "resp"], Frame.handle),
  (["cmd"], Cmd.handle),
  (["song"], Song.handle),
  (["filter"], Filter.handle),
  (["typed"], Typed.handle),
  (["loop", "loopx"], Loop.handle),
  (["pc"], Commands.handle),
]

def dispatch (line : String) : String :=
  let line := line.trimAscii.toString
  let (opPart, impl) :=
    match line.splitOn " => " with
    | [a, b] => (a, b)
    | [a] => (a, "")
    | a :: rest => (a, " => ".intercalate rest)
    | [] => ("", "")
  let toks := opPart.splitOn " "
  let fam := match toks with
    | t :: _ => (t.splitOn ".").head!
    | [] => ""
  let v : Verdict :=
    match families.find? (fun f => f.1.contains fam) with
    | some f => f.2 toks impl
    | none => bad "family"
  v.render

partial def loop (h : IO.FS.Stream) (out : IO.FS.Stream) : IO Unit := do
  let line ← h.getLine
  if line.isEmpty then return ()
  out.putStrLn (dispatch line)
  loop h out

def main : IO Unit := do
  loop (← IO.getStdin) (← IO.getStdout)
