import Driver
/-!
`mpd_driver`: reads operation lines `<op> <args…> => <implementation result>` on stdin and prints,
per line, `<model result> <oracle verdict on the implementation result> <class> <branch>`.
The model functions executed here are the definitions the theorems in `MpdProofs` are about.
-/
open Driver

def dispatch (line : String) : String :=
  let line := line.trimAscii.toString
  let (opPart, impl) :=
    match line.splitOn " => " with
    | [a, b] => (a, b)
    | [a] => (a, "")
    | a :: rest => (a, " => ".intercalate rest)
    | [] => ("", "")
  let toks := opPart.splitOn " "
  let fam := match toks with
    | t :: _ => (t.splitOn ".").head!
    | [] => ""
  let v : Verdict :=
    if fam == "tag" || fam == "sub" then Tags.handle toks impl
    else if fam == "typed" then Typed.handle toks impl
    else bad "family"
  v.render

partial def loop (h : IO.FS.Stream) (out : IO.FS.Stream) : IO Unit := do
  let line ← h.getLine
  if line.isEmpty then return ()
  out.putStrLn (dispatch line)
  loop h out

def main : IO Unit := do
  loop (← IO.getStdin) (← IO.getStdout)
