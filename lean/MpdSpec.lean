import MpdSpec.Names
import MpdSpec.Tokenizer
import MpdSpec.FilterParse
