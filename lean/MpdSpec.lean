import MpdSpec.Names
import MpdSpec.Tokenizer
