import MpdSpec.Names
import MpdSpec.Tokenizer
import MpdSpec.Records
import MpdSpec.Views
