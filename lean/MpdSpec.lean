import MpdSpec.Names
import MpdSpec.Tokenizer
import MpdSpec.Grammar
import MpdSpec.FrameSpec
import MpdSpec.Listing
import MpdSpec.FilterParse
import MpdSpec.Requests
