import MpdSpec.Names
