import Mpd.Basic
import MpdSpec.Tokenizer
/-!
# Specification: an MPD server as far as the client loop is concerned

The *other side* of C01/C04/C05/C08/C13/C17/C18: MPD's `idle`/`noidle` rules, command lists,
optional password protection, and a small deterministic command set whose replies identify the
request (`echo`, `x`, `fail`, `bin`, `big`, `ping`, `readpicture`/`albumart` on self-describing URIs).

Rules (from MPD's `client/Process.cxx`, `command/AllCommands.cxx`, the protocol reference):
* `idle`: if changes are pending they are reported at once (`changed: …` lines, `OK`), else the
  server waits; a change while waiting is reported at once;
* `noidle` while waiting: the (possibly empty) report is sent; `noidle` otherwise: ignored, no reply;
* ANY other line while the server waits in idle is a protocol violation (MPD closes the connection);
* `command_list_ok_begin` … `command_list_end`: executed in order, `list_OK` after each, stop at
  the first failure with `ACK [code@index] {command} message`;
* a locked server answers everything but `password` with `ACK [4@0]`.
The server processes every complete line immediately; its output is one byte stream.
-/
namespace Spec.Server
open Mpd

structure Sv where
  inbuf : Bytes := []
  idle : Bool := false
  pend : List Bytes := []
  list : Option (List Bytes) := none
  locked : Bool := false
  out : Bytes := []                               -- everything written so far
  violations : List Bytes := []                   -- lines received while waiting in idle
  idleReplies : List (Nat × List Bytes) := []     -- (end offset in `out`, reported names) per idle reply
  blocks : List (List Bytes × Nat × Nat) := []    -- executed request blocks: (lines, start, end offset of the reply)
  authLines : List Bytes := []                    -- lines received while locked (other than password)
  binLimit : Option Nat := none                   -- set by `binarylimit N`: overrides the URI's chunk limit
  marks : List Nat := []                          -- end offsets of the complete responses written so far
  blockKinds : List Bool := []                    -- per executed block: was it a command list
  noIdle : Bool := false                          -- the server refuses `idle` (no permission / a proxy without it)
  refusedIdle : Bool := false                     -- it has refused one
deriving Repr, Inhabited

/-- deterministic picture bytes (contain protocol look-alikes) -/
def PAT : Bytes := str "OK\nlist_OK\nACK [5@0] {} x\nbinary: 3\n" ++ [0, 255]

def pictureByte (i : Nat) : UInt8 :=
  if i % 3 == 0 then PAT.getD ((i / 3) % PAT.length) 0
  else UInt8.ofNat ((i * 31 + 7) % 251)

def picture (off n : Nat) : Bytes := (List.range n).map fun i => pictureByte (off + i)

def decNat (b : Bytes) : Option Nat :=
  if b.isEmpty || !(b.all isDigit) then none else some (digitsVal b)

def splitOn (c : UInt8) (l : Bytes) : List Bytes :=
  let rec go : Bytes → Bytes → List Bytes
    | [], acc => [acc.reverse]
    | b :: bs, acc => if b == c then acc.reverse :: go bs [] else go bs (b :: acc)
  go l []

/-- a self-describing picture URI `art_<size>_<limit>_<emb>_<file>_<mime>[_tag]` -/
structure ArtCfg where
  size : Nat
  limit : Nat
  emb : Bytes        -- `y` has a picture, `n` empty reply, else an ACK code
  file : Bytes
  mime : Bool
  order : Nat := 0
deriving Repr

def parseArt (uri : Bytes) : Option ArtCfg :=
  match splitOn 95 uri with
  | a :: s :: l :: e :: f :: m :: _ =>
    if a != str "art" then none else
    match decNat s, decNat l with
    | some size, some limit =>
      -- m: 0 = no `type`; 1 = `size`, `type`; 2 = `type` before `size`; 3 = an unknown key between `size`
      -- and `type`; 4 = an unknown key after `type` (keys are looked up by name, in any order)
      some { size, limit, emb := e, file := f, mime := m == str "1" || m == str "2" || m == str "3" || m == str "4",
             order := (decNat m).getD 0 }
    | _, _ => none
  | _ => none

/-- reply body of one command, or (code, command name, message, output written before failing) -/
def execOne (lim : Option Nat) (line : Bytes) : Except (Nat × Bytes × Bytes × Bytes) Bytes :=
  match Spec.Tok.tokenizeLine line with
  | none => .error (5, [], str "tokenizer error", [])
  | some (name, args) =>
    let arg (i : Nat) : Bytes := args.getD i []
    if name == str "ping" then .ok []
    else if name == str "echo" then .ok (str "line: " ++ arg 0 ++ [LF])
    else if name == str "x" then .ok (str "line: " ++ line ++ [LF])
    else if name == str "fail" then .error (50, str "fail", str "failed " ++ arg 0, [])
    -- a server (or proxy) that does not track the position inside a list: its ACK always says `@0`
    else if name == str "failz" then .error (50, str "failz", str "failed " ++ arg 0, [])
    else if name == str "pfail" then
      .error (50, str "pfail", str "failed late " ++ arg 0, str "line: partial " ++ arg 0 ++ [LF] ++ str "more: output\n")
    else if name == str "binarylimit" then .ok []
    else if name == str "bin" then
      let n := (decNat (arg 0)).getD 0
      .ok (str "line: " ++ line ++ [LF] ++ str "binary: " ++ natToDec n ++ [LF] ++ picture 0 n ++ [LF])
    else if name == str "big" then
      let n := (decNat (arg 0)).getD 0
      .ok (str "line: " ++ List.replicate n 120 ++ [LF])
    else if name == str "readpicture" || name == str "albumart" then
      match parseArt (arg 0) with
      | none => .error (50, name, str "No such song", [])
      | some c =>
        let off := (decNat (arg 1)).getD 0
        let src := if name == str "readpicture" then c.emb else c.file
        if src == str "y" then
          let n := min (lim.getD c.limit) (c.size - off)
          let sizeL := str "size: " ++ natToDec c.size ++ [LF]
          let typeL := str "type: image/x-test\n"
          let head : Bytes :=
            if name == str "readpicture" && c.mime then
              (if c.order == 2 then typeL ++ sizeL
               else if c.order == 3 then sizeL ++ str "description: Cover (front)\n" ++ typeL
               else if c.order == 4 then sizeL ++ typeL ++ str "comment: x\n"
               else sizeL ++ typeL)
            else sizeL
          .ok (head ++ str "binary: " ++ natToDec n ++ [LF] ++ picture off n ++ [LF])
        else if src == str "n" then .ok []
        else
          let code := (decNat src).getD 50
          if code == 5 then .error (5, [], str "unknown command \"" ++ name ++ str "\"", [])
          else .error (code, name, str "No file exists", [])
    else .error (5, [], str "unknown command \"" ++ name ++ str "\"", [])

def ack (code idx : Nat) (cmd msg : Bytes) : Bytes :=
  str "ACK [" ++ natToDec code ++ [64] ++ natToDec idx ++ str "] {" ++ cmd ++ str "} " ++ msg ++ [LF]

/-- every call writes one complete response -/
def emitOut (s : Sv) (b : Bytes) : Sv := { s with out := s.out ++ b, marks := s.marks ++ [s.out.length + b.length] }

def flushIdle (s : Sv) : Sv :=
  let body := s.pend.flatMap (fun n => str "changed: " ++ n ++ [LF]) ++ str "OK\n"
  let s := emitOut s body
  { s with idle := false, idleReplies := s.idleReplies ++ [(s.out.length, s.pend)], pend := [] }

/-- a server-side change of a subsystem -/
def change (s : Sv) (name : Bytes) : Sv :=
  let s := if s.pend.contains name then s else { s with pend := s.pend ++ [name] }
  if s.idle then flushIdle s else s

/-- `binarylimit N` as a request: the new limit, if the line is one -/
def newLimit (lim : Option Nat) (line : Bytes) : Option Nat :=
  match Spec.Tok.tokenizeLine line with
  | some (name, args) =>
    if name == str "binarylimit" then
      match decNat (args.getD 0 []) with
      | some n => if n ≥ 1 then some n else lim
      | none => lim
    else lim
  | none => lim

/-- the reply to a request block (one command, or the commands of a list) and the chunk limit
in force afterwards -/
def replyBlockL (lim : Option Nat) (cmds : List Bytes) (isList : Bool) : Bytes × Option Nat :=
  if isList then
    let rec go (i : Nat) (lim : Option Nat) : List Bytes → Bytes × Option Nat
      | [] => (str "OK\n", lim)
      | c :: cs =>
        match execOne lim c with
        | .ok b =>
          let (rest, lim') := go (i + 1) (newLimit lim c) cs
          (b ++ str "list_OK\n" ++ rest, lim')
        | .error (code, cmd, msg, pre) => (pre ++ ack code (if cmd == str "failz" then 0 else i) cmd msg, lim)
    go 0 lim cmds
  else
    match cmds with
    | [c] =>
      (match execOne lim c with
       | .ok b => (b ++ str "OK\n", newLimit lim c)
       | .error (code, cmd, msg, pre) => (pre ++ ack code 0 cmd msg, lim))
    | _ => ([], lim)

/-- stateless view (default chunk limits) -/
def replyBlock (cmds : List Bytes) (isList : Bool) : Bytes := (replyBlockL none cmds isList).1

def respond (s : Sv) (cmds : List Bytes) (isList : Bool) : Sv :=
  let start := s.out.length
  let (reply, lim) := replyBlockL s.binLimit cmds isList
  let s := emitOut s reply
  { s with blocks := s.blocks ++ [(cmds, start, s.out.length)], blockKinds := s.blockKinds ++ [isList], binLimit := lim }

def isPassword (l : Bytes) : Option Bytes :=
  match Spec.Tok.tokenizeLine l with
  | some (name, args) => if name == str "password" then some (args.getD 0 []) else none
  | none => none

/-- one complete request line (without LF, right-stripped by the tokenizer as needed) -/
def line (s : Sv) (l : Bytes) : Sv :=
  if l == str "noidle" then (if s.idle then flushIdle s else s)
  else if s.idle then { s with violations := s.violations ++ [l] }
  else if s.locked then
    match isPassword l with
    | some pw =>
      if pw == str "secret" then emitOut { s with locked := false } (str "OK\n")
      else emitOut s (ack 3 0 (str "password") (str "incorrect password"))
    | none =>
      let name := match Spec.Tok.tokenizeLine l with | some (n, _) => n | none => []
      emitOut { s with authLines := s.authLines ++ [l] } (ack 4 0 name (str "you don't have permission"))
  else match s.list with
    | some acc =>
      if l == str "command_list_end" then respond { s with list := none } acc true
      else { s with list := some (acc ++ [l]) }
    | none =>
      if l == str "command_list_ok_begin" then { s with list := some [] }
      else if l == str "idle" then
        (if s.noIdle then
          emitOut { s with refusedIdle := true } (ack 4 0 (str "idle") (str "you don't have permission for \"idle\""))
         else if s.pend.isEmpty then { s with idle := true } else flushIdle s)
      else match isPassword l with
        | some pw =>
          if pw == str "secret" then emitOut s (str "OK\n")
          else emitOut s (ack 3 0 (str "password") (str "incorrect password"))
        | none => respond s [l] false

/-- feed bytes written by the client -/
def feed (s : Sv) (b : Bytes) : Sv :=
  let rec go (s : Sv) (cur : Bytes) : Bytes → Sv
    | [] => { s with inbuf := cur.reverse }
    | x :: xs => if x == LF then go (line s cur.reverse) [] xs else go s (x :: cur) xs
  go s s.inbuf.reverse b

end Spec.Server
