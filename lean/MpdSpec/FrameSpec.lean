import Mpd.AFrame
import Mpd.FrameOps
/-!
# Specification side of C19: the ordered multimap and the double-ended queue

* A frame *is* `Mpd.AFrame`: the list of key-value pairs the server sent (wire order) and the
  optional binary blob. `find` / `get` / `takeBinary` / `fieldsLen` / `isEmpty` are defined there.
* A double-ended iterator over a list of items *is* the list of items not yet yielded:
  `next` takes the head, `next_back` takes the last one.
* A response *is* the list `frames.map ok ++ error.toList.map err`.

`runAbs` interprets the operation language of `Mpd/FrameOps.lean` over these definitions; it never
mentions slots or holes. It is the oracle of the correspondence run.
-/
namespace Mpd.FrameSpec
open Mpd.FrameOps

/-! ## double-ended queue -/
namespace DQ

def next {α : Type} (l : List α) : Option α × List α := (l.head?, l.tail)
def nextBack {α : Type} (l : List α) : Option α × List α := (l.getLast?, l.dropLast)

/-- drive by a pattern (`false` = next, `true` = next_back), recording every returned item -/
def drive {α : Type} : List Bool → List α → List (Option α)
  | [], _ => []
  | b :: pat, l =>
    let r := if b then nextBack l else next l
    r.1 :: drive pat r.2

/-- the items still unyielded after a pattern -/
def remaining {α : Type} : List Bool → List α → List α
  | [], l => l
  | b :: pat, l => remaining pat (if b then nextBack l else next l).2

/-- the same, also recording the number of items not yet yielded after each call -/
def driveSized {α : Type} : List Bool → List α → List (Option α × (Nat × Option Nat))
  | [], _ => []
  | b :: pat, l =>
    let r := if b then nextBack l else next l
    (r.1, (r.2.length, some r.2.length)) :: driveSized pat r.2

end DQ

/-! ## owned iteration over an abstract frame -/

/-- abstract owned iterator: remaining pairs and the binary blob -/
structure AInto where
  items : List (Bytes × Bytes)
  binary : Option Bytes
deriving DecidableEq, Repr

def AInto.step (it : AInto) : IStep → StepOut × AInto
  | .next => (.kv it.items.head?, { it with items := it.items.tail })
  | .nextBack => (.kv it.items.getLast?, { it with items := it.items.dropLast })
  | .takeBinary => (.bin it.binary, { it with binary := none })

def AInto.drive : List IStep → AInto → List StepOut
  | [], _ => []
  | s :: pat, it =>
    let r := it.step s
    r.1 :: AInto.drive pat r.2

/-! ## the operation language over `AFrame` -/

def runAbs : AFrame → List Op → List Out
  | _, [] => []
  | f, .find k :: ops => .val (f.find k) :: runAbs f ops
  | f, .get k :: ops => let r := f.get k; .val r.1 :: runAbs r.2 ops
  | f, .takeBinary :: ops => let r := f.takeBinary; .val r.1 :: runAbs r.2 ops
  | f, .len :: ops => .nat f.fieldsLen :: runAbs f ops
  | f, .isEmpty :: ops => .bool f.isEmpty :: runAbs f ops
  | f, .hasBinary :: ops => .bool f.binary.isSome :: runAbs f ops
  | f, .binary :: ops => .val f.binary :: runAbs f ops
  | f, .iterAll :: ops => .items f.fields :: runAbs f ops
  | f, .iterBackAll :: ops => .items f.fields.reverse :: runAbs f ops
  | f, .iterMixed pat :: ops => .steps ((DQ.drive pat f.fields).map .kv) :: runAbs f ops
  | f, .into pat :: _ => [.steps (AInto.drive pat { items := f.fields, binary := f.binary })]

/-! ## responses -/

/-- what a response is: its successful frames in order, then its error, if any -/
def respItems {φ ε : Type} (frames : List φ) (error : Option ε) : List (Except ε φ) :=
  frames.map .ok ++ error.toList.map .error

end Mpd.FrameSpec
