import Mpd.Basic
import Mpd.Tag
import Mpd.Filter
import Mpd.Commands
import MpdSpec.Tokenizer
import MpdSpec.FilterParse
/-!
# Specification: the MPD request each predefined command stands for

Written from the MPD protocol reference (command reference of the 0.23 protocol), **not** from
`definitions.rs`: for every builder path of a predefined command (`Mpd.Commands.PCmd`, used here
only as the *value space* the specification ranges over) `expect` gives the documented command
word and, argument by argument, what the argument must **mean** (`ArgSem`).  `ArgSem.accepts`
reads a token, as MPD's request tokenizer delivers it, back into that meaning:

* numbers are compared numerically (`readNat`), relative positions as sign + number;
* `START:END` / `START:` are compared as the **set of queue positions** they denote
  (`rangeDenote`), restricted to positions below the integer maximum (`canon`): the Rust range
  value's set is given exactly, without saturation, by `exactLo` / `exactHi`
  (`boundsContain` is `RangeBounds::contains`);
* times are decimal seconds; the token must be within 1 ms of the exact `Duration`;
* strings, tag names, keywords byte for byte; filters through MPD's filter grammar
  (`Spec.Filter.parseFilterTop`), compared up to associativity of `AND`.

Protocol reference used (argument order and keywords):

```
clear | next | ping | previous | stop | status | stats | currentsong | replay_gain_status
playlistinfo [[SONGPOS] | [START:END]]        playlistid [SONGID]
listplaylists | tagtypes | readmessages | channels
playlistclear NAME | rm NAME | save NAME | listplaylistinfo NAME
subscribe NAME | unsubscribe NAME | sendmessage CHANNEL TEXT
consume STATE | pause STATE | random STATE | repeat STATE          STATE: 0 | 1
single STATE                                                       STATE: 0 | 1 | oneshot
setvol VOL (0..100) | crossfade SECONDS | replay_gain_mode MODE    MODE: off | track | album | auto
seek SONGPOS TIME | seekid SONGID TIME | seekcur [+|-]TIME         TIME: seconds, fractions allowed
shuffle [START:END] | play [SONGPOS] | playid [SONGID]
addid URI [POSITION]                          POSITION: N | +N | -N (relative to the current song)
delete [{POS} | {START:END}] | deleteid SONGID
move [{FROM} | {START:END}] TO | moveid FROM TO                    TO: N | +N | -N
find FILTER [sort TYPE] [window START:END]
list TYPE [FILTER] [group GROUPTYPE]...       count [FILTER] [group GROUPTYPE]
rename NAME NEW_NAME | load NAME [START:END] | playlistadd NAME URI [POSITION]
playlistdelete NAME {SONGPOS | START:END} | playlistmove NAME FROM TO
listallinfo [URI] | update [URI] | rescan [URI]
binarylimit SIZE | albumart URI OFFSET | readpicture URI OFFSET
tagtypes disable NAME... | tagtypes enable NAME... | tagtypes clear | tagtypes all
sticker get TYPE URI NAME | sticker set TYPE URI NAME VALUE | sticker delete TYPE URI NAME
sticker list TYPE URI | sticker find TYPE URI NAME [{= | < | >} VALUE]        TYPE: song
```

MPD's own numeric domains (32-bit unsigned positions, `float` seconds) are narrower than the Rust
types and are not part of this specification: numbers are read as unbounded naturals.
-/
namespace Spec.Req
open Mpd Mpd.Commands

/-! ## meaning of arguments -/

/-- what one argument of a request must mean -/
inductive ArgSem where
  | str (s : Bytes)                         -- an opaque string (URI, name, value, text), byte for byte
  | kw (w : Bytes)                          -- a literal keyword of the protocol
  | nat (n : Nat)                           -- a non-negative integer
  | rel (neg : Bool) (n : Nat)              -- a position relative to the current song: `+n` / `-n`
  | range (lo : Nat) (hi : Option Nat)      -- the positions `p` with `lo ≤ p` and (`hi = none` or `p < hi`)
  | time (sign : Option Bool) (nanos : Nat) -- seconds as a decimal; `sign`: none = absolute, some false = `+`, some true = `-`
  | bool (b : Bool)                         -- `0` / `1`
  | tag (name : Bytes)                      -- a tag type, by protocol name
  | filter (e : Spec.Filter.Expr)           -- a filter expression
deriving Repr

/-- positions denoted by `lo:hi` / `lo:` -/
def rangeDenote (lo : Nat) (hi : Option Nat) (p : Nat) : Prop :=
  lo ≤ p ∧ match hi with
    | none => True
    | some b => p < b

/-- `RangeBounds::contains` for `(start_bound, end_bound)` -/
def boundsContain (s e : Bound) (p : Nat) : Prop :=
  (match s with
    | .included a => a ≤ p
    | .excluded a => a < p
    | .unbounded => True) ∧
  (match e with
    | .included b => p ≤ b
    | .excluded b => p < b
    | .unbounded => True)

/-- the exact (unsaturated) half-open interval of a Rust range -/
def exactLo : Bound → Nat
  | .included a => a
  | .excluded a => a + 1
  | .unbounded => 0
def exactHi : Bound → Option Nat
  | .included b => some (b + 1)
  | .excluded b => some b
  | .unbounded => none

/-- canonical form of the set `rangeDenote lo hi` restricted to positions `p < max`:
`none` = empty, `some (a, b)` = `{p | a ≤ p < b}` with `a < b ≤ max` -/
def canon (max lo : Nat) (hi : Option Nat) : Option (Nat × Nat) :=
  let h := match hi with
    | none => max
    | some b => min b max
  if lo < h then some (lo, h) else none

/-- MPD rejects `START:END` with `END < START` ("Malformed range") instead of treating it as empty -/
def wellFormedRange (lo : Nat) (hi : Option Nat) : Bool :=
  match hi with
  | none => true
  | some b => lo ≤ b

/-! ## reading tokens -/

def isNumeral (t : Bytes) : Bool := !t.isEmpty && t.all isDigit

def readNat (t : Bytes) : Option Nat := if isNumeral t then some (digitsVal t) else none

/-- `START:END` or `START:` -/
def readRange (t : Bytes) : Option (Nat × Option Nat) :=
  let a := t.takeWhile isDigit
  match t.dropWhile isDigit with
  | 58 :: b =>
    if a.isEmpty then none
    else if b.isEmpty then some (digitsVal a, none)
    else if b.all isDigit then some (digitsVal a, some (digitsVal b))
    else none
  | _ => none

/-- decimal seconds `S` or `S.f…` (at most 9 fraction digits): `(mantissa, fraction digits)`,
value = `mantissa / 10^digits` seconds -/
def readDecimal (t : Bytes) : Option (Nat × Nat) :=
  let ip := t.takeWhile isDigit
  if ip.isEmpty then none
  else match t.dropWhile isDigit with
    | [] => some (digitsVal ip, 0)
    | 46 :: fp =>
      if fp.isEmpty || !fp.all isDigit || fp.length > 9 then none
      else some (digitsVal (ip ++ fp), fp.length)
    | _ => none

/-- `|mantissa / 10^k s − nanos ns| ≤ 1 ms` (`k ≤ 9`) -/
def within1ms (mant k nanos : Nat) : Bool :=
  let v := mant * 10 ^ (9 - k)          -- the token's value in nanoseconds
  v ≤ nanos + 1000000 && nanos ≤ v + 1000000

def signByte (neg : Bool) : UInt8 := if neg then 45 else 43

/-- does the token `t` mean `a`? -/
def ArgSem.accepts : ArgSem → Bytes → Bool
  | .str s, t => t == s
  | .kw w, t => t == w
  | .nat n, t => readNat t == some n
  | .rel neg n, t =>
    match t with
    | b :: ds => b == signByte neg && readNat ds == some n
    | [] => false
  | .range lo hi, t =>
    match readRange t with
    | some (a, b) => canon U64MAX a b == canon U64MAX lo hi
    | none => false
  | .time sign nanos, t =>
    let body : Option Bytes := match sign with
      | none => some t
      | some neg =>
        match t with
        | b :: r => if b == signByte neg then some r else none
        | [] => none
    match body.bind readDecimal with
    | some (mant, k) => within1ms mant k nanos
    | none => false
  | .bool b, t => t == [if b then 49 else 48]
  | .tag name, t => t == name
  | .filter e, t =>
    match Spec.Filter.parseFilterTop t with
    | some e' => Spec.Filter.Expr.beq e'.norm e.norm
    | none => false

def acceptsAll : List ArgSem → List Bytes → Bool
  | [], [] => true
  | s :: ss, t :: ts => s.accepts t && acceptsAll ss ts
  | _, _ => false

/-! ## the expectation table -/

def specOp : Operator → Spec.Filter.Op
  | .equal => .equal
  | .notEqual => .notEqual
  | .contain => .contain
  | .matches => .matches
  | .notMatch => .notMatches

mutual
/-- the logical expression a filter value stands for -/
def exprOf : FilterType → Spec.Filter.Expr
  | .tag t op v => .tag t.name (specOp op) v
  | .not f => .not (exprOf f)
  | .and fs => .and (exprOfList fs)
def exprOfList : List FilterType → List Spec.Filter.Expr
  | [] => []
  | f :: fs => exprOf f :: exprOfList fs
end

def songWord (byPos byId : String) : Song → Bytes
  | .position _ => str byPos
  | .id _ => str byId

def songArg : Song → ArgSem
  | .position p => .nat p
  | .id i => .nat i

def posArg : PositionOrRelative → ArgSem
  | .absolute p => .nat p
  | .afterCurrent d => .rel false d
  | .beforeCurrent d => .rel true d

def boundsArg (s e : Bound) : ArgSem := .range (exactLo s) (exactHi e)

/-- the one-element set `{p}` -/
def singleArg (p : Nat) : ArgSem := .range p (some (p + 1))

def optArgs {α : Type} (o : Option α) (f : α → List ArgSem) : List ArgSem :=
  match o with
  | some a => f a
  | none => []

def nanosOf (d : Dur) : Nat := d.secs * 1000000000 + d.nanos

/-- documented command word and argument meanings of each builder path -/
def expect : PCmd → Bytes × List ArgSem
  | .clearQueue => (str "clear", [])
  | .next => (str "next", [])
  | .ping => (str "ping", [])
  | .previous => (str "previous", [])
  | .stop => (str "stop", [])
  | .replayGainStatus => (str "replay_gain_status", [])
  | .status => (str "status", [])
  | .stats => (str "stats", [])
  | .queueAll => (str "playlistinfo", [])
  | .currentSong => (str "currentsong", [])
  | .getPlaylists => (str "listplaylists", [])
  | .getEnabledTagTypes => (str "tagtypes", [])
  | .readChannelMessages => (str "readmessages", [])
  | .listChannels => (str "channels", [])
  | .clearPlaylist n => (str "playlistclear", [.str n])
  | .deletePlaylist n => (str "rm", [.str n])
  | .saveQueueAsPlaylist n => (str "save", [.str n])
  | .subscribeToChannel n => (str "subscribe", [.str n])
  | .unsubscribeFromChannel n => (str "unsubscribe", [.str n])
  | .getPlaylist n => (str "listplaylistinfo", [.str n])
  | .setConsume b => (str "consume", [.bool b])
  | .setPause b => (str "pause", [.bool b])
  | .setRandom b => (str "random", [.bool b])
  | .setRepeat b => (str "repeat", [.bool b])
  | .queueSong s => (songWord "playlistinfo" "playlistid" s, [songArg s])
  | .queueRange s e => (str "playlistinfo", [boundsArg s e])
  | .setVolume v => (str "setvol", [.nat (if v ≤ 100 then v else 100)])
  | .setSingle m => (str "single", [.kw (match m with
      | .disabled => str "0"
      | .enabled => str "1"
      | .oneshot => str "oneshot")])
  | .setReplayGainMode m => (str "replay_gain_mode", [.kw (match m with
      | .off => str "off"
      | .track => str "track"
      | .album => str "album"
      | .auto => str "auto")])
  | .crossfade d => (str "crossfade", [.nat d.secs])
  | .seekTo s d => (songWord "seek" "seekid" s, [songArg s, .time none (nanosOf d)])
  | .seek (.absolute d) => (str "seekcur", [.time none (nanosOf d)])
  | .seek (.forward d) => (str "seekcur", [.time (some false) (nanosOf d)])
  | .seek (.backward d) => (str "seekcur", [.time (some true) (nanosOf d)])
  | .shuffleAll => (str "shuffle", [])
  | .shuffleRange s e => (str "shuffle", [boundsArg s e])
  | .playCurrent => (str "play", [])
  | .playSong s => (songWord "play" "playid" s, [songArg s])
  | .add uri pos => (str "addid", .str uri :: optArgs pos fun p => [posArg p])
  | .deleteId id => (str "deleteid", [.nat id])
  | .deletePosition p => (str "delete", [singleArg p])
  | .deleteRange s e => (str "delete", [boundsArg s e])
  | .move (.id id) to => (str "moveid", [.nat id, posArg to])
  | .move (.position p) to => (str "move", [singleArg p, posArg to])
  | .move (.range s e) to => (str "move", [boundsArg s e, posArg to])
  | .find f sort window =>
    (str "find", .filter (exprOf f)
      :: (optArgs sort fun t => [.kw (str "sort"), .tag t.name])
      ++ (optArgs window fun w => [.kw (str "window"), boundsArg w.1 w.2]))
  | .list t f groupBy =>
    (str "list", .tag t.name
      :: (optArgs f fun f => [.filter (exprOf f)])
      ++ groupBy.flatMap fun g => [.kw (str "group"), .tag g.name])
  | .count f => (str "count", [.filter (exprOf f)])
  | .countGrouped g f =>
    (str "count", (optArgs f fun f => [.filter (exprOf f)]) ++ [.kw (str "group"), .tag g.name])
  | .renamePlaylist a b => (str "rename", [.str a, .str b])
  | .loadPlaylist n r => (str "load", .str n :: optArgs r fun w => [boundsArg w.1 w.2])
  | .addToPlaylist pl url pos => (str "playlistadd", .str pl :: .str url :: optArgs pos fun p => [.nat p])
  | .removeFromPlaylistPosition pl p => (str "playlistdelete", [.str pl, .nat p])
  | .removeFromPlaylistRange pl s e => (str "playlistdelete", [.str pl, boundsArg s e])
  | .moveInPlaylist pl a b => (str "playlistmove", [.str pl, .nat a, .nat b])
  | .listAllIn dir => (str "listallinfo", if dir.isEmpty then [] else [.str dir])
  | .setBinaryLimit n => (str "binarylimit", [.nat n])
  | .albumArt uri off => (str "albumart", [.str uri, .nat off])
  | .albumArtEmbedded uri off => (str "readpicture", [.str uri, .nat off])
  | .tagTypesEnableAll => (str "tagtypes", [.kw (str "all")])
  | .tagTypesDisableAll => (str "tagtypes", [.kw (str "clear")])
  | .tagTypesDisable tags => (str "tagtypes", .kw (str "disable") :: tags.map fun t => .tag t.name)
  | .tagTypesEnable tags => (str "tagtypes", .kw (str "enable") :: tags.map fun t => .tag t.name)
  | .stickerGet uri n => (str "sticker", [.kw (str "get"), .kw (str "song"), .str uri, .str n])
  | .stickerSet uri n v => (str "sticker", [.kw (str "set"), .kw (str "song"), .str uri, .str n, .str v])
  | .stickerDelete uri n => (str "sticker", [.kw (str "delete"), .kw (str "song"), .str uri, .str n])
  | .stickerList uri => (str "sticker", [.kw (str "list"), .kw (str "song"), .str uri])
  | .stickerFind uri n f =>
    (str "sticker", [.kw (str "find"), .kw (str "song"), .str uri, .str n]
      ++ optArgs f fun p => [.kw (match p.1 with
          | .equals => str "="
          | .lessThan => str "<"
          | .greaterThan => str ">"), .str p.2])
  | .update uri => (str "update", optArgs uri fun u => [.str u])
  | .rescan uri => (str "rescan", optArgs uri fun u => [.str u])
  | .sendChannelMessage ch msg => (str "sendmessage", [.str ch, .str msg])

/-- the property's verdict on one tokenised request -/
def satisfiedBy (c : PCmd) (name : Bytes) (args : List Bytes) : Bool :=
  name == (expect c).1 && acceptsAll (expect c).2 args

end Spec.Req
