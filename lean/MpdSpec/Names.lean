import Mpd.Basic
/-!
# Specification side of C20: what "by protocol name" means

Independent of the model's variant tables: a tag/subsystem value is observed only through its
protocol name (bytes) and the Rust identifier of its variant.
-/
namespace Spec
open Mpd

/-- characters MPD's protocol can carry in a field name (what the response parser accepts) -/
def fieldNameChar (b : UInt8) : Bool := isAlpha b || b == USCORE || b == DASH

/-- the specification of parsing a candidate tag string, stated on observables:
`result` is `none` for a rejection, `some (isCatchAll, name)` otherwise. `knownCI` tells whether
the candidate equals, ignoring ASCII case, the protocol name of a named variant. -/
def tagParseOk (raw : Bytes) (knownCI : Bool) (result : Option (Bool × Bytes)) : Bool :=
  match result with
  | none => raw.isEmpty || !(raw.all fieldNameChar)
  | some (isOther, name) =>
    !raw.isEmpty && raw.all fieldNameChar && eqIgnoreCase raw name &&
    (if isOther then name == raw && !knownCI else knownCI)

end Spec
