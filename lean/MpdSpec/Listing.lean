import Mpd.Basic
import Mpd.F64
import MpdSpec.Names
/-!
# Specification side of C14: abstract song listings and the songs they denote

Written independently of the decoder's fold: a listing is a list of *entries*; each entry owns the
attribute/tag lines that follow its entry line on the wire; the denoted songs are computed **per
song entry from that entry's own lines only** (no state is threaded from one entry to the next).

Reading of the property text fixed here (and checked against the Rust and MPD's output):

* one song per `file` entry, in listing order; `directory` / `playlist` entries denote no song and
  their lines (MPD sends only `Last-Modified` for them) belong to them, not to a neighbouring song;
* `Pos`, `Id`, `Prio`, `Range`, `Format`, `Last-Modified`: the LAST line of that name of the entry
  (absent ⇒ 0 / 0 / 0 / none / none / none, the defaults of the crate's records);
* duration: the last `duration` line if there is one, otherwise the FIRST legacy `Time` line
  (`duration` is preferred in either order; among several `Time` lines the first one counts, which
  is what the crate does: "only if no duration is known yet");
* every other line is a tag line; its tag is identified by the line's key, case-insensitively for the
  31 names the crate knows (canonical spelling = MPD's protocol name), verbatim otherwise; the values
  of a tag are listed in line order; the tag map is presented sorted by protocol name (bytewise);
* the numeric reading of a duration text is `Mpd.F64.decodeDuration` (Rust's `f64::from_str` followed
  by `Duration::try_from_secs_f64`, emulated exactly); how close that is to the decimalL on the wire
  is the business of C15/C16, not of this property.
-/
namespace Spec
open Mpd

/-- a duration as (secs, nanos) -/
abbrev Dur := Nat × Nat

inductive Entry where
  | song (url : Bytes) (lines : List (Bytes × Bytes))
  | directory (path : Bytes) (lines : List (Bytes × Bytes))
  | playlist (path : Bytes) (lines : List (Bytes × Bytes))
deriving DecidableEq, Repr

abbrev Listing := List Entry

/-! ## the listing on the wire -/

def encEntry : Entry → List (Bytes × Bytes)
  | .song u ls => (str "file", u) :: ls
  | .directory p ls => (str "directory", p) :: ls
  | .playlist p ls => (str "playlist", p) :: ls

/-- the field list of the frame MPD sends for the listing -/
def encListing (l : Listing) : List (Bytes × Bytes) := l.flatMap encEntry

/-! ## what a song entry denotes -/

structure AbsSong where
  url : Bytes
  duration : Option Dur
  format : Option Bytes
  lastModified : Option Bytes
  /-- (protocol name, values in line order), strictly increasing by name -/
  tags : List (Bytes × List Bytes)
deriving DecidableEq, Repr

/-- a song with its queue attributes -/
structure AbsQSong where
  pos : Nat
  id : Nat
  prio : Nat
  range : Option (Dur × Option Dur)
  song : AbsSong
deriving DecidableEq, Repr

/-- the names of entry lines -/
def entryKeys : List Bytes := [str "file", str "directory", str "playlist"]

/-- the eight attribute names of a song entry; every other line of a song is a tag line -/
def attrKeys : List Bytes :=
  [str "duration", str "Time", str "Range", str "Format", str "Last-Modified", str "Prio", str "Pos",
   str "Id"]

def isAttrKey (k : Bytes) : Bool := attrKeys.contains k

/-- protocol names of the tags the crate knows (in the order of MPD's `tag_item_names`) -/
def knownTagNames : List Bytes :=
  [str "Artist", str "ArtistSort", str "Album", str "AlbumSort", str "AlbumArtist",
   str "AlbumArtistSort", str "Title", str "Track", str "Name", str "Genre", str "Date",
   str "OriginalDate", str "Composer", str "ComposerSort", str "Performer", str "Conductor",
   str "Work", str "Ensemble", str "Movement", str "MovementNumber", str "Location", str "Grouping",
   str "Comment", str "Disc", str "Label", str "MUSICBRAINZ_ARTISTID", str "MUSICBRAINZ_ALBUMID",
   str "MUSICBRAINZ_ALBUMARTISTID", str "MUSICBRAINZ_TRACKID", str "MUSICBRAINZ_RELEASETRACKID",
   str "MUSICBRAINZ_WORKID"]

/-- the protocol name of the tag a line key refers to -/
def canonTag (k : Bytes) : Bytes :=
  match knownTagNames.find? (eqIgnoreCase k) with
  | some n => n
  | none => k

/-- value of the last line named `k` -/
def lastOf (k : Bytes) (lines : List (Bytes × Bytes)) : Option Bytes :=
  ((lines.filter (·.1 == k)).getLast?).map (·.2)

/-- value of the first line named `k` -/
def firstOf (k : Bytes) (lines : List (Bytes × Bytes)) : Option Bytes :=
  ((lines.filter (·.1 == k)).head?).map (·.2)

/-- MPD prints unsigned numbers as plain decimals -/
def decimalL (v : Bytes) : Option Nat :=
  if !v.isEmpty && v.all isDigit then some (digitsVal v) else none

/-- numeric reading of a seconds text -/
def seconds (v : Bytes) : Option Dur := Mpd.F64.decodeDuration v

/-- `START-END` / `START-`: split at the first `-` -/
def rangeOf (v : Bytes) : Option (Dur × Option Dur) :=
  let a := v.takeWhile (· != DASH)
  match v.dropWhile (· != DASH) with
  | [] => none
  | _ :: b =>
    match seconds a with
    | none => none
    | some f =>
      if b = [] then some (f, none)
      else match seconds b with
        | none => none
        | some t => some (f, some t)

/-- the text the duration is read from: last `duration`, else first `Time` -/
def durText (lines : List (Bytes × Bytes)) : Option Bytes :=
  match lastOf (str "duration") lines with
  | some v => some v
  | none => firstOf (str "Time") lines

/-- the tag lines of an entry: (protocol name of the tag, value), in line order -/
def tagLines (lines : List (Bytes × Bytes)) : List (Bytes × Bytes) :=
  (lines.filter (fun kv => !isAttrKey kv.1)).map (fun kv => (canonTag kv.1, kv.2))

/-- insertion into a strictly increasing list of names (no duplicates) -/
def insertName (n : Bytes) : List Bytes → List Bytes
  | [] => [n]
  | m :: ms =>
    if n = m then m :: ms
    else if cmpBytes n m < 0 then n :: m :: ms
    else m :: insertName n ms

/-- the distinct names of a list, strictly increasing -/
def sortNames (l : List Bytes) : List Bytes := l.foldl (fun acc n => insertName n acc) []

/-- values of tag `n`, in line order -/
def valuesOf (tl : List (Bytes × Bytes)) (n : Bytes) : List Bytes :=
  (tl.filter (·.1 == n)).map (·.2)

/-- the tag map denoted by canonical tag lines -/
def tagsOfLines (tl : List (Bytes × Bytes)) : List (Bytes × List Bytes) :=
  (sortNames (tl.map (·.1))).map (fun n => (n, valuesOf tl n))

def tagsOf (lines : List (Bytes × Bytes)) : List (Bytes × List Bytes) := tagsOfLines (tagLines lines)

/-- the song denoted by a `file` entry: a function of the entry's own lines -/
def songOf (url : Bytes) (lines : List (Bytes × Bytes)) : AbsQSong where
  pos := ((lastOf (str "Pos") lines).bind decimalL).getD 0
  id := ((lastOf (str "Id") lines).bind decimalL).getD 0
  prio := ((lastOf (str "Prio") lines).bind decimalL).getD 0
  range := (lastOf (str "Range") lines).bind rangeOf
  song := {
    url := url
    duration := (durText lines).bind seconds
    format := lastOf (str "Format") lines
    lastModified := lastOf (str "Last-Modified") lines
    tags := tagsOf lines }

/-- the songs (with queue attributes) a listing denotes: one per `file` entry, in order -/
def songsOfQ : Listing → List AbsQSong
  | [] => []
  | .song u ls :: rest => songOf u ls :: songsOfQ rest
  | .directory _ _ :: rest => songsOfQ rest
  | .playlist _ _ :: rest => songsOfQ rest

/-- the songs a listing denotes for the commands that return plain songs -/
def songsOf (l : Listing) : List AbsSong := (songsOfQ l).map (·.song)

/-- what the single-song decoder (`currentsong`) yields: MPD answers `currentsong` with zero or one
`file` entry. For longer listings the decoder keeps only what is in progress at the end: the last
entry if it is a song, nothing otherwise. -/
def currentOf : Listing → Option AbsQSong
  | [] => none
  | [.song u ls] => some (songOf u ls)
  | [_] => none
  | _ :: e :: rest => currentOf (e :: rest)

/-! ## well-formed listings -/

/-- a field name the protocol can carry -/
def wfFieldName (k : Bytes) : Bool := !k.isEmpty && k.all fieldNameChar

/-- a line of a song entry: a field name that is not an entry name; attribute values in their domain
(`ts` = which `Last-Modified` values the build accepts: all without the `chrono` feature) -/
def wfLine (ts : Bytes → Bool) (kv : Bytes × Bytes) : Bool :=
  wfFieldName kv.1 && !entryKeys.contains kv.1 &&
  (if kv.1 = str "duration" ∨ kv.1 = str "Time" then (seconds kv.2).isSome
   else if kv.1 = str "Range" then (rangeOf kv.2).isSome
   else if kv.1 = str "Prio" then (decimalL kv.2).any (· ≤ 255)
   else if kv.1 = str "Pos" ∨ kv.1 = str "Id" then (decimalL kv.2).any (· ≤ U64MAX)
   else if kv.1 = str "Last-Modified" then ts kv.2
   else true)

/-- song entries have a non-empty URL and well-formed lines; directory and playlist entries carry
only modification dates -/
def wfEntry (ts : Bytes → Bool) : Entry → Bool
  | .song u ls => !u.isEmpty && ls.all (wfLine ts)
  | .directory _ ls => ls.all (·.1 == str "Last-Modified")
  | .playlist _ ls => ls.all (·.1 == str "Last-Modified")

def WFlisting (ts : Bytes → Bool) (l : Listing) : Bool := l.all (wfEntry ts)

end Spec
