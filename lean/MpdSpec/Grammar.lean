import Mpd.Basic
import Mpd.AFrame
import Mpd.Parser
/-!
# Specification: the MPD response grammar, declaratively

Independent of the nom-combinator model in `Mpd/Parser.lean`:

* abstract responses (`AbsResp`), their well-formedness `WF`, the **encoder** `enc` (what a
  server writes) and the expected decoding `view`;
* a declarative **line grammar** `classifyLine` on complete lines
  `OK | list_OK | ACK [u64@u64] {[A-Za-z_]*} utf8 | binary: usize | key: utf8`
  with `key ∈ [A-Za-z_-]+` and `binary` reserved;
* a **reference decoder** `refDecode` of a whole byte stream built on line splitting and
  `classifyLine` only.

(`Parser.Err`, the error record, is shared with the model: it is plain data.)
-/
namespace Spec
open Mpd

abbrev Err := Mpd.Parser.Err

/-! ## abstract responses and the encoder -/

structure AbsFrame where
  fields : List (Bytes × Bytes)
  binary : Option Bytes := none
  binPos : Nat := 0            -- the binary section is written after this many fields
deriving Repr, DecidableEq, Inhabited

structure AbsResp where
  listForm : Bool                     -- reply to a command list (frames separated by list_OK)
  frames : List AbsFrame              -- completed frames (exactly one in single form without error)
  partialFrame : Option AbsFrame := none   -- lines already written for the failing command (dropped)
  error : Option Err := none
deriving Repr, DecidableEq, Inhabited

def fieldLine (kv : Bytes × Bytes) : Bytes := kv.1 ++ str ": " ++ kv.2 ++ [LF]

def binarySection (b : Bytes) : Bytes := str "binary: " ++ natToDec b.length ++ [LF] ++ b ++ [LF]

def encFrameBody (f : AbsFrame) : Bytes :=
  let before := (f.fields.take f.binPos).flatMap fieldLine
  let after := (f.fields.drop f.binPos).flatMap fieldLine
  match f.binary with
  | none => before ++ after
  | some b => before ++ binarySection b ++ after

def encErr (e : Err) : Bytes :=
  str "ACK [" ++ natToDec e.code ++ [64] ++ natToDec e.index ++ str "] {" ++
    (e.command.getD []) ++ str "} " ++ e.message ++ [LF]

def encPartial : Option AbsFrame → Bytes
  | none => []
  | some f => encFrameBody f

/-- what the server writes for one response -/
def enc (r : AbsResp) : Bytes :=
  if r.listForm then
    r.frames.flatMap (fun f => encFrameBody f ++ str "list_OK\n") ++
      (match r.error with
       | none => str "OK\n"
       | some e => encPartial r.partialFrame ++ encErr e)
  else
    match r.error with
    | none => (r.frames.flatMap encFrameBody) ++ str "OK\n"
    | some e => encPartial r.partialFrame ++ encErr e

def viewFrame (f : AbsFrame) : AFrame := { fields := f.fields, binary := f.binary }

/-- the frames and error a client must see -/
def view (r : AbsResp) : List AFrame × Option Err :=
  if r.listForm then (r.frames.map viewFrame, r.error)
  else match r.error with
    | none => (r.frames.map viewFrame, none)
    | some e => ([], some e)

def keyChar (b : UInt8) : Bool := isAlpha b || b == USCORE || b == DASH
def cmdChar (b : UInt8) : Bool := isAlpha b || b == USCORE

def wfKey (k : Bytes) : Bool := !k.isEmpty && k.all keyChar && k != str "binary"
def wfValue (v : Bytes) : Bool := validUtf8 v && !(v.contains LF)
def wfFrame (f : AbsFrame) : Bool :=
  f.fields.all (fun kv => wfKey kv.1 && wfValue kv.2) &&
  f.binary.all (fun b => b.length ≤ U64MAX)          -- a payload length the header can carry
def wfErr (e : Err) : Bool :=
  e.code ≤ U64MAX && e.index ≤ U64MAX && wfValue e.message &&
  (match e.command with
   | none => true
   | some c => !c.isEmpty && c.all cmdChar)

/-- well-formed abstract response -/
def WF (r : AbsResp) : Bool :=
  r.frames.all wfFrame && (r.partialFrame.all wfFrame) && (r.error.all wfErr) &&
  (if r.listForm then (!r.frames.isEmpty || r.error.isSome) && (r.error.isSome || r.partialFrame.isNone)
   else match r.error with
     | none => r.frames.length == 1 && r.partialFrame.isNone
     | some _ => r.frames.isEmpty)

/-! ## the line grammar, declaratively -/

inductive LineKind where
  | ok
  | listOk
  | ack (e : Err)
  | binaryHeader (n : Nat)
  | field (k v : Bytes)
  | malformed
deriving Repr, DecidableEq

/-- `digits` non-empty, all decimal digits, value fits 64 bits -/
def decimal64 (ds : Bytes) : Option Nat :=
  if ds.isEmpty || !(ds.all isDigit) then none
  else if digitsVal ds ≤ U64MAX then some (digitsVal ds) else none

/-- split at the first occurrence of byte `c`: (before, after) -/
def splitAt1 (c : UInt8) : Bytes → Option (Bytes × Bytes)
  | [] => none
  | b :: bs => if b == c then some ([], bs) else (splitAt1 c bs).map fun (x, y) => (b :: x, y)

/-- the part of an ACK line after `ACK `: `[code@index] {command} message` -/
def classifyAck (l : Bytes) : Option Err :=
  match l with
  | 91 :: rest =>                                   -- '['
    match splitAt1 64 rest with                     -- '@'
    | none => none
    | some (code, rest) =>
      match splitAt1 93 rest with                   -- ']'
      | none => none
      | some (idx, rest) =>
        match decimal64 code, decimal64 idx, rest with
        | some c, some i, 32 :: 123 :: rest =>      -- " {"
          match splitAt1 125 rest with              -- '}'
          | none => none
          | some (cmd, rest) =>
            if !(cmd.all cmdChar) then none else
            match rest with
            | 32 :: msg =>
              if validUtf8 msg then
                some { code := c, index := i, command := if cmd.isEmpty then none else some cmd, message := msg }
              else none
            | _ => none
        | _, _, _ => none
  | _ => none

/-- classify a complete line (without its LF; the line contains no LF) -/
def classifyLine (l : Bytes) : LineKind :=
  if l == str "OK" then .ok
  else if l == str "list_OK" then .listOk
  else if startsWith l (str "ACK ") then
    match classifyAck (l.drop 4) with
    | some e => .ack e
    | none => .malformed
  else if startsWith l (str "binary: ") then
    match decimal64 (l.drop 8) with
    | some n => .binaryHeader n
    | none => .malformed
  else
    let k := l.takeWhile keyChar
    let rest := l.dropWhile keyChar
    match rest with
    | 58 :: 32 :: v => if !k.isEmpty && validUtf8 v then .field k v else .malformed
    | _ => .malformed

/-! ## reference decoder on a whole stream (line splitting + `classifyLine`) -/

/-- builder state of the reference decoder -/
structure RState where
  started : Bool := false            -- some line of the current response was seen
  inList : Bool := false
  cur : AFrame := {}
  done : List AFrame := []
deriving Repr, DecidableEq, Inhabited

inductive RItem where
  | resp (frames : List AFrame) (error : Option Err)
  | malformed          -- a complete malformed line (or a binary payload not followed by LF) is at the head
  | incomplete (started : Bool) (leftover : Bool)   -- the stream ends here: inside a response? bytes left?
deriving Repr, DecidableEq

/-- split off the first line: (line, rest after LF) -/
def firstLine (s : Bytes) : Option (Bytes × Bytes) := splitAt1 LF s

/-- reference decoding of a whole stream. `fuel` ≥ number of lines + 1. -/
def refDecode : Nat → RState → Bytes → List RItem
  | 0, _, _ => []
  | fuel + 1, st, s =>
    match firstLine s with
    | none => [.incomplete st.started (!s.isEmpty)]
    | some (l, rest) =>
      match classifyLine l with
      | .ok =>
        let frames := if st.inList then st.done else [st.cur]
        .resp frames none :: refDecode fuel {} rest
      | .listOk =>
        refDecode fuel { started := true, inList := true, cur := {}, done := st.done ++ [st.cur] } rest
      | .ack e =>
        .resp (if st.inList then st.done else []) (some e) :: refDecode fuel {} rest
      | .field k v =>
        refDecode fuel { st with started := true, cur := { st.cur with fields := st.cur.fields ++ [(k, v)] } } rest
      | .binaryHeader n =>
        if rest.length < n + 1 then [.incomplete true true]
        else if (rest.drop n).head? != some LF then [.malformed]
        else
          refDecode fuel { st with started := true, cur := { st.cur with binary := some (rest.take n) } } (rest.drop (n + 1))
      | .malformed => [.malformed]

end Spec
