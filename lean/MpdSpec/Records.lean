import Mpd.Basic
/-!
# Specification side of C16: abstract replies of MPD and how the server prints them

Written from the MPD protocol documentation (`status`, `stats`, `count`, `list`, `listplaylists`,
`sticker get/list/find`, `readmessages`, `channels`, `tagtypes`, `update`, `replay_gain_status`)
and MPD's printing code (`%u`/`%lu` for integers, `%1.3f` for `elapsed`/`duration`, one
`key: value` line per item). Independent of the decoder model: nothing from `Mpd/Typed` is used.

One abstract record per reply kind, optional fields as `Option`, and an ENCODER giving the
`(key, value)` lines in the order MPD prints them. C16's theorems say that decoding any
permutation of these lines (for the kinds whose keys are distinct) gives back the record.
-/
namespace Spec
open Mpd

abbrev Line := Bytes × Bytes

/-! ## printing -/

def digit (n : Nat) : UInt8 := (48 + n % 10).toUInt8

/-- `%u`: decimal digits, most significant first (fuel = an upper bound on the digit count) -/
def decimalAux : Nat → Nat → Bytes
  | 0, _ => []
  | fuel + 1, n => if n < 10 then [digit n] else decimalAux fuel (n / 10) ++ [digit n]

def decimal (n : Nat) : Bytes := decimalAux (n + 1) n

/-- `%1.3f` of a value given in thousandths -/
def fmt3 (ms : Nat) : Bytes :=
  decimal (ms / 1000) ++ [46, digit (ms / 100), digit (ms / 10), digit ms]

def b01 (b : Bool) : Bytes := if b then [49] else [48]

/-- an optional line -/
def opt (k : Bytes) : Option Bytes → List Line
  | some v => [(k, v)]
  | none => []

/-! ## enums and their spellings -/

inductive State where
  | play | pause | stop
deriving DecidableEq, Repr, Inhabited
def State.all : List State := [.play, .pause, .stop]
def State.spelling : State → Bytes
  | .play => str "play" | .pause => str "pause" | .stop => str "stop"

inductive Single where
  | off | on | oneshot
deriving DecidableEq, Repr, Inhabited
def Single.all : List Single := [.off, .on, .oneshot]
def Single.spelling : Single → Bytes
  | .off => str "0" | .on => str "1" | .oneshot => str "oneshot"

inductive RGMode where
  | off | track | album | auto
deriving DecidableEq, Repr, Inhabited
def RGMode.all : List RGMode := [.off, .track, .album, .auto]
def RGMode.spelling : RGMode → Bytes
  | .off => str "off" | .track => str "track" | .album => str "album" | .auto => str "auto"

/-! ## status -/

/-- the reply to `status` (MPD 0.23). Durations `elapsed`/`duration` in thousandths of a second,
`xfade` in whole seconds. `mixrampdb`, `mixrampdelay`, `time` (lower case `elapsed:total`, whole
seconds) and `audio` are sent by MPD but not represented in the crate's `Status`. -/
structure StatusRec where
  volume : Option Nat := none
  repeat_ : Bool := false
  random : Bool := false
  single : Option Single := none
  consume : Bool := false
  partition : Option Bytes := none
  playlist : Option Nat := none
  playlistlength : Option Nat := none
  mixrampdb : Option Bytes := none
  state : State := .stop
  xfade : Option Nat := none
  mixrampdelay : Option Bytes := none
  song : Option (Nat × Nat) := none
  time : Option Bytes := none
  elapsed : Option Nat := none
  bitrate : Option Nat := none
  duration : Option Nat := none
  audio : Option Bytes := none
  updatingDb : Option Nat := none
  error : Option Bytes := none
  nextsong : Option (Nat × Nat) := none
deriving DecidableEq, Repr

def encStatus (r : StatusRec) : List Line :=
  opt (str "volume") (r.volume.map decimal) ++
  (str "repeat", b01 r.repeat_) ::
  (str "random", b01 r.random) ::
  (opt (str "single") (r.single.map Single.spelling) ++
  (str "consume", b01 r.consume) ::
  (opt (str "partition") r.partition ++
  (opt (str "playlist") (r.playlist.map decimal) ++
  (opt (str "playlistlength") (r.playlistlength.map decimal) ++
  (opt (str "mixrampdb") r.mixrampdb ++
  (str "state", r.state.spelling) ::
  (opt (str "xfade") (r.xfade.map decimal) ++
  (opt (str "mixrampdelay") r.mixrampdelay ++
  (opt (str "song") (r.song.map (decimal ·.1)) ++
  (opt (str "songid") (r.song.map (decimal ·.2)) ++
  (opt (str "time") r.time ++
  (opt (str "elapsed") (r.elapsed.map fmt3) ++
  (opt (str "bitrate") (r.bitrate.map decimal) ++
  (opt (str "duration") (r.duration.map fmt3) ++
  (opt (str "audio") r.audio ++
  (opt (str "updating_db") (r.updatingDb.map decimal) ++
  (opt (str "error") r.error ++
  (opt (str "nextsong") (r.nextsong.map (decimal ·.1)) ++
  opt (str "nextsongid") (r.nextsong.map (decimal ·.2)))))))))))))))))))

/-! ## stats, count, update, replay gain -/

/-- reply to `stats` with a database (all seven lines; times in whole seconds) -/
structure StatsRec where
  uptime : Nat := 0
  playtime : Nat := 0
  artists : Nat := 0
  albums : Nat := 0
  songs : Nat := 0
  dbPlaytime : Nat := 0
  dbUpdate : Nat := 0
deriving DecidableEq, Repr

def encStats (r : StatsRec) : List Line :=
  [(str "uptime", decimal r.uptime), (str "playtime", decimal r.playtime),
   (str "artists", decimal r.artists), (str "albums", decimal r.albums),
   (str "songs", decimal r.songs), (str "db_playtime", decimal r.dbPlaytime),
   (str "db_update", decimal r.dbUpdate)]

/-- reply to `count FILTER`: `songs`, `playtime` (whole seconds) -/
structure CountRec where
  songs : Nat := 0
  playtime : Nat := 0
deriving DecidableEq, Repr

def encCount (r : CountRec) : List Line :=
  [(str "songs", decimal r.songs), (str "playtime", decimal r.playtime)]

/-- one group of `count … group TAG`; `playtimeFirst`: the two counters may come in either order -/
structure CountGroup where
  value : Bytes
  songs : Nat
  playtime : Nat
  playtimeFirst : Bool := false
deriving DecidableEq, Repr

def encCountGroup (tag : Bytes) (g : CountGroup) : List Line :=
  if g.playtimeFirst then
    [(tag, g.value), (str "playtime", decimal g.playtime), (str "songs", decimal g.songs)]
  else
    [(tag, g.value), (str "songs", decimal g.songs), (str "playtime", decimal g.playtime)]

def encCountGrouped (tag : Bytes) (gs : List CountGroup) : List Line := gs.flatMap (encCountGroup tag)

def encUpdate (job : Nat) : List Line := [(str "updating_db", decimal job)]
def encReplayGain (m : RGMode) : List Line := [(str "replay_gain_mode", m.spelling)]

/-! ## list -/

/-- plain `list TAG`: one line per distinct value -/
def encList (tag : Bytes) (values : List Bytes) : List Line := values.map fun v => (tag, v)

/-- one result row of `list TAG group G₁ … group G_N`: the value of the listed tag together with
the values of the N grouping tags, and the positions (indices into the grouping tags) whose
`G: value` line the server prints before this row, in that order. MPD prints a grouping line when
its value changes (and re-prints all inner ones); repeating an unchanged one is harmless. -/
structure ListRow where
  value : Bytes
  groups : List Bytes
  emit : List Nat
deriving DecidableEq, Repr

def encListRow (tag : Bytes) (gtags : List Bytes) (r : ListRow) : List Line :=
  r.emit.filterMap (fun i => match gtags[i]?, r.groups[i]? with
    | some k, some v => some (k, v)
    | _, _ => none) ++ [(tag, r.value)]

def encListGrouped (tag : Bytes) (gtags : List Bytes) (rows : List ListRow) : List Line :=
  rows.flatMap (encListRow tag gtags)

/-- a row is well-formed relative to the grouping values in force before it (`prev`): every
position is either printed or unchanged -/
def rowOk (n : Nat) (prev : List Bytes) (r : ListRow) : Bool :=
  r.groups.length == n && r.emit.all (· < n) &&
  (List.range n).all fun i => r.emit.contains i || prev[i]? == r.groups[i]?

def rowsOk (n : Nat) : List Bytes → List ListRow → Bool
  | _, [] => true
  | prev, r :: rs => rowOk n prev r && rowsOk n r.groups rs

/-! ## listplaylists, stickers, channels, tag types -/

def encPlaylists (rows : List (Bytes × Bytes)) : List Line :=
  rows.flatMap fun (name, modified) => [(str "playlist", name), (str "Last-Modified", modified)]

/-- `sticker get`: `sticker: NAME=VALUE` -/
def encStickerGet (name value : Bytes) : List Line := [(str "sticker", name ++ [61] ++ value)]

/-- `sticker list`: one `sticker: NAME=VALUE` line per sticker -/
def encStickerList (rows : List (Bytes × Bytes)) : List Line :=
  rows.map fun (name, value) => (str "sticker", name ++ [61] ++ value)

/-- `sticker find … NAME`: `file: URI` / `sticker: NAME=VALUE` per song -/
def encStickerFind (name : Bytes) (rows : List (Bytes × Bytes)) : List Line :=
  rows.flatMap fun (file, value) => [(str "file", file), (str "sticker", name ++ [61] ++ value)]

/-- a sticker name cannot contain `=` (MPD splits the stored `name=value` there) -/
def stickerName (n : Bytes) : Bool := !n.contains 61

def encMessages (rows : List (Bytes × Bytes)) : List Line :=
  rows.flatMap fun (channel, message) => [(str "channel", channel), (str "message", message)]

def encChannels (names : List Bytes) : List Line := names.map fun c => (str "channel", c)

def encTagTypes (names : List Bytes) : List Line := names.map fun t => (str "tagtype", t)

/-! ## field domains (used by the oracle on arbitrary field soup: a value outside the domain of
the field it is read for must not produce a decoded value) -/

def allDigits (s : Bytes) : Bool := !s.isEmpty && s.all isDigit

def digitsValue (s : Bytes) : Nat := s.foldl (fun a b => a * 10 + (b.toNat - 48)) 0

/-- an unsigned decimal integer `≤ max` (a leading `+` is tolerated: it denotes the same number) -/
def natDomain (max : Nat) (s : Bytes) : Bool :=
  let ds := match s with
    | 43 :: t => t
    | _ => s
  allDigits ds && digitsValue ds ≤ max

def boolDomain (s : Bytes) : Bool := s == [48] || s == [49]
def stateDomain (s : Bytes) : Bool := State.all.any (·.spelling == s)
def singleDomain (s : Bytes) : Bool := Single.all.any (·.spelling == s)
def rgDomain (s : Bytes) : Bool := RGMode.all.any (·.spelling == s)

/-- a duration: a decimal numeral (optional sign, digits with optional fraction, optional decimal
exponent) denoting a number of seconds `x` with `-0.5 ns < x < 2^64 s`.
`inf`, `nan`, the empty string and any other text are outside the domain. -/
def durationDomain (s : Bytes) : Bool :=
  let (neg, s) := match s with
    | 43 :: t => (false, t)
    | 45 :: t => (true, t)
    | _ => (false, s)
  let ip := s.takeWhile isDigit
  let r := s.dropWhile isDigit
  let (fp, r) := match r with
    | 46 :: t => (t.takeWhile isDigit, t.dropWhile isDigit)
    | _ => ([], r)
  if ip.isEmpty && fp.isEmpty then false else
  let mant := digitsValue (ip ++ fp)
  let expo : Option Int := match r with
    | [] => some 0
    | c :: t =>
      if c == 101 || c == 69 then
        let (eneg, t) := match t with
          | 43 :: u => (false, u)
          | 45 :: u => (true, u)
          | _ => (false, t)
        if !allDigits t then none
        else
          -- an exponent beyond ±100000 is astronomically large either way
          let t' := t.dropWhile (· == 48)
          let v : Nat := if t'.length > 5 then 100000 else digitsValue t'
          some (if eneg then -(v : Int) else v)
      else none
  match expo with
  | none => false
  | some e =>
    let x : Int := e - fp.length        -- value = mant * 10^x
    if mant == 0 then true
    else if neg then
      -- |value| < 0.5e-9  ⇔  2 * mant * 10^(x+9) < 1
      x + 9 < 0 && 2 * mant < 10 ^ (-(x + 9)).toNat
    else
      -- value < 2^64
      if x ≥ 0 then mant * 10 ^ x.toNat < 2 ^ 64 else mant < 2 ^ 64 * 10 ^ (-x).toNat

end Spec

/-! ## numeric ranges of the abstract replies

The integer fields range over the integer type MPD prints them from (`unsigned`, `uint64`…; the
crate's `u8`/`u32`/`u64`/`usize`). Times: `elapsed`/`duration` (thousandths) below 2^23 s ≈ 97 days,
whole-second values (`xfade`, `uptime`, `playtime`, `db_playtime`) below 2^53 s — the classes for
which C16 proves that the crate's detour through binary64 (`parse::<f64>` +
`Duration::try_from_secs_f64`) is exact. -/
namespace Spec

def U64MAX : Nat := 18446744073709551615
def U32MAX : Nat := 4294967295
def MS_LIMIT : Nat := 2 ^ 23 * 1000
def SEC_LIMIT : Nat := 2 ^ 53

def StatusRec.inDomain (r : StatusRec) : Bool :=
  r.volume.all (· ≤ 255) && r.playlist.all (· ≤ U32MAX) && r.playlistlength.all (· ≤ U64MAX) &&
  r.song.all (fun p => p.1 ≤ U64MAX && p.2 ≤ U64MAX) &&
  r.nextsong.all (fun p => p.1 ≤ U64MAX && p.2 ≤ U64MAX) &&
  r.bitrate.all (· ≤ U64MAX) && r.updatingDb.all (· ≤ U64MAX) &&
  r.xfade.all (· < SEC_LIMIT) && r.elapsed.all (· < MS_LIMIT) && r.duration.all (· < MS_LIMIT)

def StatsRec.inDomain (r : StatsRec) : Bool :=
  r.artists ≤ U64MAX && r.albums ≤ U64MAX && r.songs ≤ U64MAX && r.dbUpdate ≤ U64MAX &&
  r.uptime < SEC_LIMIT && r.playtime < SEC_LIMIT && r.dbPlaytime < SEC_LIMIT

def CountRec.inDomain (r : CountRec) : Bool := r.songs ≤ U64MAX && r.playtime < SEC_LIMIT

def CountGroup.inDomain (g : CountGroup) : Bool := g.songs ≤ U64MAX && g.playtime < SEC_LIMIT

end Spec
