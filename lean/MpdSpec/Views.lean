import Mpd.Typed.Seq
import MpdSpec.Records
/-!
# What a decoded value must be for an abstract reply

`viewX r` is the value of the crate's response type (only the *data shapes* of `Mpd/Typed` are
used here: the structures mirroring the public Rust structs) that carries exactly the
information of the abstract reply `r`. C16's theorems are `dec (lines of r) = ok (viewX r)`.
-/
namespace Spec
open Mpd Mpd.Typed

/-- a time given in thousandths of a second as a `Duration` (secs, nanos) -/
def msDur (ms : Nat) : Dur := (ms / 1000, ms % 1000 * 1000000)
/-- whole seconds as a `Duration` -/
def secDur (s : Nat) : Dur := (s, 0)

def viewState : State → PlayState
  | .play => .playing | .pause => .paused | .stop => .stopped
def viewSingle : Single → SingleMode
  | .off => .disabled | .on => .enabled | .oneshot => .oneshot
def viewRG : RGMode → ReplayGainMode
  | .off => .off | .track => .track | .album => .album | .auto => .auto

/-- fields the crate gives a default (`volume`, `single`, `playlist`, `playlistlength`, `xfade`)
take it exactly when the server omitted the line; all other optional fields stay optional -/
def viewStatus (r : StatusRec) : Status :=
  { volume := r.volume.getD 0
    state := viewState r.state
    repeat_ := r.repeat_
    random := r.random
    consume := r.consume
    single := (r.single.map viewSingle).getD .disabled
    playlistVersion := r.playlist.getD 0
    playlistLength := r.playlistlength.getD 0
    currentSong := r.song
    nextSong := r.nextsong
    elapsed := r.elapsed.map msDur
    duration := r.duration.map msDur
    bitrate := r.bitrate
    crossfade := (r.xfade.map secDur).getD (0, 0)
    updateJob := r.updatingDb
    error := r.error
    partition := r.partition }

def viewStats (r : StatsRec) : Stats :=
  { artists := r.artists, albums := r.albums, songs := r.songs, uptime := secDur r.uptime,
    playtime := secDur r.playtime, dbPlaytime := secDur r.dbPlaytime, dbLastUpdate := r.dbUpdate }

def viewCount (r : CountRec) : Count := { songs := r.songs, playtime := secDur r.playtime }

def viewCountGroups (gs : List CountGroup) : List (Bytes × Count) :=
  gs.map fun g => (g.value, { songs := g.songs, playtime := secDur g.playtime })

def viewListRows (rows : List ListRow) : List (Bytes × List Bytes) :=
  rows.map fun r => (r.value, r.groups)

def viewPlaylists (rows : List (Bytes × Bytes)) : List Playlist :=
  rows.map fun (name, modified) => { name, lastModified := modified }

end Spec
