import Mpd.Basic
/-!
# Specification: MPD's request tokenizer (port of `src/util/Tokenizer.cxx` and of the line
handling in `src/client/Read.cxx` / `src/command/AllCommands.cxx: command_process`)

This is the *other side* of C06/C07/C11/C13/C15: what the server reads back from a request line.
Written from MPD's sources (0.21–0.24; the tokenizer has not changed in that range):

* a request is the bytes up to the first LF; the line is right-stripped of bytes `≤ 0x20`
  (`StripRight`), and, being a C string, ends at the first NUL;
* `NextWord`: first byte a letter, then `[A-Za-z0-9_]*`, ended by whitespace (`0 < b ≤ 0x20`) or
  end of line; anything else ⇒ error ("Letter expected" / "Invalid word character");
* `NextParam`: `"` ⇒ `NextString` (backslash makes the next byte literal; the closing quote must be
  followed by whitespace or end of line), otherwise `NextUnquoted` (bytes `> 0x20` other than `"`
  and `'`; a backslash is an ordinary byte there);
* after each token `StripLeft` skips whitespace.

MPD's cap of 16 arguments per command (`COMMAND_ARGV_MAX`) is not modelled.
-/
namespace Spec.Tok
open Mpd

/-- whitespace for the tokenizer (`IsWhitespaceFast` on a NUL-free string) -/
def isWs (b : UInt8) : Bool := b ≤ 0x20

def stripLeft : Bytes → Bytes
  | [] => []
  | b :: bs => if isWs b then stripLeft bs else b :: bs

/-- `StripRight`: drop trailing bytes `≤ 0x20` -/
def stripRight (l : Bytes) : Bytes := (stripLeft l.reverse).reverse

/-- C-string view: up to the first NUL -/
def cstr : Bytes → Bytes
  | [] => []
  | b :: bs => if b == 0 then [] else b :: cstr bs

def validWordFirst (b : UInt8) : Bool := isAlpha b
def validWordChar (b : UInt8) : Bool := isAlpha b || isDigit b || b == USCORE
def validUnquoted (b : UInt8) : Bool := !(isWs b) && b != QUOTE && b != SQUOTE

/-- rest of a word after its first byte: `(word tail, remaining input after StripLeft)` -/
def wordBody : Bytes → Option (Bytes × Bytes)
  | [] => some ([], [])
  | b :: bs =>
    if isWs b then some ([], stripLeft bs)
    else if validWordChar b then (wordBody bs).map fun (w, r) => (b :: w, r)
    else none

/-- `Tokenizer::NextWord` on a non-empty input (`none` = exception) -/
def nextWord : Bytes → Option (Bytes × Bytes)
  | [] => none
  | b :: bs => if validWordFirst b then (wordBody bs).map fun (w, r) => (b :: w, r) else none

/-- rest of an unquoted parameter after its first byte -/
def unquotedBody : Bytes → Option (Bytes × Bytes)
  | [] => some ([], [])
  | b :: bs =>
    if isWs b then some ([], stripLeft bs)
    else if validUnquoted b then (unquotedBody bs).map fun (w, r) => (b :: w, r)
    else none

/-- `Tokenizer::NextUnquoted` on a non-empty input -/
def nextUnquoted : Bytes → Option (Bytes × Bytes)
  | [] => none
  | b :: bs => if validUnquoted b then (unquotedBody bs).map fun (w, r) => (b :: w, r) else none

/-- `Tokenizer::NextString` after the opening quote -/
def stringBody : Bytes → Option (Bytes × Bytes)
  | [] => none                                   -- missing closing quote
  | b :: bs =>
    if b == QUOTE then
      match bs with
      | [] => some ([], [])
      | c :: _ => if isWs c then some ([], stripLeft bs) else none   -- space expected after closing quote
    else if b == BSLASH then
      match bs with
      | [] => none
      | c :: cs => (stringBody cs).map fun (v, r) => (c :: v, r)
    else (stringBody bs).map fun (v, r) => (b :: v, r)

/-- `Tokenizer::NextParam` on a non-empty input -/
def nextParam : Bytes → Option (Bytes × Bytes)
  | [] => none
  | b :: bs => if b == QUOTE then stringBody bs else nextUnquoted (b :: bs)

/-- the argument loop of `command_process` (fuel = an upper bound on the number of parameters) -/
def params : Nat → Bytes → Option (List Bytes)
  | _, [] => some []
  | 0, _ :: _ => none
  | fuel + 1, b :: bs =>
    match nextParam (b :: bs) with
    | none => none
    | some (a, rest) => (params fuel rest).map (a :: ·)

/-- one request line (without its LF) as the server reads it: command word and arguments -/
def tokenizeLine (line : Bytes) : Option (Bytes × List Bytes) :=
  let l := cstr (stripRight line)
  match nextWord l with
  | none => none
  | some (w, rest) => (params (rest.length + 1) rest).map fun as => (w, as)

/-- split a byte stream into LF-terminated lines; `none` if it does not end with LF -/
def splitLines : Bytes → Option (List Bytes)
  | [] => some []
  | l =>
    let rec go : Bytes → Bytes → Option (List Bytes)
      | [], [] => some []
      | [], _ :: _ => none
      | b :: bs, acc => if b == LF then (go bs []).map (acc.reverse :: ·) else go bs (b :: acc)
    go l []

/-- everything the client wrote, as the list of tokenised requests (`none` for a line MPD rejects) -/
def tokenizeStream (s : Bytes) : Option (List (Option (Bytes × List Bytes))) :=
  (splitLines s).map fun ls => ls.map tokenizeLine

end Spec.Tok
