import MpdProofs.Lemmas.Bytes
import MpdProofs.C20
import MpdProofs.Lemmas.Frame
import MpdProofs.C19
import MpdProofs.Lemmas.Parser
import MpdProofs.Lemmas.Builder
import MpdProofs.Lemmas.Conn
import MpdProofs.C02
