import MpdProofs.Lemmas.Bytes
import MpdProofs.C20
import MpdProofs.Lemmas.Frame
import MpdProofs.C19
