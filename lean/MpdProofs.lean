import MpdProofs.Lemmas.Bytes
import MpdProofs.C20
import MpdProofs.Lemmas.Song
import MpdProofs.C14
import MpdProofs.C12Song
