import MpdProofs.Lemmas.Bytes
import MpdProofs.C20
import MpdProofs.Lemmas.Tok
import MpdProofs.C06
import MpdProofs.C07
import MpdProofs.C13
