import MpdProofs.Lemmas.Bytes
import MpdProofs.C20
