import MpdProofs.Lemmas.Bytes
import MpdProofs.C20
import MpdProofs.Lemmas.Filter
import MpdProofs.C11
