import Mpd.Typed.Seq
import Mpd.Typed.CmdList
import MpdSpec.Names
import MpdSpec.Records
import MpdSpec.Views
import Driver.Util
import Driver.Tags
/-!
Driver for family `typed` (C16 and the non-song half of C12).

ops (all byte strings hex, `-` = empty, `_` = nothing)
  typed.<kind> <params> <fields> <binary>            arbitrary frame ("field soup")
  typed.<kind>.rec <params> <record> <seed>          abstract reply; impl = `<fields>;<result>`
  typed.cmdlist <vec|tup>:<n> <frame>/<frame>/…      typed command list
`<fields>` = `k=v,k=v,…`; `<binary>` = `none` or hex.
-/
namespace Driver.Typed
open Mpd Mpd.Typed Driver

/-! ## parsing of op arguments -/

def splitFirst (s : String) (c : Char) : Option (String × String) :=
  match s.splitOn (String.singleton c) with
  | [] => none
  | [_] => none
  | a :: rest => some (a, (String.singleton c).intercalate rest)

def mapM? {α β} (f : α → Option β) : List α → Option (List β)
  | [] => some []
  | a :: as => do
    let b ← f a
    let bs ← mapM? f as
    pure (b :: bs)

def parseFields (s : String) : Option Fields :=
  if s == "_" then some [] else
  mapM? (fun p => do
    let (k, v) ← splitFirst p '='
    let k ← unhex k
    let v ← unhex v
    pure (k, v)) (s.splitOn ",")

def parseBin (s : String) : Option (Option Bytes) :=
  if s == "none" then some none else (unhex s).map some

def fmtFields (l : Fields) : String :=
  if l.isEmpty then "_" else ",".intercalate (l.map fun (k, v) => s!"{hex k}={hex v}")

/-- what `mpd_protocol`'s parser turns into a field: key non-empty over the field-name alphabet
and not `binary`; value valid UTF-8 without LF -/
def parseable (f : AFrame) : Bool :=
  f.fields.all fun (k, v) =>
    !k.isEmpty && k.all Spec.fieldNameChar && k != str "binary" && !v.contains LF && validUtf8 v

def rows (s : String) : List String := if s == "_" then [] else s.splitOn "|"

/-! ## canonical printers (identical in harness/src/typed.rs) -/

def optS {α} (f : α → String) : Option α → String
  | none => "none"
  | some a => "some:" ++ f a

def fmtDur (d : Dur) : String := s!"{d.1}.{d.2}"
def fmtPair (p : Nat × Nat) : String := s!"{p.1}/{p.2}"
def seqS (l : List String) : String := "[" ++ "|".intercalate l ++ "]"

def fmtState : PlayState → String
  | .playing => "play" | .paused => "pause" | .stopped => "stop"
def fmtSingle : SingleMode → String
  | .disabled => "0" | .enabled => "1" | .oneshot => "oneshot"
def fmtRG : ReplayGainMode → String
  | .off => "off" | .track => "track" | .album => "album" | .auto => "auto"

def fmtStatus (s : Status) : String :=
  s!"vol={s.volume},st={fmtState s.state},rep={b01 s.repeat_},rnd={b01 s.random},con={b01 s.consume}" ++
  s!",sgl={fmtSingle s.single},plv={s.playlistVersion},pll={s.playlistLength}" ++
  s!",cur={optS fmtPair s.currentSong},nxt={optS fmtPair s.nextSong}" ++
  s!",el={optS fmtDur s.elapsed},dur={optS fmtDur s.duration},br={optS toString s.bitrate}" ++
  s!",xf={fmtDur s.crossfade},uj={optS toString s.updateJob},err={optS hex s.error},part={optS hex s.partition}"

def fmtStats (s : Stats) : String :=
  s!"art={s.artists},alb={s.albums},songs={s.songs},up={fmtDur s.uptime},play={fmtDur s.playtime}" ++
  s!",dbp={fmtDur s.dbPlaytime},dbu={s.dbLastUpdate}"

def fmtCount (c : Count) : String := s!"{c.songs}/{fmtDur c.playtime}"
def fmtCountGroups (l : List (Bytes × Count)) : String :=
  seqS (l.map fun (v, c) => s!"{hex v}/{fmtCount c}")

def fmtTag (t : Tag) : String := s!"{Tags.tagIdent t}/{hex t.name}"

def fmtGrouped (l : List (Bytes × List Bytes)) : String :=
  seqS (l.map fun (v, gs) => s!"{hex v}:{";".intercalate (gs.map hex)}")

def fmtListCommon (l : ListResp) : String :=
  s!"gv={fmtGrouped l.groupedValues},by={seqS (l.groupings.map fmtTag)}" ++
  s!",raw={seqS (l.fields.map fun (t, v) => s!"{fmtTag t}/{hex v}")}"

/-- `List<0>`: additionally everything the three value iterators offer -/
def fmtListPlain (l : ListResp) : String :=
  let vs := l.values
  s!"vals={seqS (vs.map hex)},len={vs.length},last={optS hex vs.getLast?},rev={seqS (vs.reverse.map hex)}" ++
  s!",nth1={optS hex vs[1]?},nthb1={optS hex vs.reverse[1]?}," ++ fmtListCommon l

def fmtPlaylists (l : List Playlist) : String :=
  seqS (l.map fun p => s!"{hex p.name}/{hex p.lastModified}")

def insertSorted (p : Bytes × Bytes) : List (Bytes × Bytes) → List (Bytes × Bytes)
  | [] => [p]
  | q :: qs => if cmpBytes p.1 q.1 ≤ 0 then p :: q :: qs else q :: insertSorted p qs

def sortMap (m : SMap) : SMap := m.foldr insertSorted []

def fmtMap (m : SMap) : String :=
  "{" ++ "|".intercalate ((sortMap m).map fun (k, v) => s!"{hex k}={hex v}") ++ "}"

def fmtPairs (l : List (Bytes × Bytes)) : String := seqS (l.map fun (a, b) => s!"{hex a}/{hex b}")

def fmtArt : Option AlbumArt → String
  | none => "none"
  | some a => s!"some:size={a.size},mime={optS hex a.mime},data={hex a.data}"

def fmtOutcome {α} (f : α → String) : Outcome α → String
  | .ok v => "ok:" ++ f v
  | .terr => "terr"
  | .panic => "PANIC"

def outcomeTag {α} : Outcome α → String
  | .ok _ => "ok"
  | .terr => "terr"
  | .panic => "panic"

/-! ## the model on one frame -/

/-- tags of a `primary/g1/g2` parameter -/
def parseTags (s : String) : Option (List Tag) := mapM? Tags.parseTagSpec (s.splitOn "/")

/-- (canonical model result, outcome tag) of decoding frame `f` as `kind` -/
def runKind (kind params : String) (f : AFrame) : Option (String × String) :=
  let r {α} (o : Outcome α) (p : α → String) : Option (String × String) := some (fmtOutcome p o, outcomeTag o)
  match kind with
  | "status" => r (decStatus f) fmtStatus
  | "stats" => r (decStats f) fmtStats
  | "rg" => r (decReplayGain f) fmtRG
  | "count" => r (decCount f) fmtCount
  | "countg" => (Tags.parseTagSpec params).bind fun t => r (decCountGrouped t f) fmtCountGroups
  | "list" => (Tags.parseTagSpec params).bind fun t => r (decList t [] f) fmtListPlain
  | "listg" =>
    match parseTags params with
    | some (t :: gs) => if gs.isEmpty || gs.length > 3 then none else r (decList t gs f) fmtListCommon
    | _ => none
  | "playlists" => r (decPlaylists f) fmtPlaylists
  | "playlistsc" => r (decPlaylists f) fmtPlaylists
  | "stget" => r (decStickerGet f) hex
  | "stlist" => r (decStickerList f) fmtMap
  | "stfind" => r (decStickerFind f) fmtMap
  | "messages" => r (decChannelMessages f) fmtPairs
  | "channels" => r (decListChannels f) (fun l => seqS (l.map hex))
  | "tagtypes" => r (decTagTypes f) (fun l => seqS (l.map fmtTag))
  | "update" => r (decUpdate f) toString
  | "addid" => r (decAddId f) toString
  | "unit" => r (decUnit f) (fun _ => "unit")
  | "art" => r (decAlbumArt f) fmtArt
  | _ => none

/-! ## oracle for arbitrary frames: computed from `MpdSpec/Records.lean`, not from the model -/

/-- first value of key `k` -/
def look (l : Fields) (k : String) : Option Bytes := (l.find? (·.1 == str k)).map (·.2)

/-- optional field: absent or inside its domain -/
def optIn (l : Fields) (k : String) (dom : Bytes → Bool) : Bool :=
  match look l k with
  | none => true
  | some v => dom v

/-- required field: present and inside its domain -/
def reqIn (l : Fields) (k : String) (dom : Bytes → Bool) : Bool :=
  match look l k with
  | none => false
  | some v => dom v

def U64 : Nat := 2 ^ 64 - 1

/-- legacy `Time: elapsed:total` -/
def legacyTimeDomain (v : Bytes) : Bool :=
  match v.dropWhile (· != COLON) with
  | _ :: d => Spec.durationDomain d
  | [] => false

def hasEq (v : Bytes) : Bool := v.contains 61

/-- groups of `count … group`: tag line, then `songs` and `playtime` once each in either order -/
def countGroupsShape (tag : Bytes) : Fields → Bool
  | (k, _) :: (a, x) :: (b, y) :: rest =>
    k == tag &&
    ((a == str "songs" && b == str "playtime" && Spec.natDomain U64 x && Spec.durationDomain y) ||
     (a == str "playtime" && b == str "songs" && Spec.durationDomain x && Spec.natDomain U64 y)) &&
    countGroupsShape tag rest
  | [] => true
  | _ => false

/-- `playlist` / `Last-Modified` pairs. (The crate also accepts one trailing `playlist` line
without `Last-Modified`, silently dropping it; MPD always sends the pair. Tolerated here, reported
in DESIGN/known observations.) -/
def playlistsShape : Fields → Bool
  | (a, _) :: (b, _) :: rest => a == str "playlist" && b == str "Last-Modified" && playlistsShape rest
  | [(a, _)] => a == str "playlist"
  | [] => true

def pairsShape (ka kb : Bytes) : Fields → Bool
  | (a, _) :: (b, _) :: rest => a == ka && b == kb && pairsShape ka kb rest
  | [] => true
  | _ => false

/-- may a frame with these fields decode to a value (`ok`) at all, according to the field domains
of the reply kind? -/
def mayBeOk (kind params : String) (f : AFrame) : Bool :=
  let l := f.fields
  match kind with
  | "status" =>
    optIn l "single" Spec.singleDomain && optIn l "duration" Spec.durationDomain &&
    ((look l "duration").isSome || optIn l "Time" legacyTimeDomain) &&
    optIn l "volume" (Spec.natDomain 255) && reqIn l "state" Spec.stateDomain &&
    reqIn l "repeat" Spec.boolDomain && reqIn l "random" Spec.boolDomain &&
    reqIn l "consume" Spec.boolDomain && optIn l "playlistlength" (Spec.natDomain U64) &&
    optIn l "playlist" (Spec.natDomain (2 ^ 32 - 1)) &&
    optIn l "song" (Spec.natDomain U64) &&
    ((look l "song").isNone || reqIn l "songid" (Spec.natDomain U64)) &&
    optIn l "nextsong" (Spec.natDomain U64) &&
    ((look l "nextsong").isNone || reqIn l "nextsongid" (Spec.natDomain U64)) &&
    optIn l "elapsed" Spec.durationDomain && optIn l "bitrate" (Spec.natDomain U64) &&
    optIn l "xfade" Spec.durationDomain && optIn l "updating_db" (Spec.natDomain U64)
  | "stats" =>
    reqIn l "artists" (Spec.natDomain U64) && reqIn l "albums" (Spec.natDomain U64) &&
    reqIn l "songs" (Spec.natDomain U64) && reqIn l "uptime" Spec.durationDomain &&
    reqIn l "playtime" Spec.durationDomain && reqIn l "db_playtime" Spec.durationDomain &&
    reqIn l "db_update" (Spec.natDomain U64)
  | "rg" => reqIn l "replay_gain_mode" Spec.rgDomain
  | "count" => reqIn l "songs" (Spec.natDomain U64) && reqIn l "playtime" Spec.durationDomain
  | "countg" =>
    match Tags.parseTagSpec params with
    | some t => countGroupsShape t.name l
    | none => false
  | "playlists" => playlistsShape l
  | "playlistsc" => playlistsShape l
  | "stget" =>
    match l with
    | (k, v) :: _ => k == str "sticker" && hasEq v
    | [] => false
  | "stlist" => l.all fun (_, v) => hasEq v
  | "stfind" => l.all fun (k, v) => k == str "file" || (k == str "sticker" && hasEq v)
  | "messages" => pairsShape (str "channel") (str "message") l
  | "channels" => l.all fun (k, _) => k == str "channel"
  | "tagtypes" => l.all fun (k, v) => k == str "tagtype" && !v.isEmpty && v.all Spec.fieldNameChar
  | "update" => reqIn l "updating_db" (Spec.natDomain U64)
  | "addid" => reqIn l "Id" (Spec.natDomain U64)
  | "art" => f.binary.isNone || reqIn l "size" (Spec.natDomain U64)
  | _ => true

def oracleSoup (kind params : String) (f : AFrame) (impl : String) : String :=
  if impl == "PANIC" then "fail:panic"
  else if impl.startsWith "ok" && !mayBeOk kind params f then "fail:value-outside-domain-decoded"
  else if !(impl.startsWith "ok" || impl == "terr") then "fail:unparsable-result"
  else "ok"

/-! ## abstract records (`.rec` ops) -/

def kvs (s : String) : List (String × String) :=
  if s == "_" then [] else (s.splitOn ",").filterMap fun p => splitFirst p '='

def gNat (l : List (String × String)) (k : String) : Option Nat := (lookup k l).bind String.toNat?
def gHex (l : List (String × String)) (k : String) : Option Bytes := (lookup k l).bind unhex
def gBool (l : List (String × String)) (k : String) : Bool := lookup k l == some "1"
def gPair (l : List (String × String)) (k : String) : Option (Nat × Nat) :=
  (lookup k l).bind fun s =>
    match s.splitOn "/" with
    | [a, b] => do
      let a ← a.toNat?
      let b ← b.toNat?
      pure (a, b)
    | _ => none

def parseStatusRec (s : String) : Option Spec.StatusRec := do
  let l := kvs s
  let state ← match lookup "state" l with
    | some "play" => some Spec.State.play
    | some "pause" => some .pause
    | some "stop" => some .stop
    | _ => none
  let single ← match lookup "single" l with
    | none => some none
    | some "off" => some (some Spec.Single.off)
    | some "on" => some (some .on)
    | some "oneshot" => some (some .oneshot)
    | _ => none
  pure { volume := gNat l "volume", repeat_ := gBool l "repeat", random := gBool l "random", single,
         consume := gBool l "consume", partition := gHex l "partition", playlist := gNat l "playlist",
         playlistlength := gNat l "playlistlength", mixrampdb := gHex l "mixrampdb", state,
         xfade := gNat l "xfade", mixrampdelay := gHex l "mixrampdelay", song := gPair l "song",
         time := gHex l "time", elapsed := gNat l "elapsed", bitrate := gNat l "bitrate",
         duration := gNat l "duration", audio := gHex l "audio", updatingDb := gNat l "updating_db",
         error := gHex l "error", nextsong := gPair l "nextsong" }

def parseStatsRec (s : String) : Option Spec.StatsRec := do
  let l := kvs s
  pure { uptime := ← gNat l "uptime", playtime := ← gNat l "playtime", artists := ← gNat l "artists",
         albums := ← gNat l "albums", songs := ← gNat l "songs", dbPlaytime := ← gNat l "db_playtime",
         dbUpdate := ← gNat l "db_update" }

def cells (s : String) : List String := s.splitOn "/"

def parseBytesPairs (s : String) : Option (List (Bytes × Bytes)) :=
  mapM? (fun r => match cells r with
    | [a, b] => do
      let a ← unhex a
      let b ← unhex b
      pure (a, b)
    | _ => none) (rows s)

def parseBytesList (s : String) : Option (List Bytes) := mapM? unhex (rows s)

def parseCountGroups (s : String) : Option (List Spec.CountGroup) :=
  mapM? (fun r => match cells r with
    | [v, n, p, pf] => do
      let value ← unhex v
      let songs ← n.toNat?
      let playtime ← p.toNat?
      pure { value, songs, playtime, playtimeFirst := pf == "1" }
    | _ => none) (rows s)

def semi (s : String) : List String := if s == "_" then [] else s.splitOn ";"

def parseListRows (s : String) : Option (List Spec.ListRow) :=
  mapM? (fun r => match cells r with
    | [v, gs, em] => do
      let value ← unhex v
      let groups ← mapM? unhex (semi gs)
      let emit ← mapM? String.toNat? (semi em)
      pure { value, groups, emit }
    | _ => none) (rows s)

/-- expected lines and expected canonical result of an abstract reply:
`(lines, permutable, expected)`; `none` = unusable op -/
def specOf (kind params record : String) : Option (List Spec.Line × Bool × String) :=
  match kind with
  | "status" => (parseStatusRec record).map fun r => (Spec.encStatus r, true, fmtStatus (Spec.viewStatus r))
  | "stats" => (parseStatsRec record).map fun r => (Spec.encStats r, true, fmtStats (Spec.viewStats r))
  | "count" => do
    let l := kvs record
    let r : Spec.CountRec := { songs := ← gNat l "songs", playtime := ← gNat l "playtime" }
    pure (Spec.encCount r, true, fmtCount (Spec.viewCount r))
  | "update" => do
    let j ← gNat (kvs record) "job"
    pure (Spec.encUpdate j, true, toString j)
  | "rg" => do
    let m ← match lookup "mode" (kvs record) with
      | some "off" => some Spec.RGMode.off
      | some "track" => some .track
      | some "album" => some .album
      | some "auto" => some .auto
      | _ => none
    pure (Spec.encReplayGain m, true, fmtRG (Spec.viewRG m))
  | "countg" => do
    let t ← Tags.parseTagSpec params
    let gs ← parseCountGroups record
    pure (Spec.encCountGrouped t.name gs, false, fmtCountGroups (Spec.viewCountGroups gs))
  | "list" => do
    let t ← Tags.parseTagSpec params
    let vs ← parseBytesList record
    pure (Spec.encList t.name vs, false, seqS (vs.map hex))
  | "listg" => do
    let ts ← parseTags params
    match ts with
    | t :: gs =>
      let rs ← parseListRows record
      if !Spec.rowsOk gs.length (List.replicate gs.length []) rs then none
      else pure (Spec.encListGrouped t.name (gs.map Tag.name) rs, false, fmtGrouped (Spec.viewListRows rs))
    | [] => none
  | "playlists" => (parseBytesPairs record).map fun rs =>
      (Spec.encPlaylists rs, false, fmtPlaylists (Spec.viewPlaylists rs))
  | "playlistsc" => (parseBytesPairs record).map fun rs =>
      (Spec.encPlaylists rs, false, fmtPlaylists (Spec.viewPlaylists rs))
  | "stget" =>
    match parseBytesPairs record with
    | some [(n, v)] => if Spec.stickerName n then some (Spec.encStickerGet n v, false, hex v) else none
    | _ => none
  | "stlist" => (parseBytesPairs record).bind fun rs =>
      if rs.all (fun p => Spec.stickerName p.1) then some (Spec.encStickerList rs, false, fmtMap rs) else none
  | "stfind" => do
    let n ← unhex params
    let rs ← parseBytesPairs record
    if Spec.stickerName n then pure (Spec.encStickerFind n rs, false, fmtMap rs) else none
  | "messages" => (parseBytesPairs record).map fun rs => (Spec.encMessages rs, false, fmtPairs rs)
  | "channels" => (parseBytesList record).map fun cs => (Spec.encChannels cs, false, seqS (cs.map hex))
  | "tagtypes" => (parseBytesList record).bind fun ns =>
      (mapM? (fun n => match Tag.tryFrom n with | .ok t => some t | .error _ => none) ns).map fun ts =>
        (Spec.encTagTypes ns, false, seqS (ts.map fmtTag))
  | _ => none

/-- the part of the canonical result a `.rec` op compares: for `list`/`listg` the values
respectively the grouped values -/
def recObserved (kind : String) (result : String) : String :=
  let pick (key : String) : String :=
    match result.splitOn (key ++ "=") with
    | _ :: b :: _ => (b.splitOn ",").head!
    | _ => result
  if !result.startsWith "ok:" then result
  else if kind == "list" then pick "ok:vals"
  else if kind == "listg" then pick "ok:gv"
  else (result.drop 3).toString

/-! ## typed command lists -/

/-- command at position `i` of the list the harness builds: `Update`, `Add`, `Ping`, … -/
def listCmd (i : Nat) : AFrame → Outcome String :=
  match i % 3 with
  | 0 => fun f => (decUpdate f).map toString
  | 1 => fun f => (decAddId f).map toString
  | _ => fun f => (decUnit f).map fun _ => "unit"

def parseFrames (s : String) : Option (List AFrame) :=
  if s == "_" then some [] else
  mapM? (fun p => (parseFields (if p == "-" then "_" else p)).map fun l => ({ fields := l } : AFrame)) (s.splitOn "/")

/-! ## dispatch -/

def handle (toks : List String) (impl : String) : Verdict :=
  match toks with
  | [op, shape, frames] =>
    if op != "typed.cmdlist" then bad "typed" else
    match shape.splitOn ":", parseFrames frames with
    | [sh, n], some fs =>
      match n.toNat? with
      | none => bad "arity"
      | some n =>
        if !fs.all parseable then { model := "noparse", branch := "cmdlist-bad" } else
        let cmds := (List.range n).map listCmd
        let o := if sh == "vec" then vecResponses ((List.range n).map fun _ => listCmd 0) fs
                 else tupleResponses cmds fs
        { model := fmtOutcome (fun l => seqS l) o,
          oracle := if impl == "PANIC" then "fail:panic"
                    else if impl.startsWith "ok" && (if sh == "vec" then n != fs.length else fs.length < n)
                      then "fail:frame-count-mismatch-accepted"
                    else "ok",
          branch := s!"cmdlist-{sh}-{if n == fs.length then "match" else if fs.length < n then "short" else "long"}-{outcomeTag o}" }
    | _, _ => bad "cmdlist"
  | [op, params, a, b] =>
    match op.splitOn "." with
    | ["typed", kind] =>
      match parseFields a, parseBin b with
      | some l, some bin =>
        let f : AFrame := { fields := l, binary := bin }
        if !parseable f then { model := "noparse", oracle := if impl == "noparse" then "ok" else "fail:parser", branch := s!"{kind}-bad" } else
        match runKind kind params f with
        | none => bad "kind"
        | some (model, tag) =>
          -- build configuration `chrono` (kind `playlistsc`): an unparsable timestamp is an error there;
          -- chrono's RFC 3339 parser is outside the model, so a `terr` where the model decodes is
          -- accepted (totality and raw() are what is compared)
          if kind == "playlistsc" && tag == "ok" && impl == "terr" then
            { model := "terr", oracle := "ok", branch := "playlistsc-chrono-rejects" }
          else
          { model, oracle := oracleSoup kind params f impl, branch := s!"{kind}-{tag}" }
      | _, _ => bad "fields"
    | ["typed", kind, "rec"] =>
      match specOf kind params a with
      | none => bad "record"
      | some (lines, permutable, expected) =>
        match splitFirst impl ';' with
        | none => { model := "-", oracle := if impl == "PANIC" then "fail:panic" else "fail:unparsable-result", branch := s!"{kind}-rec" }
        | some (lstr, result) =>
          match parseFields lstr with
          | none => { model := "-", oracle := "fail:unparsable-result", branch := s!"{kind}-rec" }
          | some used =>
            let f : AFrame := { fields := used }
            let model := match runKind kind params f with
              | some (m, _) => s!"{lstr};{m}"
              | none => "bad-kind"
            let oracle :=
              if !(if permutable then used.isPerm lines else used == lines) then "fail:encoder-differs-from-spec"
              else if result == "PANIC" then "fail:panic"
              else if recObserved kind result != expected then s!"fail:{kind}-decoded-value-differs-from-reply"
              else "ok"
            { model, oracle, branch := s!"{kind}-rec" }
    | _ => bad "typed"
  | _ => bad "typed"

end Driver.Typed
