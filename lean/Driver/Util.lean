import Mpd.Basic
/-! Line-protocol helpers for the driver: hex coding and result formatting. -/
namespace Driver

def hexVal (c : Char) : Option Nat :=
  if '0' ≤ c ∧ c ≤ '9' then some (c.toNat - 48)
  else if 'a' ≤ c ∧ c ≤ 'f' then some (c.toNat - 87)
  else if 'A' ≤ c ∧ c ≤ 'F' then some (c.toNat - 55)
  else none

def unhexChars : List Char → Option Bytes
  | [] => some []
  | a :: b :: rest => do
    let x ← hexVal a
    let y ← hexVal b
    let r ← unhexChars rest
    pure ((x * 16 + y).toUInt8 :: r)
  | _ => none

/-- `-` is the empty byte string -/
def unhex (s : String) : Option Bytes :=
  if s == "-" then some [] else unhexChars s.toList

def hexDigit (n : Nat) : Char :=
  if n < 10 then Char.ofNat (48 + n) else Char.ofNat (87 + n)

def hex (b : Bytes) : String :=
  if b.isEmpty then "-" else
  String.ofList (b.flatMap fun x => [hexDigit (x.toNat / 16), hexDigit (x.toNat % 16)])

def b01 (b : Bool) : String := if b then "1" else "0"

/-- one output line of the driver: model result, oracle verdict on the implementation's result,
known-finding class (or `-`), branch tag for the coverage histogram -/
structure Verdict where
  model : String
  oracle : String := "ok"
  cls : String := "-"
  branch : String := "-"

def Verdict.render (v : Verdict) : String := s!"{v.model} {v.oracle} {v.cls} {v.branch}"

def bad (why : String) : Verdict := { model := s!"bad-op:{why}", oracle := "fail:bad-op" }

/-- split `a:b,c:d` style results -/
def kv (s : String) : List (String × String) :=
  (s.splitOn ",").filterMap fun p =>
    match p.splitOn ":" with
    | [k, v] => some (k, v)
    | _ => none

def lookup (k : String) (l : List (String × String)) : Option String :=
  (l.find? (·.1 == k)).map (·.2)

end Driver
