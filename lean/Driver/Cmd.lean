import Mpd.Command
import Mpd.Filter
import Mpd.Conn
import MpdSpec.Tokenizer
import Driver.Util
/-!
Driver for family `cmd` (C06, C07, C13 framing).  Model results come from `Mpd.Cmd`; the oracles
read the *implementation's* bytes with the specification side only (`Spec.Tok`: MPD's tokenizer
and line splitting) — they never consult the model.

* `cmd.build` / `cmd.esc` — oracle of **C06** (what MPD reads back = name and accepted arguments);
* `cmd.raw` / `cmd.seq`   — oracle of **C07** (rejections, command unchanged, one line);
* `cmd.list`              — oracle of **C07 / C13** (framing of a command list).
-/
namespace Driver.Cmd
open Mpd Mpd.Cmd Driver

inductive Arg where
  | s (a : Bytes)   -- `&str` argument (rendered through `escape_argument`)
  | r (b : Bytes)   -- user-defined `Argument` whose renderer appends `b`

def Arg.rendered : Arg → Bytes
  | .s a => escapeArgument a
  | .r b => b

/-- the bytes the *caller* handed over (what the property speaks about) -/
def Arg.raw : Arg → Bytes
  | .s a => a
  | .r b => b

def parseArg (t : String) : Option Arg :=
  match t.toList with
  | 's' :: rest => if rest.isEmpty then none else
      (unhex (String.ofList rest)).bind fun b => if validUtf8 b then some (.s b) else none
  | 'r' :: rest => if rest.isEmpty then none else (unhex (String.ofList rest)).map .r
  -- `f<tag>.<value>`: a filter `(<tag> == "<value>")` with a hand-built catch-all tag as the argument: one
  -- more renderer of the library, whose output is subject to the same line-feed / NUL scan as any other
  | 'f' :: rest =>
    match (String.ofList rest).splitOn "." with
    | [t, v] =>
      match (if t.isEmpty then some [] else unhex t), (if v.isEmpty then some [] else unhex v) with
      | some tb, some vb =>
        if validUtf8 tb && validUtf8 vb then
          (Mpd.Filter.render (Mpd.Filter.tag (.other tb) vb)).map .r
        else none
      | _, _ => none
    | _ => none
  | _ => none

def fmtNameErr : CmdErr → String
  | .empty => "empty"
  | .invalidChar p => s!"char:{p}"
  | .commandList => "list"

def nameErrKind : CmdErr → String
  | .empty => "empty"
  | .invalidChar _ => "char"
  | .commandList => "list"

def joinOr (l : List String) : String := if l.isEmpty then "-" else ",".intercalate l

/-- model: `add_argument` for each argument in turn, continuing after a rejection;
returns the verdicts and the buffer after every call (first element: after `build`) -/
def runArgs (c : Bytes) : List Arg → List String × List Bytes
  | [] => ([], [c])
  | a :: as =>
    let (res, buf) := addRendered c a.rendered
    let v := match res with
      | .ok _ => "a"
      | .error (.invalidChar i) => s!"r{i}"
      | .error _ => "r?"
    let (vs, bufs) := runArgs buf as
    (v :: vs, c :: bufs)

/-! ## specification-side helpers -/

def hasLF (b : Bytes) : Bool := b.contains LF

/-- a name the property obliges the builder to refuse -/
def mustRejectName (n : Bytes) : Bool :=
  n.isEmpty || n.any (fun b => !(Spec.Tok.validWordChar b)) ||
  n == str "command_list_begin" || n == str "command_list_ok_begin" || n == str "command_list_end"

/-- the command word MPD reads from a line -/
def firstWord (l : Bytes) : Option Bytes :=
  (Spec.Tok.nextWord (Spec.Tok.cstr (Spec.Tok.stripRight l))).map (·.1)

/-- exactly one LF-terminated line -/
def oneLine (b : Bytes) : Option Bytes :=
  match Spec.Tok.splitLines b with
  | some [l] => some l
  | _ => none

def unhexList (s : String) : Option (List Bytes) :=
  if s == "-" then some [] else (s.splitOn ",").mapM unhex

/-! ## C06 -/

def oracleBuild (n : Bytes) (args : List Bytes) (impl : String) : String :=
  if impl == "CLONE-FROM-DIFFERS" then "fail:c06-clone-from-gives-another-command" else
  match impl.splitOn ";" with
  | [nv, vs, hb] =>
    if nv != "ok" then
      (if hb == "-" then "ok" else "fail:rejected-name-wrote-bytes")
    else
      let vl := if vs == "-" then [] else vs.splitOn ","
      if vl.length != args.length then "fail:unparsable-result" else
      let acc := (args.zip vl).filterMap fun (a, v) => if v == "a" then some a else none
      match unhex hb with
      | none => "fail:unparsable-result"
      | some bytes =>
        match Spec.Tok.tokenizeStream bytes with
        | some [some (w, as)] =>
          if w != n then "fail:c06-name-not-read-back"
          else if as != acc then "fail:c06-arguments-not-read-back"
          else "ok"
        | some [none] => "fail:c06-line-rejected-by-mpd"
        | _ => "fail:c06-not-one-request"
  | _ => "fail:unparsable-result"

def argFlags (args : List Bytes) (verdicts : List String) : String :=
  let pairs := args.zip verdicts
  let q := pairs.any fun (a, v) => v == "a" && needsQuotes a
  let k := pairs.any fun (a, v) => v == "a" && isK1 a
  let u := pairs.any fun (a, v) => v == "a" && !(needsQuotes a) && !(isK1 a)
  let r := pairs.any fun (_, v) => v != "a"
  let parts := (if q then ["quoted"] else []) ++ (if u then ["unquoted-plain"] else []) ++
    (if k then ["K1"] else []) ++ (if r then ["rejected-arg"] else [])
  "+".intercalate parts

def handleBuild (nameH : String) (argHs : List String) (impl : String) : Verdict :=
  match unhex nameH, argHs.mapM unhex with
  | some n, some args =>
    if !(validUtf8 n) || args.any (fun a => !(validUtf8 a)) then
      { model := "badinput", oracle := if impl == "badinput" then "ok" else "fail:badinput", branch := "build-bad" }
    else
      match build n with
      | .error e =>
        { model := s!"{fmtNameErr e};-;-", oracle := oracleBuild n args impl, branch := "rejected-name" }
      | .ok c =>
        let (vs, bufs) := runArgs c (args.map .s)
        let final := bufs.getLast?.getD c
        { model := s!"ok;{joinOr vs};{hex (sendBytes final)}",
          oracle := oracleBuild n args impl,
          cls := if args.any isK1 then "K1" else "-",
          branch := if args.isEmpty then "noargs" else argFlags args vs }
  | _, _ => bad "hex"

def handleEsc (h : String) (impl : String) : Verdict :=
  match unhex h with
  | none => bad "hex"
  | some a =>
    if !(validUtf8 a) then
      { model := "badinput", oracle := if impl == "badinput" then "ok" else "fail:badinput", branch := "esc-bad" }
    else
      let unaccepted := a.contains LF || a.contains 0
      let oracle :=
        if unaccepted then "ok"      -- such an argument never reaches the wire (C07)
        else match unhex impl with
          | none => "fail:unparsable-result"
          | some r =>
            if Spec.Tok.tokenizeLine (str "x" ++ SPACE :: r) == some (str "x", [a]) then "ok"
            else "fail:c06-escaped-form-not-read-back"
      { model := hex (escapeArgument a), oracle,
        cls := if isK1 a then "K1" else "-",
        branch := if unaccepted then "esc-unaccepted" else if isK1 a then "esc-K1"
          else if needsQuotes a then "esc-quoted" else "esc-plain" }

/-! ## C07 -/

/-- walk over the calls: argument, implementation verdict, line before, line after -/
def checkSteps : List Arg → List String → Bytes → List Bytes → String
  | [], [], _, [] => "ok"
  | a :: as, v :: vs, prev, cur :: rest =>
    if hasLF a.raw && v == "a" then "fail:c07-argument-with-LF-accepted"
    else if v != "a" then
      (if cur != prev then "fail:c07-rejected-argument-changed-command" else checkSteps as vs cur rest)
    else
      match a with
      | .r b =>
        if cur != prev ++ SPACE :: b then "fail:c07-accepted-rendering-not-appended-verbatim"
        else checkSteps as vs cur rest
      | .s _ =>
        if !((prev ++ [SPACE]).isPrefixOf cur) || cur.length ≤ prev.length + 1 then "fail:c07-accepted-argument-not-appended"
        else checkSteps as vs cur rest
  | _, _, _, _ => "fail:unparsable-result"

def oracleSeq (n : Bytes) (args : List Arg) (impl : String) : String :=
  match impl.splitOn ";" with
  | [nv, vs, hs] =>
    if nv != "ok" then
      (if hs == "-" && vs == "-" then "ok" else "fail:c07-rejected-name-wrote-bytes")
    else if mustRejectName n then "fail:c07-invalid-name-accepted"
    else
      let vl := if vs == "-" then [] else vs.splitOn ","
      match unhexList hs with
      | none => "fail:unparsable-result"
      | some steps =>
        match steps.mapM oneLine with
        | none => "fail:c07-not-exactly-one-line"
        | some [] => "fail:unparsable-result"
        | some (l0 :: ls) =>
          if firstWord l0 != some n then "fail:c07-command-word-is-not-the-name"
          else
            let r := checkSteps args vl l0 ls
            if r != "ok" then r
            else if firstWord ((l0 :: ls).getLast?.getD l0) != some n then "fail:c07-command-word-is-not-the-name"
            else "ok"
  | _ => "fail:unparsable-result"

def seqBranch (kind : String) (args : List Arg) (vs : List String) : String :=
  if args.isEmpty then s!"{kind}-noargs" else
  let acc := vs.any (· == "a")
  let rej := vs.any (· != "a")
  let mixed :=
    -- a rejected call followed later by an accepted one
    (vs.dropWhile (· == "a")).any (· == "a")
  if mixed then s!"{kind}-rejected-then-accepted"
  else if acc && rej then s!"{kind}-accepted-then-rejected"
  else if rej then s!"{kind}-all-rejected" else s!"{kind}-all-accepted"

def handleSeq (kind : String) (nameH : String) (args : Option (List Arg)) (impl : String) : Verdict :=
  match unhex nameH, args with
  | some n, some args =>
    if !(validUtf8 n) then
      { model := "badinput", oracle := if impl == "badinput" then "ok" else "fail:badinput", branch := s!"{kind}-bad" }
    else
      match build n with
      | .error e =>
        { model := s!"{fmtNameErr e};-;-", oracle := oracleSeq n args impl,
          branch := s!"rejected-name-{nameErrKind e}" }
      | .ok c =>
        let (vs, bufs) := runArgs c args
        { model := s!"ok;{joinOr vs};{",".intercalate (bufs.map fun b => hex (sendBytes b))}",
          oracle := oracleSeq n args impl,
          branch := seqBranch kind args vs }
  | some _, none =>
    { model := "badinput", oracle := if impl == "badinput" then "ok" else "fail:badinput", branch := s!"{kind}-bad" }
  | none, _ => bad "hex"

/-! ## lists (C07 framing clause, C13 framing half) -/

/-- split the token list at `|` -/
def splitBar : List String → List (List String)
  | [] => [[]]
  | t :: ts =>
    match splitBar ts with
    | g :: gs => if t == "|" then [] :: g :: gs else (t :: g) :: gs
    | [] => [[t]]

def parseCommand (toks : List String) : Option (Bytes × List Arg) :=
  match toks with
  | [] => none
  | n :: as =>
    match unhex n, as.mapM parseArg with
    | some nb, some args => if validUtf8 nb then some (nb, args) else none
    | _, _ => none

/-- the model of one command of a list: `build`, then every argument offered (rejections ignored) -/
def modelCommand (n : Bytes) (args : List Arg) : Option Bytes :=
  match build n with
  | .error _ => none
  | .ok c => (runArgs c args).2.getLast?

/-- modes → operations on the vector -/
def opsOf : List Char → List Bytes → Option (List ListOp)
  | [], [] => some []
  | [], _ :: _ => none
  | 'x' :: ms, cs => (opsOf ms cs).map (ListOp.extend [] :: ·)
  | '0' :: ms, c :: cs => (opsOf ms cs).map (ListOp.add c :: ·)
  | '1' :: ms, c :: cs => (opsOf ms cs).map (ListOp.command c :: ·)
  | '2' :: ms, c :: cs =>
    -- adjacent `2`s are one `extend` call
    match opsOf ms cs with
    | some (ListOp.extend (d :: ds) :: rest) =>
      if ms.head? == some '2' then some (ListOp.extend (c :: d :: ds) :: rest)
      else some (ListOp.extend [c] :: ListOp.extend (d :: ds) :: rest)
    | some rest => some (ListOp.extend [c] :: rest)
    | none => none
  | _, _ => none

def oracleList (names : List Bytes) (impl : String) : String :=
  match impl.splitOn ";" with
  | [hl, hs] =>
    match unhex hl, unhexList hs with
    | some bytes, some singles =>
      if singles.length != names.length then "fail:unparsable-result" else
      match singles.mapM oneLine with
      | none => "fail:c07-command-not-exactly-one-line"
      | some ls =>
        if (ls.zip names).any (fun (l, n) => firstWord l != some n) then "fail:c07-command-word-is-not-the-name"
        else if names.any mustRejectName then "fail:c07-invalid-name-accepted"
        else
          let expect :=
            match ls with
            | [l] => [l]
            | _ => str "command_list_ok_begin" :: ls ++ [str "command_list_end"]
          match Spec.Tok.splitLines bytes with
          | none => "fail:c13-stream-does-not-end-with-LF"
          | some got => if got == expect then "ok" else "fail:c13-framing"
    | _, _ => "fail:unparsable-result"
  | _ => "fail:unparsable-result"

def handleList (kS modesS : String) (toks : List String) (impl : String) : Verdict :=
  let badinput : Verdict :=
    { model := "badinput", oracle := if impl == "badinput" then "ok" else "fail:badinput", branch := "list-bad" }
  match kS.toNat?, (splitBar toks).mapM parseCommand with
  | some k, some specs =>
    let modes := if modesS == "-" then [] else modesS.toList
    if specs.length != k || (modes.filter (· != 'x')).length + 1 != k
        || modes.any (fun m => !(m == '0' || m == '1' || m == '2' || m == 'x')) then badinput
    else
      match specs.mapM fun (n, as) => modelCommand n as with
      | none => { model := "badname", oracle := if impl == "badname" then "ok" else "fail:badname", branch := "list-bad" }
      | some [] => badinput
      | some (first :: rest) =>
        match opsOf modes rest with
        | none => badinput
        | some ops =>
          let vec := ops.foldl ListOp.apply (listNew first)
          let model :=
            if vec.length != k then s!"len:{vec.length}"
            else s!"{hex (listRender vec)};{",".intercalate ((first :: rest).map fun c => hex (sendBytes c))}"
          { model, oracle := oracleList (specs.map (·.1)) impl,
            branch := if k == 1 then "list-1" else if k == 2 then "list-2" else if k ≤ 8 then "list-3..8"
              else "list-9+" }
  | _, _ => badinput

/-! ## `write_all` over a transport with short writes (`cmd.wall`) -/

def handleWall (capsS : String) (n : String) (args : List String) (impl : String) : Verdict :=
  let asList := capsS.startsWith "L"
  let capsT := if asList then (capsS.drop 1).toString else capsS
  -- `e` = the first write fails (the request is not sent)
  let failFirst := capsT == "e"
  let caps : Option (List Nat) := if capsT == "-" || failFirst then some [] else (capsT.splitOn ",").mapM (·.toNat?)
  match caps, unhex n, args.mapM unhex with
  | some caps, some name, some as =>
    if !(validUtf8 name) || as.any (fun a => !(validUtf8 a)) then
      { model := "badinput", oracle := if impl == "badinput" then "ok" else "fail:badinput", branch := "wall-bad" }
    else
      match Cmd.build name with
      | .error _ => { model := "rejected", branch := "wall-rejected" }
      | .ok c =>
        match Cmd.addArguments c as with
        | .error _ => { model := "rejected", branch := "wall-rejected" }
        | .ok line =>
          let bytes := if asList then Cmd.renderList line [line] else Cmd.sendBytes line
          let model := if failFirst then "err" else match Mpd.Conn.writeAll caps bytes with
            | some ps => "ok:" ++ "/".intercalate (ps.map hex)
            | none => "wzero"
          -- specification side: what arrived (the pieces in order) is read back by MPD's tokenizer as the
          -- command(s) that were built (K1 arguments apart), whatever the transport took per write
          let oracle :=
            if failFirst then (if impl == "err" then "ok" else "fail:c07-failed-write-not-reported")
            else if impl == "wzero" then (if caps.any (· == 0) then "ok" else "fail:c07-write-error-without-a-refusing-transport")
            else if !(impl.startsWith "ok:") then "fail:c07-request-not-sent"
            else match ((impl.drop 3).toString.splitOn "/").mapM unhex with
              | none => "fail:unparsable-result"
              | some ps =>
                let arrived := ps.flatten
                if as.any isK1 then "ok"
                else
                  let one := some (name, as)
                  let want := if asList then
                      [some (str "command_list_ok_begin", []), one, one, some (str "command_list_end", [])]
                    else [one]
                  if Spec.Tok.tokenizeStream arrived == some want then "ok"
                  else "fail:c07-what-arrived-is-not-the-request-that-was-built"
          { model, oracle, branch := s!"wall-{if asList then "list" else "one"}-{min caps.length 3}{if caps.any (· == 0) then "-zero" else ""}" }
  | _, _, _ => bad "cmd.wall"

def handle (toks : List String) (impl : String) : Verdict :=
  match toks with
  | "cmd.wall" :: caps :: n :: args => handleWall caps n args impl
  | "cmd.build" :: n :: args => handleBuild n args impl
  | ["cmd.esc", a] => handleEsc a impl
  | "cmd.raw" :: n :: args => handleSeq "raw" n ((args.mapM unhex).map (·.map Arg.r)) impl
  | "cmd.seq" :: n :: args => handleSeq "seq" n (args.mapM parseArg) impl
  | "cmd.list" :: k :: modes :: rest => handleList k modes rest impl
  | _ => bad "cmd"

end Driver.Cmd
