import Mpd.Commands
import Mpd.CommandParts
import MpdSpec.Tokenizer
import MpdSpec.Requests
import Driver.Util
import Driver.Tags
import Driver.Filter
/-!
Driver for family `commands` (C15).

Op `pc.<constructor>[.alt] <params…>`: a serialisation of the `PCmd` value (one constructor per
builder path; `.alt` asks the harness for an equivalent alternative path / builder-call order and
is ignored here).  Parameters: numbers decimal; strings hex (`-` = empty); `_` = absent optional;
bounds `i<n>` / `e<n>` / `u`, a range `<bound>,<bound>`; songs `id<n>` / `pos<n>`; positions
`a<n>` / `+<n>` / `-<n>`; durations `<secs>.<nanos>`; seek modes `f|b|a<duration>`;
`enabled|disabled|oneshot`; `off|track|album|auto`; tags `V<idx>` / `O<hex>` / `T<hex>` (as in
family `tags`), tag lists comma separated; filters in the prefix form of family `filter`;
move sources `id<n>` / `pos<n>` / `r<bound>,<bound>`; sticker comparisons `eq:|lt:|gt:<hex>`.

Result: `ok:<hex of the bytes Connection::send wrote>` | `PANIC`.

The oracle never consults the model of `definitions.rs`: it tokenizes the implementation's bytes
with `Spec.Tok` and checks command word and arguments with `Spec.Req.expect` / `accepts`.
-/
namespace Driver.Commands
open Mpd Mpd.Commands Mpd.CmdsL Driver

def natTok (s : String) : Option Nat :=
  if s.isEmpty || !(s.toList.all Char.isDigit) then none else s.toNat?

def parseBound (s : String) : Option Bound :=
  match s.toList with
  | ['u'] => some .unbounded
  | 'i' :: r => (natTok (String.ofList r)).map .included
  | 'e' :: r => (natTok (String.ofList r)).map .excluded
  | _ => none

def parseRange (s : String) : Option (Bound × Bound) :=
  match s.splitOn "," with
  | [a, b] => do
    let x ← parseBound a
    let y ← parseBound b
    pure (x, y)
  | _ => none

def parseOpt {α : Type} (f : String → Option α) (s : String) : Option (Option α) :=
  if s == "_" then some none else (f s).map some

/-- strings are Rust `&str`: valid UTF-8 only -/
def parseStr (s : String) : Option Bytes :=
  (unhex s).bind fun b => if validUtf8 b then some b else none

def parseSong (s : String) : Option Song :=
  match s.toList with
  | 'i' :: 'd' :: r => (natTok (String.ofList r)).map .id
  | 'p' :: 'o' :: 's' :: r => (natTok (String.ofList r)).map .position
  | _ => none

def parsePos (s : String) : Option PositionOrRelative :=
  match s.toList with
  | 'a' :: r => (natTok (String.ofList r)).map .absolute
  | '+' :: r => (natTok (String.ofList r)).map .afterCurrent
  | '-' :: r => (natTok (String.ofList r)).map .beforeCurrent
  | _ => none

def parseDur (s : String) : Option Dur :=
  match s.splitOn "." with
  | [a, b] => do
    let x ← natTok a
    let y ← natTok b
    pure ⟨x, y⟩
  | _ => none

def parseSeek (s : String) : Option SeekMode :=
  match s.toList with
  | 'f' :: r => (parseDur (String.ofList r)).map .forward
  | 'b' :: r => (parseDur (String.ofList r)).map .backward
  | 'a' :: r => (parseDur (String.ofList r)).map .absolute
  | _ => none

def parseSingle : String → Option SingleMode
  | "enabled" => some .enabled
  | "disabled" => some .disabled
  | "oneshot" => some .oneshot
  | _ => none

def parseRgm : String → Option ReplayGainMode
  | "off" => some .off
  | "track" => some .track
  | "album" => some .album
  | "auto" => some .auto
  | _ => none

def parseBool : String → Option Bool
  | "0" => some false
  | "1" => some true
  | _ => none

def parseTags (s : String) : Option (List Tag) :=
  if s == "_" then some [] else (s.splitOn ",").mapM Tags.parseTagSpec

def parseFilter (s : String) : Option FilterType :=
  let cs := s.toList
  match Filter.parseTree (cs.length + 1) cs with
  | some (a, []) => some (Filter.build a)
  | _ => none

def parseMoveFrom (s : String) : Option MoveFrom :=
  match s.toList with
  | 'i' :: 'd' :: r => (natTok (String.ofList r)).map .id
  | 'p' :: 'o' :: 's' :: r => (natTok (String.ofList r)).map .position
  | 'r' :: r => (parseRange (String.ofList r)).map fun p => .range p.1 p.2
  | _ => none

def parseSticker (s : String) : Option (StickerFindOperator × Bytes) :=
  match s.splitOn ":" with
  | ["eq", h] => (parseStr h).map fun v => (.equals, v)
  | ["lt", h] => (parseStr h).map fun v => (.lessThan, v)
  | ["gt", h] => (parseStr h).map fun v => (.greaterThan, v)
  | _ => none

/-- constructor name (without `pc.` and `.alt`) and parameters → value -/
def parseCmd (name : String) (ps : List String) : Option PCmd :=
  match name, ps with
  | "clearQueue", [] => some .clearQueue
  | "next", [] => some .next
  | "ping", [] => some .ping
  | "previous", [] => some .previous
  | "stop", [] => some .stop
  | "replayGainStatus", [] => some .replayGainStatus
  | "status", [] => some .status
  | "stats", [] => some .stats
  | "queueAll", [] => some .queueAll
  | "currentSong", [] => some .currentSong
  | "getPlaylists", [] => some .getPlaylists
  | "getEnabledTagTypes", [] => some .getEnabledTagTypes
  | "readChannelMessages", [] => some .readChannelMessages
  | "listChannels", [] => some .listChannels
  | "clearPlaylist", [s] => (parseStr s).map .clearPlaylist
  | "deletePlaylist", [s] => (parseStr s).map .deletePlaylist
  | "saveQueueAsPlaylist", [s] => (parseStr s).map .saveQueueAsPlaylist
  | "subscribeToChannel", [s] => (parseStr s).map .subscribeToChannel
  | "unsubscribeFromChannel", [s] => (parseStr s).map .unsubscribeFromChannel
  | "getPlaylist", [s] => (parseStr s).map .getPlaylist
  | "setConsume", [b] => (parseBool b).map .setConsume
  | "setPause", [b] => (parseBool b).map .setPause
  | "setRandom", [b] => (parseBool b).map .setRandom
  | "setRepeat", [b] => (parseBool b).map .setRepeat
  | "queueSong", [s] => (parseSong s).map .queueSong
  | "queueRange", [r] => (parseRange r).map fun p => .queueRange p.1 p.2
  | "setVolume", [v] => (natTok v).map .setVolume
  | "setSingle", [m] => (parseSingle m).map .setSingle
  | "setReplayGainMode", [m] => (parseRgm m).map .setReplayGainMode
  | "crossfade", [d] => (parseDur d).map .crossfade
  | "seekTo", [s, d] => do
    let s ← parseSong s
    let d ← parseDur d
    pure (.seekTo s d)
  | "seek", [m] => (parseSeek m).map .seek
  | "shuffleAll", [] => some .shuffleAll
  | "shuffleRange", [r] => (parseRange r).map fun p => .shuffleRange p.1 p.2
  | "playCurrent", [] => some .playCurrent
  | "playSong", [s] => (parseSong s).map .playSong
  | "add", [u, p] => do
    let u ← parseStr u
    let p ← parseOpt parsePos p
    pure (.add u p)
  | "deleteId", [n] => (natTok n).map .deleteId
  | "deletePosition", [n] => (natTok n).map .deletePosition
  | "deleteRange", [r] => (parseRange r).map fun p => .deleteRange p.1 p.2
  | "move", [f, t] => do
    let f ← parseMoveFrom f
    let t ← parsePos t
    pure (.move f t)
  | "find", [f, s, w] => do
    let f ← parseFilter f
    let s ← parseOpt Tags.parseTagSpec s
    let w ← parseOpt parseRange w
    pure (.find f s w)
  | "list", [t, f, g] => do
    let t ← Tags.parseTagSpec t
    let f ← parseOpt parseFilter f
    let g ← parseTags g
    pure (.list t f g)
  | "count", [f] => (parseFilter f).map .count
  | "countGrouped", [g, f] => do
    let g ← Tags.parseTagSpec g
    let f ← parseOpt parseFilter f
    pure (.countGrouped g f)
  | "renamePlaylist", [a, b] => do
    let a ← parseStr a
    let b ← parseStr b
    pure (.renamePlaylist a b)
  | "loadPlaylist", [n, r] => do
    let n ← parseStr n
    let r ← parseOpt parseRange r
    pure (.loadPlaylist n r)
  | "addToPlaylist", [p, u, pos] => do
    let p ← parseStr p
    let u ← parseStr u
    let pos ← parseOpt natTok pos
    pure (.addToPlaylist p u pos)
  | "removeFromPlaylistPosition", [p, n] => do
    let p ← parseStr p
    let n ← natTok n
    pure (.removeFromPlaylistPosition p n)
  | "removeFromPlaylistRange", [p, r] => do
    let p ← parseStr p
    let r ← parseRange r
    pure (.removeFromPlaylistRange p r.1 r.2)
  | "moveInPlaylist", [p, a, b] => do
    let p ← parseStr p
    let a ← natTok a
    let b ← natTok b
    pure (.moveInPlaylist p a b)
  | "listAllIn", [d] => (parseStr d).map .listAllIn
  | "setBinaryLimit", [n] => (natTok n).map .setBinaryLimit
  | "albumArt", [u, o] => do
    let u ← parseStr u
    let o ← natTok o
    pure (.albumArt u o)
  | "albumArtEmbedded", [u, o] => do
    let u ← parseStr u
    let o ← natTok o
    pure (.albumArtEmbedded u o)
  | "tagTypesEnableAll", [] => some .tagTypesEnableAll
  | "tagTypesDisableAll", [] => some .tagTypesDisableAll
  | "tagTypesDisable", [ts] => (parseTags ts).map .tagTypesDisable
  | "tagTypesEnable", [ts] => (parseTags ts).map .tagTypesEnable
  | "stickerGet", [u, n] => do
    let u ← parseStr u
    let n ← parseStr n
    pure (.stickerGet u n)
  | "stickerSet", [u, n, v] => do
    let u ← parseStr u
    let n ← parseStr n
    let v ← parseStr v
    pure (.stickerSet u n v)
  | "stickerDelete", [u, n] => do
    let u ← parseStr u
    let n ← parseStr n
    pure (.stickerDelete u n)
  | "stickerList", [u] => (parseStr u).map .stickerList
  | "stickerFind", [u, n, f] => do
    let u ← parseStr u
    let n ← parseStr n
    let f ← parseOpt parseSticker f
    pure (.stickerFind u n f)
  | "update", [u] => (parseOpt parseStr u).map .update
  | "rescan", [u] => (parseOpt parseStr u).map .rescan
  | "sendChannelMessage", [c, m] => do
    let c ← parseStr c
    let m ← parseStr m
    pure (.sendChannelMessage c m)
  | _, _ => none

/-- index of the first argument whose token does not mean what the specification expects -/
def firstBadArg : List Spec.Req.ArgSem → List Bytes → Nat → Option Nat
  | [], [], _ => none
  | s :: ss, t :: ts, i => if s.accepts t then firstBadArg ss ts (i + 1) else some i
  | _, _, i => some i

def isTime : Spec.Req.ArgSem → Bool
  | .time _ _ => true
  | _ => false

/-- verdict of C15 on the implementation's bytes; second component: the failure is a time argument -/
def oracleBytes (c : PCmd) (wire : Bytes) : String × Bool :=
  match Spec.Tok.tokenizeStream wire with
  | some [some (name, args)] =>
    let want := Spec.Req.expect c
    if name != want.1 then ("fail:command-word", false)
    else if args.length != want.2.length then (s!"fail:argument-count-{args.length}-expected-{want.2.length}", false)
    else match firstBadArg want.2 args 0 with
      | none => ("ok", false)
      | some i => (s!"fail:argument-{i}", (want.2[i]?.map isTime).getD false)
  | some [none] => ("fail:tokenizer-rejects", false)
  | _ => ("fail:not-one-request-line", false)

def handle (toks : List String) (impl : String) : Verdict :=
  match toks with
  | op :: ps =>
    let name := match op.splitOn "." with
      | _ :: n :: _ => n
      | _ => ""
    match parseCmd name ps with
    | none => bad "pc"
    | some c =>
      if !c.typed then bad "range-of-type" else
      let model := match wire c with
        | some b => s!"ok:{hex b}"
        | none => "PANIC"
      let mustPanic := docPanic c
      -- classes outside the proved / claimed domain (only "no unexpected panic" is required there)
      let k1 := c.strings.any Cmd.isK1
      let k2 := c.filters.any Filter.K2
      let handTag := !(c.tags.all tagOk) || !(c.filters.all Filter.wordTags)
      let k4 := c.durs.any Dur.isK4
      let (oracle, cls) : String × String :=
        if impl == "PANIC" then
          (if mustPanic then "ok" else "fail:panic", "-")
        else if !(impl.startsWith "ok:") then ("fail:unparsable-result", "-")
        else if mustPanic then ("fail:invalid-argument-sent", "-")
        else if k1 then ("ok", "K1")
        else if k2 then ("ok", "K2")
        else if handTag then ("ok", "-")
        else
          match unhex (impl.drop 3).toString with
          | none => ("fail:unparsable-result", "-")
          | some w =>
            let (v, timeArg) := oracleBytes c w
            (v, if v != "ok" && timeArg && k4 then "K4" else "-")
      let branch :=
        if mustPanic then s!"{name}-panic"
        else if k1 || k2 || handTag then s!"{name}-outside"
        else name
      { model, oracle, cls, branch }
  | [] => bad "pc"

end Driver.Commands
