import Mpd.Conn
import MpdSpec.Grammar
import Driver.Util
/-!
Driver for family `proto` (C02, C03, C09, C10, C18-greeting).

ops
  proto.recv    <s|a> <stream> <seg> <term> <extra>      => <items>#<reads>
  proto.abs     <s|a> <responses> <seg> <cut|full> <extra> => s:<stream>;<items>#<reads>
  proto.connect <s|a> <stream> <seg> <term>               => <result>#<reads>
`<seg>` = chunk lengths joined by `,` (`-` = no chunk); `<term>` = `eof` | `err<k>`.
-/
namespace Driver.Proto
open Mpd Mpd.Parser Mpd.Builder Mpd.Conn Driver

/-! ### canonical printing (identical in harness/src/proto.rs) -/

def fmtFrame (f : AFrame) : String :=
  let fs := if f.fields.isEmpty then "_" else ",".intercalate (f.fields.map fun (k, v) => s!"{hex k}={hex v}")
  let b := match f.binary with | none => "~" | some b => hex b
  s!"{fs};{b}"

def fmtErr : Option Err → String
  | none => "E{}"
  | some e => "E{" ++ s!"{e.code}:{e.index}:{match e.command with | none => "~" | some c => hex c}:{hex e.message}" ++ "}"

def fmtResp (frames : List AFrame) (e : Option Err) : String :=
  "R[" ++ "/".intercalate (frames.map fmtFrame) ++ "]" ++ fmtErr e

def fmtItem : Item → String
  | .resp r => fmtResp r.frames r.error
  | .clean => "clean"
  | .invalid => "invalid"
  | .unexpectedEof => "ueof"
  | .io k => s!"io{k}"
  | .panic => "PANIC"

def fmtItems (l : List Item) : String :=
  if l.any (· == .panic) then "PANIC" else "|".intercalate (l.map fmtItem)

/-! compact printing for `proto.bigbin`: a binary payload as `@<length>.<checksum>` -/

def fmtBinC (b : Bytes) : String :=
  s!"@{b.length}.{b.foldl (fun s x => (s * 31 + x.toNat) % 4294967296) 0}"

def fmtFrameC (f : AFrame) : String :=
  let fs := if f.fields.isEmpty then "_" else ",".intercalate (f.fields.map fun (k, v) => s!"{hex k}={hex v}")
  let b := match f.binary with | none => "~" | some b => fmtBinC b
  s!"{fs};{b}"

def fmtItemC : Item → String
  | .resp r => "R[" ++ "/".intercalate (r.frames.map fmtFrameC) ++ "]" ++ fmtErr r.error
  | it => fmtItem it

def fmtItemsC (l : List Item) : String :=
  if l.any (· == .panic) then "PANIC" else "|".intercalate (l.map fmtItemC)

def fmtConnect : ConnectResult → String
  | .ok v => s!"ok:{hex v}"
  | .invalid => "invalid"
  | .unexpectedEof => "ueof"
  | .io k => s!"io{k}"

/-! ### parsing of op arguments -/

def parseSeg (s : String) : Option (List Nat) :=
  if s == "-" then some [] else (s.splitOn ",").mapM String.toNat?

def cutChunks : Bytes → List Nat → List Bytes
  | _, [] => []
  | s, n :: ns => s.take n :: cutChunks (s.drop n) ns

def parseTerm (s : String) : Option Term :=
  if s == "eof" then some .eof
  else if s.startsWith "err" then (s.drop 3).toString.toNat?.map Term.ioerr
  else none

def parseKV (kv : String) : Option (Bytes × Bytes) :=
  match kv.splitOn "=" with
  | [k, v] =>
    match unhex k, unhex v with
    | some a, some b => some (a, b)
    | _, _ => none
  | _ => none

/-- `k=v,k=v;bin;binpos` -/
def parseAbsFrame (s : String) : Option Spec.AbsFrame :=
  match s.splitOn ";" with
  | [fs, b, p] =>
    let fields := if fs == "_" then some [] else (fs.splitOn ",").mapM parseKV
    let bin : Option (Option Bytes) := if b == "~" then some none else (unhex b).map some
    match fields, bin, p.toNat? with
    | some fields, some bin, some pos => some { fields, binary := bin, binPos := pos }
    | _, _, _ => none
  | _ => none

def between (s : String) (o c : Char) : Option (String × String) :=
  -- s starts with `o`; returns (inside, after the first `c`)
  match s.toList with
  | x :: rest => if x != o then none else
    let inside := rest.takeWhile (· != c)
    let after := (rest.dropWhile (· != c)).drop 1
    some (String.ofList inside, String.ofList after)
  | [] => none

def parseAbsErr (s : String) : Option (Option Spec.Err) :=
  if s.isEmpty then some none else
  match s.splitOn ":" with
  | [c, i, cmd, msg] => do
    let code ← c.toNat?
    let idx ← i.toNat?
    let command ← if cmd == "~" then some none else (unhex cmd).map some
    let message ← unhex msg
    pure (some { code, index := idx, command, message })
  | _ => none

/-- `L[frame/frame]P{frame}E{err}` -/
def parseAbsResp (s : String) : Option Spec.AbsResp :=
  match s.toList with
  | form :: rest => do
    let (fr, rest) ← between (String.ofList rest) '[' ']'
    let frames ← if fr.isEmpty then some [] else (fr.splitOn "/").mapM parseAbsFrame
    let rest ← if rest.startsWith "P" then some (rest.drop 1).toString else none
    let (pf, rest) ← between rest '{' '}'
    let partialFrame ← if pf.isEmpty then some none else (parseAbsFrame pf).map some
    let rest ← if rest.startsWith "E" then some (rest.drop 1).toString else none
    let (er, _) ← between rest '{' '}'
    let error ← parseAbsErr er
    pure { listForm := form == 'L', frames, partialFrame, error }
  | [] => none

def parseAbsResps (s : String) : Option (List Spec.AbsResp) :=
  if s == "_" then some [] else (s.splitOn "+").mapM parseAbsResp

/-! ### running the model -/

def runModel (flavour : String) (chunks : List Bytes) (term : Term) (extra : Nat) : List Item :=
  let fuel := chunks.flatten.length + 2 + extra
  -- upper-case flavours = the same session with requests sent between the receive calls; `c` = the
  -- async session with every pending receive future dropped: both must not change the results
  -- `M` / `N`: every call made through `command()` / `command_list()` on the blocking / async connection
  if flavour == "s" || flavour == "S" || flavour == "M" then sessionS fuel extra .initial { cap := DEFAULT_CAP, data := [] } chunks term
  else sessionA fuel extra .initial [] chunks term

/-! ### transports with recoverable read failures (`proto.flaky`)

The model's transport script is "chunks, then a terminal condition". A read that fails once and
works again later is the same script in pieces: the piece before the failure ends in that error; the
call that reports it leaves the connection state (`σ`, buffer) from which the next call goes on with
the next piece. The composition below only threads that state through the model's own `recvA` /
`recvS`; nothing else is added. -/

/-- `seg` entries: `some n` = a chunk of n bytes, `none k` … encoded as `Sum` -/
def parseSegF (s : String) : Option (List (Nat ⊕ Nat)) :=
  (s.splitOn ",").mapM fun e =>
    if e.startsWith "!" then (e.drop 1).toString.toNat?.map Sum.inr else e.toNat?.map Sum.inl

/-- pieces of the script: chunks up to a failure marker with that failure as terminal; the last piece
ends in the real terminal condition -/
def cutPieces (stream : Bytes) (seg : List (Nat ⊕ Nat)) (term : Term) : List (List Bytes × Term) :=
  let rec go (s : Bytes) (seg : List (Nat ⊕ Nat)) (cur : List Bytes) : List (List Bytes × Term) :=
    match seg with
    | [] => [(cur, term)]
    | .inl n :: rest => go (s.drop n) rest (cur ++ [s.take n])
    | .inr k :: rest => (cur, .ioerr k) :: go s rest []
  go stream seg []

def isIo : Item → Bool
  | .io _ => true
  | _ => false

def flakyA : Nat → Nat → BState → Bytes → List Bytes → Term → List (List Bytes × Term) → List Item
  | 0, _, _, _, _, _, _ => []
  | fuel + 1, extra, σ, buf, cs, t, more =>
    match recvA σ buf (cs.filter (!·.isEmpty)) t with
    | (.resp r, buf', cs', σ') => .resp r :: flakyA fuel extra σ' buf' cs' t more
    | (it, buf', cs', σ') =>
      let (cs2, t2, more2) :=
        if cs'.isEmpty && isIo it then (match more with | (c, t') :: m => (c, t', m) | [] => (cs', t, [])) else (cs', t, more)
      match extra with
      | 0 => [it]
      | e + 1 => it :: flakyA fuel e σ' buf' cs2 t2 more2

def flakyS : Nat → Nat → BState → SBuf → List Bytes → Term → List (List Bytes × Term) → List Item
  | 0, _, _, _, _, _, _ => []
  | fuel + 1, extra, σ, b, cs, t, more =>
    match recvS σ b (cs.filter (!·.isEmpty)) t with
    | (.resp r, b', cs', σ') => .resp r :: flakyS fuel extra σ' b' cs' t more
    | (it, b', cs', σ') =>
      let (cs2, t2, more2) :=
        if cs'.isEmpty && isIo it then (match more with | (c, t') :: m => (c, t', m) | [] => (cs', t, [])) else (cs', t, more)
      match extra with
      | 0 => [it]
      | e + 1 => it :: flakyS fuel e σ' b' cs2 t2 more2

def runFlaky (flavour : String) (stream : Bytes) (pieces : List (List Bytes × Term)) (extra : Nat) : List Item :=
  let fuel := stream.length + 2 + extra + pieces.length
  match pieces with
  | [] => []
  | (cs, t) :: more =>
    if flavour == "s" || flavour == "S" then flakyS fuel extra .initial { cap := DEFAULT_CAP, data := [] } cs t more
    else flakyA fuel extra .initial [] cs t more

/-- the same pieces through the functions the multi-failure theorems are about (`recvRetryA/S`,
`sessionRetryA/S` in `Mpd/Conn.lean`): a caller that calls again after every reported failure; the
reports themselves are not part of the result -/
def runRetry (flavour : String) (stream : Bytes) (pieces : List (List Bytes × Term)) (extra : Nat) : List Item :=
  let fuel := stream.length + 2 + extra + pieces.length
  match pieces.map (fun p => (p.1.filter (!·.isEmpty), p.2)) with
  | [] => []
  | (cs, t) :: more =>
    if flavour == "s" || flavour == "S" then sessionRetryS fuel extra .initial { cap := DEFAULT_CAP, data := [] } cs t more
    else sessionRetryA fuel extra .initial [] cs t more

/-- remove, in order, one `io<k>` item per scripted failure -/
def dropFaultItems : List String → List Nat → List String
  | l, [] => l
  | [], _ => []
  | x :: xs, k :: ks => if x == s!"io{k}" then dropFaultItems xs ks else x :: dropFaultItems xs (k :: ks)

/-- whole-stream reference (`decodeAll`): everything in one chunk -/
def runWhole (stream : Bytes) (term : Term) : List Item :=
  decodeAll (stream.length + 2) stream term

/-- spec-side expectation from the line-grammar reference decoder, for a stream that ends in EOF -/
def refItems (stream : Bytes) : List Spec.RItem :=
  Spec.refDecode (stream.length + 2) {} stream

def fmtRItem : Spec.RItem → String
  | .resp fr e => fmtResp fr e
  | .malformed => "invalid"
  | .incomplete st lo => if st || lo then "ueof" else "clean"

/-- compare implementation items with the grammar reference (C09): responses and malformed lines
must agree; where the reference only knows "stream ended inside a line", the implementation may
report `invalid` early (the streaming parser rejects a hopeless prefix before its LF) -/
def agreesWithRef (impl : List String) (ref : List Spec.RItem) (term : Term) : Bool :=
  let rec go : List String → List Spec.RItem → Bool
    | [], [] => true
    | i :: is, r :: rs =>
      match r with
      | .incomplete st lo =>
        -- last reference item
        is.isEmpty && rs.isEmpty &&
        (match term with
         | .eof => i == fmtRItem r || ((st || lo) && i == "invalid")
         | .ioerr k => i == s!"io{k}" || (lo && i == "invalid"))
      | _ => i == fmtRItem r && (if r == .malformed then is.isEmpty else go is rs)
    | _, _ => false
  go impl ref

def splitReads (impl : String) : String × String :=
  match impl.splitOn "#" with
  | [a, b] => (a, b)
  | _ => (impl, "")

def branchOf (items : List Item) (stream : Bytes) (nchunks : Nat) : String :=
  let nresp := (items.filter Item.isResp).length
  let last := match items.getLast? with
    | some .clean => "clean" | some .invalid => "invalid" | some .unexpectedEof => "ueof"
    | some (.io _) => "io" | some .panic => "panic" | _ => "none"
  let size := if stream.length > 4096 then "big" else if stream.length == 0 then "empty" else "small"
  s!"{size}-r{min nresp 3}-{last}-c{min nchunks 3}"

def handle (toks : List String) (impl : String) : Verdict :=
  let (implItems, reads) := splitReads impl
  match toks with
  | ["proto.recv", fl, sh, seg, tm, ex] =>
    match unhex sh, parseSeg seg, parseTerm tm, ex.toNat? with
    | some stream, some lens, some term, some extra =>
      let chunks := cutChunks stream lens
      let items := runModel fl chunks term extra
      let model := fmtItems items
      -- C02: the implementation's result must equal the whole-stream decoding (session part)
      let whole := runWhole stream term
      let implList := if implItems.isEmpty then [] else implItems.splitOn "|"
      let sessionPart := implList.take (implList.length - extra)
      let readsOk := match reads.toNat? with
        | some r => r ≤ stream.length + implList.length + 1
        | none => true
      let oracle :=
        if implItems == "PANIC" then "fail:panic"
        else if implItems == "HANG" then "fail:hang"
        else if !readsOk then "fail:unbounded-reads"
        else if "|".intercalate sessionPart != fmtItems whole then "fail:differs-from-whole-stream-decoding"
        else if !(agreesWithRef sessionPart (refItems stream) term) then "fail:differs-from-line-grammar"
        -- calls after the end of the session: the decoding of the stream ended with the session's last
        -- item (C02: whatever the segmentation; C10: an unclean end never turns into a clean one)
        else if (implList.drop (implList.length - extra)).any (fun x => some x != sessionPart.getLast?) then
          "fail:result-after-the-end-differs-from-the-end"
        else "ok"
      { model := model ++ "#" ++ reads, oracle, branch := branchOf items stream chunks.length }
    | _, _, _, _ => bad "proto.recv-args"
  | ["proto.bigbin", fl, sz, cnt, fh, tm, ex] =>
    match sz.toNat?, cnt.toNat?, (if fh == "-" then some [] else unhex fh), parseTerm tm, ex.toNat? with
    | some size, some count, some follower, some term, some extra =>
      let payload : Bytes := (List.range size).map fun i => UInt8.ofNat ((i * 7 + 3) % 256)
      let one : Bytes := str s!"binary: {size}\n" ++ payload ++ str "\nOK\n"
      let stream := (List.replicate count one).flatten ++ follower
      let items := runModel fl [stream] term extra
      let model := fmtItemsC items
      -- specification side, without decoding megabytes a second time: `count` responses of one frame
      -- holding exactly the payload, then what the follower decodes to
      let payloadStr := fmtBinC payload
      let want : List String :=
        (List.replicate count ("R[_;" ++ payloadStr ++ "]E{}")) ++ (runWhole follower term).map fmtItemC
      let implList := if implItems.isEmpty then [] else implItems.splitOn "|"
      let sessionPart := implList.take (implList.length - extra)
      let oracle :=
        if implItems == "PANIC" then "fail:panic"
        else if implItems == "HANG" then "fail:hang"
        else if sessionPart != want then "fail:differs-from-whole-stream-decoding"
        else if (implList.drop (implList.length - extra)).any (fun x => some x != sessionPart.getLast?) then
          "fail:result-after-the-end-differs-from-the-end"
        else "ok"
      { model := model ++ "#" ++ reads, oracle, branch := s!"bigbin-{fl}-{count}x{size}" }
    | _, _, _, _, _ => bad "proto.bigbin-args"
  | ["proto.flaky", fl, sh, seg, tm, ex] =>
    match unhex sh, parseSegF seg, parseTerm tm, ex.toNat? with
    | some stream, some segf, some term, some extra =>
      let pieces := cutPieces stream segf term
      let items := runFlaky fl stream pieces extra
      let model := fmtItems items
      let kinds := segf.filterMap fun e => match e with | .inr k => some k | _ => none
      let implList := if implItems.isEmpty then [] else implItems.splitOn "|"
      -- specification side: a failed read delivers nothing, so without the failure reports the calls
      -- return what the whole stream decodes to, followed by repetitions of the end
      let clean := dropFaultItems implList kinds
      let whole := (runWhole stream term).map fmtItem
      let oracle :=
        if implItems == "PANIC" then "fail:panic"
        else if implItems == "HANG" then "fail:hang"
        else if implList.length != clean.length + kinds.length then "fail:a-failed-read-was-not-reported"
        else if clean.take whole.length != whole then "fail:a-failed-read-changed-what-was-received"
        else if (clean.drop whole.length).any (fun x => some x != whole.getLast?) then
          "fail:result-after-the-end-differs-from-the-end"
        else if !(agreesWithRef whole (refItems stream) term) then "fail:differs-from-line-grammar"
        -- the calls without the failure reports are exactly the session of a caller that retries, as
        -- computed by `sessionRetryA/S` (every report used up one of the calls after the end)
        else if clean != (runRetry fl stream pieces (extra - (implList.length - clean.length))).map fmtItem then
          "fail:differs-from-the-retry-session"
        else "ok"
      { model := model ++ "#" ++ reads, oracle, branch := s!"flaky{kinds.length}-{branchOf items stream segf.length}" }
    | _, _, _, _ => bad "proto.flaky-args"
  | ["proto.abs", fl, rs, seg, cut, ex] =>
    match parseAbsResps rs, parseSeg seg, ex.toNat? with
    | some resps, some lens, some extra =>
      let full := resps.flatMap Spec.enc
      let n := if cut == "full" then full.length else (cut.toNat?.getD full.length)
      let stream := full.take n
      let chunks := cutChunks stream lens
      let items := runModel fl chunks .eof extra
      let model := s!"s:{hex stream};{fmtItems items}"
      -- spec-side expectation: the responses wholly contained in the prefix, then clean iff the
      -- cut falls on a response boundary
      let wf := resps.all Spec.WF
      let rec expect (rs : List Spec.AbsResp) (left : Nat) : List String :=
        match rs with
        | [] => ["clean"]
        | r :: rest =>
          let l := (Spec.enc r).length
          if left == 0 then ["clean"]
          else if left < l then ["ueof"]
          else (let v := Spec.view r; fmtResp v.1 v.2) :: expect rest (left - l)
      let exp := "|".intercalate (expect resps n)
      let implBody := match implItems.splitOn ";" with
        | [_, b] => b
        | l => ";".intercalate (l.drop 1)
      let implStream := match implItems.splitOn ";" with
        | s :: _ => s
        | [] => ""
      let implList := if implBody.isEmpty then [] else implBody.splitOn "|"
      let sessionPart := "|".intercalate (implList.take (implList.length - extra))
      let oracle :=
        if !wf then "fail:generator-produced-ill-formed-response"
        else if implItems == "PANIC" then "fail:panic"
        else if implStream != s!"s:{hex stream}" then "fail:encoders-differ"
        else if sessionPart != exp then
          (if n == full.length then "fail:decoded-differs-from-encoded" else "fail:eof-classification")
        -- calls after the end: an unclean end of stream stays unclean, a clean one clean (C10)
        else if (implList.drop (implList.length - extra)).any (fun x => some x != (exp.splitOn "|").getLast?) then
          "fail:result-after-the-end-differs-from-the-end"
        else "ok"
      let cutKind := if cut == "full" then "full" else if (exp.splitOn "|").getLast? == some "clean" then "cut-boundary" else "cut-inside"
      { model := model ++ "#" ++ reads, oracle, branch := s!"abs-{cutKind}-{branchOf items stream chunks.length}" }
    | _, _, _ => bad "proto.abs-args"
  | ["proto.connect", fl, sh, seg, tm] =>
    match unhex sh, parseSeg seg, parseTerm tm with
    | some stream, some lens, some term =>
      let chunks := cutChunks stream lens
      let res := if fl == "s" then (connectS (scriptLen chunks + 1) { cap := DEFAULT_CAP, data := [] } chunks term).1
                 else (connectA [] chunks term).1
      -- spec: success iff the stream starts with `OK MPD <non-empty utf8 without LF>\n`
      let expected : ConnectResult :=
        match Spec.firstLine stream with
        | some (l, _) =>
          if startsWith l (str "OK MPD ") && l.length > 7 && validUtf8 (l.drop 7) then .ok (l.drop 7) else .invalid
        | none =>
          -- no complete line: invalid as soon as the prefix cannot be completed, else the terminal
          let pre := str "OK MPD "
          if startsWith stream pre || startsWith pre stream then
            (match term with | .eof => .unexpectedEof | .ioerr k => .io k)
          else .invalid
      let oracle :=
        if implItems == "PANIC" then "fail:panic"
        else if implItems != fmtConnect expected then "fail:greeting-spec"
        else "ok"
      { model := fmtConnect res ++ "#" ++ reads, oracle,
        branch := s!"connect-{match res with | .ok _ => "ok" | .invalid => "invalid" | .unexpectedEof => "ueof" | .io _ => "io"}-c{min chunks.length 3}" }
    | _, _, _ => bad "proto.connect-args"
  | _ => bad "proto"

end Driver.Proto
