import Mpd.Client
import MpdSpec.Server
import MpdSpec.Grammar
import Driver.Proto
/-!
Driver for family `loop` (C01, C04, C05, C08, C13 pairing, C17, C18 password).

  loop.run <pw: ~ | hex | L hex> <actions> => <segments joined by !> (last: pend=<rids>)

Model: `Mpd.Client.run` over every vector of scheduler choices the run consults (the poll order of
`select!` where both branches are ready); the model result is the trace equal to the
implementation's if one exists. Oracle: the specification server `Spec.Server` is fed with the
bytes the IMPLEMENTATION wrote, and each property's clause is judged on the implementation's trace.
-/
namespace Driver.Loop
open Mpd Mpd.Loop Mpd.Client Driver

/-! ### parsing the schedule -/

def parseCmd (s : String) : Option (Bytes × List Bytes) :=
  match s.splitOn "~" with
  | n :: args => do
    let name ← unhex n
    let as ← args.mapM unhex
    pure (name, as)
  | [] => none

/-- the buffers of the commands of a request (`Command::new(name).argument(a)…`) -/
def buildCmds (spec : String) : Option (List Bytes) :=
  (spec.splitOn "+").mapM fun c =>
    match parseCmd c with
    | some (name, args) =>
      match Cmd.addArguments name args with
      | .ok b => some b
      | .error _ => none
    | none => none

def renderReq (cmds : List Bytes) : Bytes :=
  match cmds with
  | [] => []
  | c :: cs => Cmd.renderList c cs

inductive PAct where
  | act (a : Action)
  | change (name : Bytes)
  | wblock               -- `B<k>` / `U`: write back-pressure of the transport (oracle-only ops `loopx`)
  | noIdle               -- `Z`: the server starts / stops refusing `idle` (ghost: nothing happens at the client)
  | evPause (on : Bool)  -- `P` / `R`: the application stops / resumes polling its event stream (oracle-only ops)
  | bad

def parseAction (s : String) : PAct :=
  match s.toList with
  | [] => .bad
  | k :: restL =>
    let rest := String.ofList restL
    match k with
    | 'd' => match unhex rest with | some b => .act (.deliver b) | none => .bad
    | 's' => match unhex rest with | some b => .change b | none => .bad
    | 'Z' => if rest.isEmpty then .noIdle else .bad
    -- `W<ms>`: wall-clock time passes; the (paused) tokio clock, the only one the model has, does not move
    | 'W' => match rest.toNat? with | some _ => .act (.advance 0) | none => .bad
    | 'q' =>
      match rest.splitOn ":" with
      | [rid, spec] =>
        match rid.toNat?, buildCmds spec with
        | some r, some cmds => .act (.enqueueRaw r (renderReq cmds))
        | _, _ => .bad
      | _ => .bad
    | 'k' =>
      match rest.splitOn ":" with
      | [rid, spec] =>
        match rid.toNat?, buildCmds spec with
        | some r, some [c] => .act (.enqueueSingle r (renderReq [c]))
        | _, _ => .bad
      | _ => .bad
    | 'm' =>
      match rest.splitOn ":" with
      | [rid, name] =>
        match rid.toNat?, unhex name with
        | some r, some n => .act (.enqueueTyped1 r n)
        | _, _ => .bad
      | _ => .bad
    | 'b' =>
      match rest.splitOn ":" with
      | [rid, spec, data] =>
        match rid.toNat?, buildCmds spec, unhex data with
        | some r, some cmds, some d => .act (.both r (renderReq cmds) d)
        | _, _, _ => .bad
      | _ => .bad
    | 'a' =>
      match rest.splitOn ":" with
      | [rid, uri] =>
        match rid.toNat?, unhex uri with
        | some r, some u => .act (.enqueueArt r u)
        | _, _ => .bad
      | _ => .bad
    | 'y' =>
      match rest.splitOn ":" with
      | [rid, kind, names] =>
        let ns := if names.isEmpty then some [] else (names.splitOn "+").mapM unhex
        match rid.toNat?, ns with
        | some r, some ns => .act (.enqueueTyped r (kind == "v") ns)
        | _, _ => .bad
      | [rid, kind] =>
        match rid.toNat? with
        | some r => .act (.enqueueTyped r (kind == "v") [])
        | none => .bad
      | _ => .bad
    | 't' => match rest.toNat? with | some n => .act (.advance n) | none => .bad
    | 'c' => match rest.toNat? with | some n => .act (.cancel n) | none => .bad
    | 'B' => match rest.toNat? with | some _ => .wblock | none => .bad
    | 'U' => .wblock
    | 'P' => .evPause true     -- the application pauses / resumes polling its event stream (oracle-only ops)
    | 'R' => .evPause false
    | 'E' => .act .dropEvents
    | 'x' => .act .dropMain
    | 'e' => .act .eof
    | 'r' => match rest.toNat? with | some n => .act (.readFault n) | none => .bad
    | 'w' => match rest.toNat? with | some n => .act (.writeFault n) | none => .bad
    | _ => .bad

/-! ### printing (identical in harness/src/client.rs) -/

def fmtProto : ProtoErr → String
  | .invalid => "invalid"
  | .unexpectedEof => "ueof"
  | .io k => s!"io{k}"

def fmtFrames (fs : List AFrame) : String := "/".intercalate (fs.map Proto.fmtFrame)

def fmtCmdErr : CmdErr → String
  | .closed => "closed"
  | .protocol e => s!"proto:{fmtProto e}"
  | .errorResponse e fs =>
    s!"ack:{e.code}:{e.index}:{match e.command with | none => "~" | some c => hex c}:{hex e.message}:{fmtFrames fs}"
  | .invalidTyped => "terr"

def fmtFinal : Final → String
  | .frames fs => s!"ok:{fmtFrames fs}"
  | .err e => fmtCmdErr e
  | .art none => "art:none"
  | .art (some (d, m)) => s!"art:{hex d}:{match m with | none => "~" | some x => hex x}"
  | .typed items => "typed:" ++ "+".intercalate (items.map hex)
  | .frame f => s!"one:{Proto.fmtFrame f}"

def fmtSegment (s : Segment) : String :=
  let parts : List String :=
    (match s.connect with
     | none => []
     | some (.ok v) => [s!"conn=ok:{hex v}"]
     | some (.protocol e) => [s!"conn=proto:{fmtProto e}"]
     | some .incorrectPassword => ["conn=badpw"]) ++
    (if s.wrote.isEmpty then [] else [s!"w={hex s.wrote}"]) ++
    s.results.map (fun (rid, f) => s!"res{rid}={fmtFinal f}") ++
    s.events.map (fun n => s!"ev={hex n}") ++
    s.closing.map (fun e => match e with | none => "cl=invresp" | some e => s!"cl=proto:{fmtProto e}") ++
    (if s.eventsEnd then ["evend"] else []) ++
    (if s.closedFlag then ["closed"] else []) ++
    (if s.dropped then ["dropped"] else [])
  if parts.isEmpty then "-" else "&".intercalate parts

/-- all Boolean vectors of length n -/
def boolVecs : Nat → List (List Bool)
  | 0 => [[]]
  | n + 1 => (boolVecs n).flatMap fun v => [false :: v, true :: v]

/-! ### the oracle -/

structure Facts where
  sv : Spec.Server.Sv := {}
  delivered : Bytes := []
  faulted : Bool := false        -- e / r / w action
  readFault : Option Nat := none
  readEnds : Bool := false       -- e / r action: the loop must notice at its next read
  uncleanEof : Bool := false     -- EOF while part of a response had been delivered and the loop was alive
  liveReadFault : Option Nat := none   -- read fault injected while the loop was alive
  connNoAccept : Bool := false   -- connect reported success although no OK to the password had been delivered
  dropMain : Bool := false
  cancelled : List Nat := []
  results : List (Nat × String) := []
  events : List String := []
  closings : Nat := 0
  evend : Bool := false
  closedSeen : Bool := false
  droppedSeen : Bool := false
  connect : Option String := none
  afterEnd : Bool := false       -- something observable happened after evend/dropped that must not
  idleBeforeAuth : Bool := false
  greetClean : Bool := true      -- the delivery that completed the greeting line ended with it
  verdictBad : Bool := false     -- connect's outcome is not what the delivered password verdict says
  evLowerBad : Bool := false     -- an idle reply the client must have consumed produced no events (see C04 clause)
  evDropped : Bool := false      -- the application dropped its event receiver: no event is observable any more
  afterGreet : Bytes := []       -- bytes delivered in actions AFTER the one that completed the greeting
  wblockSeen : Bool := false     -- write back-pressure occurred: "quiescent client has consumed everything" no longer holds
  evPaused : Bool := false       -- the application is not polling its event stream (it cannot see its end)
  pwReplyEnd : Option Nat := none
  writes : Bytes := []
deriving Inhabited

def isSubseq : List String → List String → Bool
  | [], _ => true
  | _ :: _, [] => false
  | a :: as, b :: bs => if a == b then isSubseq as bs else isSubseq (a :: as) bs

def containsStr (hay needle : String) : Bool := (hay.splitOn needle).length > 1

def containsSub (hay needle : Bytes) : Bool :=
  let rec go : Bytes → Bool
    | [] => needle.isEmpty
    | l@(_ :: t) => startsWith l needle || go t
  go hay

/-- expected view of a raw request: decode the specification server's reply with the line-grammar
reference decoder -/
def expectedRaw (cmds : List Bytes) : String :=
  let reply := Spec.Server.replyBlock cmds (cmds.length ≥ 2)
  match Spec.refDecode (reply.length + 2) {} reply with
  | .resp frames none :: _ => s!"ok:{fmtFrames frames}"
  | .resp frames (some e) :: _ =>
    s!"ack:{e.code}:{e.index}:{match e.command with | none => "~" | some c => hex c}:{hex e.message}:{fmtFrames frames}"
  | _ => "?"

/-- expected result of `raw_command`: the one frame of the server's reply, or its error (which
carries no frames) -/
def expectedSingle (cmd : Bytes) : String :=
  let reply := Spec.Server.replyBlock [cmd] false
  match Spec.refDecode (reply.length + 2) {} reply with
  | .resp (f :: _) none :: _ => s!"one:{Proto.fmtFrame f}"
  | .resp [] (some e) :: _ =>
    s!"ack:{e.code}:{e.index}:{match e.command with | none => "~" | some c => hex c}:{hex e.message}:"
  | _ => "?"

def expectedArt (uri : Bytes) : String :=
  match Spec.Server.parseArt uri with
  | none => "?"
  | some c =>
    let pic := hex (Spec.Server.picture 0 c.size)
    let ackOf (name code : Bytes) : String :=
      let n := (Spec.Server.decNat code).getD 50
      s!"ack:{n}:0:{hex name}:{hex (str "No file exists")}:"
    let fromFile : String :=
      if c.file == str "y" then s!"art:{pic}:~"
      else if c.file == str "n" then "art:none"
      else if (Spec.Server.decNat c.file).getD 50 == 5 then s!"ack:5:0:~:{hex (str "unknown command \"albumart\"")}:"
      else ackOf (str "albumart") c.file
    if c.emb == str "y" then s!"art:{pic}:{if c.mime then hex (str "image/x-test") else "~"}"
    else if c.emb == str "n" then fromFile
    else if (Spec.Server.decNat c.emb).getD 50 == 5 then fromFile
    else ackOf (str "readpicture") c.emb

def handle (toks : List String) (impl : String) : Verdict :=
  match toks with
  | [opName, pwS, actsS] =>
    -- `loop.<Cxx>`: only the clauses of that property are judged (plus PANIC)
    let prop := (opName.splitOn ".").getD 1 "run"
    let on (p : String) : Bool := prop == "run" || prop == p
    -- `loopx.…`: schedules with write back-pressure. The task model has atomic writes, so for these
    -- the model is not compared (the model column repeats the implementation); the oracle clauses,
    -- computed from the specification server fed with the implementation's own writes, are judged
    let oracleOnly := opName.startsWith "loopx."
    let locked := pwS.startsWith "L"
    let pwHex := if locked then (pwS.drop 1).toString else pwS
    let pw : Option Bytes := if pwHex == "~" then none else unhex pwHex
    let pacts := if actsS == "-" then [] else (actsS.splitOn ",").map parseAction
    if pacts.any (fun a => match a with | .bad => true | _ => false) then bad "loop-action" else
    let actions : List Action := pacts.map fun a =>
      match a with
      | .act a => a
      | _ => .advance 0          -- ghost actions do nothing to the client
    let password : Option Bytes := pw.map fun p =>
      match Cmd.addArguments (str "password") [p] with
      | .ok c => c ++ [LF]
      | .error _ => str "password\n"
    -- model: enumerate scheduler choices
    let render (segs : List Segment) : String := "!".intercalate (segs.map fmtSegment)
    let implSegs := impl.splitOn "!"
    let implBody := "!".intercalate (implSegs.take (implSegs.length - 1))
    -- search the scheduler's choices: run with a choice prefix (false beyond it); at the first
    -- segment that differs from the implementation flip the latest consulted `false` choice
    let implArr := implSegs.take (implSegs.length - 1)
    let firstDiff (t : List (Segment × Nat)) : Option Nat :=
      let rec go (i : Nat) : List (Segment × Nat) → List String → Option Nat
        | [], [] => none
        | (s, _) :: ts, x :: xs => if fmtSegment s == x then go (i + 1) ts xs else some i
        | _, _ => some i
      go 0 t implArr
    let rec search (fuel : Nat) (v : List Bool) : List (Segment × Nat) × Bool :=
      let t := Client.runTrace password v actions
      match fuel, firstDiff t with
      | _, none => (t, true)
      | 0, some _ => (t, false)
      | fuel + 1, some i =>
        let k := ((t.getD i ({}, 0)).2)            -- choices consulted up to the differing segment
        -- candidates: positions j < k with v[j] = false (or beyond v), latest first
        let cands := (List.range k).reverse.filter fun j => !(v.getD j false)
        let rec tryAll (fuel : Nat) : List Nat → Option (List (Segment × Nat))
          | [] => none
          | j :: js =>
            match fuel with
            | 0 => none
            | f + 1 =>
              let v' := (List.range j).map (fun x => v.getD x false) ++ [true]
              let (t', ok) := search f v'
              if ok then some t' else tryAll f js
        match tryAll fuel cands with
        | some t' => (t', true)
        | none => (t, false)
    let (trace, _) := search 6 []
    let chosen : List Segment × Nat := (trace.map (·.1), (trace.getLast?.map (·.2)).getD 0)
    let modelSegs := chosen.1
    let resumed : Bool := modelSegs.any (·.resumed)
    -- pending callers according to the model: enqueued, not cancelled, no result
    let enq : List Nat := actions.filterMap fun a =>
      match a with
      | .enqueueRaw r _ | .enqueueArt r _ | .enqueueTyped r _ _ | .both r _ _ | .enqueueSingle r _ | .enqueueTyped1 r _ => some r
      | _ => none
    let canc : List Nat := actions.filterMap fun a => match a with | .cancel r => some r | _ => none
    let done : List Nat := modelSegs.flatMap fun s => s.results.map (·.1)
    let connectedAt := modelSegs.any fun s => match s.connect with | some (.ok _) => true | _ => false
    let pendModel := if connectedAt then (enq.filter fun r => !canc.contains r && !done.contains r) else []
    let model := render modelSegs ++ "!pend=" ++ ".".intercalate (pendModel.map toString)
    -- oracle: walk the implementation's trace
    let step (f : Facts) (pa : PAct × String) : Facts :=
      let (pa, seg) := pa
      let droppedBefore := f.droppedSeen
      let prevBodyLen : Nat := match Spec.firstLine f.delivered with | some (_, rest) => rest.length | none => 0
      let composite := match pa with | .act (.both _ _ _) => true | _ => false
      let f := match pa with
        | .change n => { f with sv := Spec.Server.change f.sv n }
        | .noIdle => { f with sv := { f.sv with noIdle := !f.sv.noIdle } }
        | .act (.deliver b) =>
          let had := (Spec.firstLine f.delivered).isSome
          let now := f.delivered ++ b
          let clean := if had then f.greetClean else
            match Spec.firstLine now with | some (_, rest) => rest.isEmpty | none => true
          { f with delivered := now, greetClean := clean, afterGreet := if had then f.afterGreet ++ b else [] }
        | .act (.both _ _ d) => { f with delivered := f.delivered ++ d }
        | .act .eof =>
          let bodyNow : Bytes := match Spec.firstLine f.delivered with | some (_, rest) => rest | none => []
          let onBoundary := bodyNow.isEmpty || f.sv.marks.contains bodyNow.length
          { f with faulted := true, readEnds := true,
                   uncleanEof := f.uncleanEof || (!onBoundary && !f.droppedSeen && !f.faulted && startsWith f.sv.out bodyNow) }
        | .act (.readFault k) =>
          { f with faulted := true, readFault := some k, readEnds := true,
                   liveReadFault := if f.droppedSeen || f.faulted then f.liveReadFault else some k }
        | .act (.writeFault _) => { f with faulted := true }
        | .wblock => { f with wblockSeen := true }
        | .evPause on => { f with wblockSeen := true, evPaused := on }
        | .act .dropMain => { f with dropMain := true }
        | .act .dropEvents => { f with evDropped := true }
        | .act (.cancel r) => { f with cancelled := f.cancelled ++ [r] }
        | _ => f
      let parts := if seg == "-" then [] else seg.splitOn "&"
      let f := parts.foldl (fun f p =>
        if p.startsWith "w=" then
          match unhex (p.drop 2).toString with
          | some b =>
            let idleNow := containsSub b (str "idle\n")
            let authPending := password.isSome && (match f.connect with | some c => !(c.startsWith "ok") | none => true)
            let f := { f with writes := f.writes ++ b, afterEnd := f.afterEnd || f.droppedSeen,
                              idleBeforeAuth := f.idleBeforeAuth || (idleNow && authPending) }
            { f with sv := Spec.Server.feed f.sv b }
          | none => f
        else if p.startsWith "res" then
          match (p.drop 3).toString.splitOn "=" with
          | rid :: rest => { f with results := f.results ++ [(rid.toNat?.getD 0, "=".intercalate rest)] }
          | _ => f
        else if p.startsWith "ev=" then { f with events := f.events ++ [(p.drop 3).toString], afterEnd := f.afterEnd || f.evend }
        else if p.startsWith "cl=" then { f with closings := f.closings + 1, afterEnd := f.afterEnd || f.evend }
        else if p == "evend" then { f with evend := true }
        else if p == "closed" then { f with closedSeen := true }
        else if p == "dropped" then { f with droppedSeen := true }
        else if p.startsWith "conn=" then
          let bodyNow : Bytes := match Spec.firstLine f.delivered with | some (_, rest) => rest | none => []
          -- judged only while the peer is honest (what was delivered is what the specification server wrote)
          let bad := p.startsWith "conn=ok" && password.isSome && startsWith f.sv.out bodyNow && !(startsWith bodyNow (str "OK\n"))
          -- the verdict, decoded by the reference decoder from what was delivered AFTER the action that
          -- completed the greeting (the password is written when the greeting is read: bytes that
          -- arrived together with the greeting cannot be the server's answer to it):
          -- any complete reply with an ACK is a rejection, one without is an acceptance, anything
          -- else is neither
          let vbad := password.isSome &&
            (match Spec.refDecode (f.afterGreet.length + 2) {} f.afterGreet with
             | .resp _ (some _) :: _ => !(p.startsWith "conn=badpw")
             | .resp _ none :: _ => !(p.startsWith "conn=ok")
             | _ => p.startsWith "conn=ok" || p.startsWith "conn=badpw")
          { f with connect := some (p.drop 5).toString, connNoAccept := f.connNoAccept || bad,
                   verdictBad := f.verdictBad || vbad }
        else f) f
      -- C04 lower bound, valid also under WRITE faults (the read side intact, the peer honest): the
      -- client was quiescent before this action, so every idle reply completely delivered before it
      -- has been consumed; and the first response this action's delivery completes is consumed in
      -- this action (a loop that ends here by a failed write tried that write only after consuming
      -- it). Their `changed` names must be a prefix of the events delivered so far.
      let bodyNow : Bytes := match Spec.firstLine f.delivered with | some (_, rest) => rest | none => []
      let lowerOk :=
        if droppedBefore || f.readEnds || f.dropMain || f.wblockSeen || f.evDropped || password.isSome || !(startsWith f.sv.out bodyNow) then true else
        let before := (f.sv.idleReplies.filter fun r => r.1 ≤ prevBodyLen).flatMap fun r => r.2.map hex
        let firstMark := (f.sv.marks.filter fun m => m > prevBodyLen && m ≤ bodyNow.length).head?
        let extra : List String :=
          if composite then [] else
          match firstMark with
          | some m => ((f.sv.idleReplies.filter fun r => r.1 == m).flatMap fun r => r.2.map hex)
          | none => []
        let need := before ++ extra
        f.events.take need.length == need
      { f with evLowerBad := f.evLowerBad || !lowerOk }
    let f0 : Facts := { sv := { locked := locked } }
    let f := (pacts.zip implSegs).foldl step f0
    let pendImpl := match implSegs.getLast? with
      | some p => if p.startsWith "pend=" then ((p.drop 5).toString.splitOn ".").filter (· != "") else ["?"]
      | none => ["?"]
    -- the first delivered line is the greeting, which is not part of the server's reply stream
    let body : Bytes := match Spec.firstLine f.delivered with
      | some (_, rest) => rest
      | none => []
    let honest := startsWith f.sv.out body && !f.faulted
    let connectedOk := match f.connect with | some c => c.startsWith "ok" | none => false
    -- expected events: names of idle replies completely delivered
    let reported : List String :=
      (f.sv.idleReplies.filter (fun r => r.1 ≤ body.length)).flatMap fun r => r.2.map hex
    let rawReqs : List (Nat × List Bytes) := (actsS.splitOn ",").filterMap fun a =>
      match a.toList with
      | 'q' :: rest | 'b' :: rest | 'k' :: rest =>
        match (String.ofList rest).splitOn ":" with
        | rid :: spec :: _ =>
          match rid.toNat?, buildCmds spec with
          | some r, some cmds => some (r, cmds)
          | _, _ => none
        | _ => none
      | _ => none
    let artReqs : List (Nat × Bytes) := actions.filterMap fun a =>
      match a with | .enqueueArt r u => some (r, u) | _ => none
    let typedReqs : List (Nat × List Bytes) := actions.filterMap fun a =>
      match a with | .enqueueTyped r _ ns => some (r, ns) | .enqueueTyped1 r n => some (r, [n]) | _ => none
    let singleRids : List Nat := actions.filterMap fun a =>
      match a with | .enqueueSingle r _ => some r | _ => none
    let isErrClass (s : String) : Bool := s == "closed" || s.startsWith "proto:"
    let checkResults : Option String :=
      f.results.findSome? fun (rid, res) =>
        match rawReqs.find? (·.1 == rid) with
        | some (_, cmds) =>
          if res == (if singleRids.contains rid then expectedSingle (cmds.headD []) else expectedRaw cmds) then none
          else if isErrClass res && (!honest || f.dropMain || f.sv.refusedIdle) then none
          else if !honest then (if res.startsWith "ok:" || res.startsWith "one:" || res.startsWith "ack:" then none else some s!"fail:C01-result-of-{rid}") else some s!"fail:C01-wrong-reply-for-request-{rid}"
        | none =>
          match artReqs.find? (·.1 == rid) with
          | some (_, uri) =>
            if res == expectedArt uri then none
            else if !honest || f.dropMain then none
            else some s!"fail:C17-album-art-{rid}"
          | none =>
            match typedReqs.find? (·.1 == rid) with
            | some (_, names) =>
              let exp := "typed:" ++ "+".intercalate (names.map fun n => hex (n ++ [60] ++ n))
              if res == exp then none
              else if !honest || f.dropMain then none
              else some s!"fail:C13-typed-pairing-{rid}"
            | none => some s!"fail:result-for-unknown-request-{rid}"
    -- FIFO: the request blocks the server executed (art sub-requests aside) are the issued requests in order
    let issuedLines : List (List Bytes) :=
      (rawReqs.map (·.2)) ++ []   -- typed/art requests are checked by their own clauses
    let execBlocks : List (List Bytes) := f.sv.blocks.map (·.1)
    let rawBlocks := execBlocks.filter fun b => issuedLines.contains b
    let fifoOk := isSubseq (rawBlocks.map fun b => hex (b.flatMap (· ++ [LF])))
                            (issuedLines.map fun b => hex (b.flatMap (· ++ [LF])))
    let eventsExact := f.events == reported
    -- the peer sent something outside the grammar (reference decoder, specification side): a drained
    -- schedule must end with the connection closed and every request resolved
    let malformedDelivered : Bool :=
      password.isNone && f.greetClean && (Spec.refDecode (body.length + 2) {} body).any (· == .malformed)
    -- C01 after invalid data: whatever a caller is still handed as a reply is one of the complete
    -- responses the reference decoder finds in the delivered stream before the first line outside
    -- the grammar — never something assembled from what was left of a rejected reply
    let wellFormedBefore : List String :=
      (Spec.refDecode (body.length + 2) {} body).filterMap fun it =>
        match it with
        | .resp frames none => some s!"ok:{fmtFrames frames}"
        | .resp frames (some e) =>
          some s!"ack:{e.code}:{e.index}:{match e.command with | none => "~" | some c => hex c}:{hex e.message}:{fmtFrames frames}"
        | _ => none
    let inventedReply : Option Nat :=
      if !malformedDelivered then none else
      f.results.findSome? fun (rid, res) =>
        -- (a `one:` result is the first frame of a response; an `ack:` of `raw_command` carries no frames)
        if (res.startsWith "ok:" || res.startsWith "ack:") && !(singleRids.contains rid) && !(wellFormedBefore.contains res) then some rid else none
    -- the schedule ended quiescent: nothing was observed during its last two actions (a long picture
    -- with a small chunk limit can outlast the generator's drain rounds: that is not a hang)
    let quietEnd : Bool :=
      let segs := implSegs.take (implSegs.length - 1)
      segs.length ≥ 2 && (segs.drop (segs.length - 2)).all (· == "-")
    -- C13: an empty typed list yields an empty result whatever the state of the connection
    let emptyTypedBad : Option Nat :=
      typedReqs.findSome? fun (rid, names) =>
        if !names.isEmpty then none else
        match f.results.find? (·.1 == rid) with
        | some (_, res) => if res == "typed:" then none else some rid
        | none => none
    -- C13 framing, seen from the server: a typed list of n >= 2 commands arrived as one command list
    -- holding exactly the n `echo` lines in order, a list of one command as that bare command
    let typedFramingBad : Option Nat :=
      typedReqs.findSome? fun (rid, names) =>
        if names.isEmpty || !(f.results.any fun r => r.1 == rid && r.2.startsWith "typed:") then none else
        let want : List (Option (Bytes × List Bytes)) := names.map fun n => some (str "echo", [n])
        let found := (f.sv.blocks.zip f.sv.blockKinds).any fun (b, isList) =>
          b.1.map Spec.Tok.tokenizeLine == want && isList == (names.length ≥ 2)
        if found then none else some rid
    let typedPending := typedReqs.any fun (rid, _) => pendImpl.contains (toString rid)
    -- C05/C01: every request block the server executed is, token for token, a request some caller
    -- issued (a raw request, the `echo` lines of a typed list, or a `readpicture`/`albumart` chunk
    -- request for an issued URI) — nothing truncated, merged or invented reaches the server
    let tok (l : Bytes) := Spec.Tok.tokenizeLine l
    let strangerBlock : Bool :=
      f.sv.blocks.any fun b =>
        let lines := b.1.map tok
        let isRaw := rawReqs.any fun (_, cmds) => cmds.map tok == lines
        let isTyped := typedReqs.any fun (_, names) => names.map (fun n => some (str "echo", [n])) == lines
        let isArt := match lines with
          | [some (name, uri :: _ :: [])] =>
            (name == str "readpicture" || name == str "albumart") && artReqs.any fun (_, u) => u == uri
          | _ => false
        !(isRaw || isTyped || isArt)
    -- C06: the password is an argument: MPD's tokenizer reads the first line written as exactly
    -- `password <the string the caller supplied>` (K1 class apart: quote/backslash without blank)
    let pwLineBad : Bool := match pw with
      | none => false
      | some p =>
        !f.writes.isEmpty && !(Cmd.isK1 p) && tok (f.writes.takeWhile (· != LF)) != some (str "password", [p])
    let oracle : String :=
      if impl == "PANIC" then "fail:panic"
      else if impl == "RUNAWAY" then "fail:write-loop-that-does-not-end"
      else if on "C08" && f.closings > 1 then "fail:C08-more-than-one-closing-event"
      else if on "C08" && f.afterEnd then "fail:C08-activity-after-the-end"
      else if on "C05" && honest && !f.sv.violations.isEmpty then "fail:C05-line-written-while-server-idles"
      else if (on "C05" || on "C01" || on "C17" || on "C07" || prop == "C06") && password.isNone && strangerBlock then "fail:C05-request-line-that-no-caller-issued"
      else if prop == "C07" && honest && !f.wblockSeen && !f.readEnds && !f.writes.isEmpty && f.writes.getLast? != some LF then
        "fail:C07-request-cut-in-the-middle-of-a-line"
      else if prop == "C06" && pwLineBad then "fail:C06-password-argument-not-read-back-by-the-server"
      else if on "C18" && honest && !f.sv.authLines.isEmpty then "fail:C18-request-before-password-accepted"
      else if on "C18" && f.idleBeforeAuth then "fail:C18-idle-before-password-accepted"
      else if on "C18" && f.connNoAccept then "fail:C18-connected-without-the-server-accepting-the-password"
      else if on "C18" && f.verdictBad then "fail:C18-connect-outcome-differs-from-the-delivered-verdict"
      else if on "C05" && honest && connectedOk && password.isNone && !(startsWith f.writes (str "idle\n")) && !f.writes.isEmpty then "fail:C05-first-write-not-idle"
      else if on "C18" && password.isSome && !f.writes.isEmpty && !(startsWith f.writes (password.getD [])) then "fail:C18-password-not-first"
      else if on "C18" && (match f.connect with | some "badpw" => f.writes != password.getD [] | _ => false) then "fail:C18-wrote-after-rejected-password"
      else if on "C13" && emptyTypedBad.isSome then s!"fail:C13-empty-typed-list-did-not-yield-an-empty-result-{emptyTypedBad.getD 0}"
      else if on "C01" && inventedReply.isSome then s!"fail:C01-reply-the-server-never-sent-{inventedReply.getD 0}"
      else match checkResults.filter (fun e =>
          (e.startsWith "fail:C01" && on "C01") || (e.startsWith "fail:C17" && on "C17") ||
          (e.startsWith "fail:C13" && on "C13") || e.startsWith "fail:result") with
      | some e => e
      | none =>
        if on "C01" && honest && !fifoOk then "fail:C01-requests-out-of-order"
        else if on "C13" && honest && connectedOk && !f.dropMain && typedPending then "fail:C13-typed-list-never-answered"
        else if (on "C13" || prop == "C07") && honest && typedFramingBad.isSome then s!"fail:C13-list-not-framed-as-one-block-{typedFramingBad.getD 0}"
        else if on "C04" && startsWith f.sv.out body && !(isSubseq f.events reported) then "fail:C04-event-not-reported-by-server"
        else if on "C04" && f.evLowerBad then "fail:C04-consumed-idle-reply-produced-no-events"
        else if on "C04" && honest && connectedOk && !f.dropMain && !f.evDropped && !eventsExact then
          "fail:C04-events-differ-from-reported"
        else if on "C08" && f.faulted && connectedOk && !f.dropMain && !pendImpl.isEmpty then "fail:C08-request-never-resolved"
        else if on "C08" && malformedDelivered && connectedOk && !f.dropMain && !pendImpl.isEmpty then
          "fail:C08-request-never-resolved-after-invalid-data"
        else if on "C08" && malformedDelivered && connectedOk && !f.dropMain && !(f.droppedSeen && (f.evend || f.evDropped || f.evPaused) && f.closedSeen) then
          "fail:C08-not-closed-after-invalid-data"
        else if on "C08" && f.readEnds && connectedOk && !f.dropMain && !(f.droppedSeen && (f.evend || f.evDropped || f.evPaused) && f.closedSeen) then
          "fail:C08-not-closed-after-fault"
        else if on "C08" && f.uncleanEof && connectedOk && !f.dropMain && !f.evDropped && !f.evPaused && f.cancelled.isEmpty && !(containsStr impl "proto:ueof") then
          "fail:C08-unclean-end-of-stream-not-surfaced"
        else if on "C08" && connectedOk && !f.dropMain && !f.evDropped && !f.evPaused && f.cancelled.isEmpty &&
            (match f.liveReadFault with | some k => !(containsStr impl s!"proto:io{k}") | none => false) then
          "fail:C08-read-error-not-surfaced"
        else if on "C08" && f.dropMain && connectedOk && !f.faulted && startsWith f.sv.out body && pendImpl.isEmpty &&
            !(f.droppedSeen && (f.evend || f.evDropped)) then "fail:C08-last-handle-dropped-but-connection-kept"
        else if on "C05" && honest && connectedOk && !f.dropMain && !f.sv.idle && !f.sv.refusedIdle then "fail:C05-not-idling-at-quiescence"
        else if on "C01" && honest && connectedOk && !f.dropMain && !pendImpl.isEmpty then "fail:C01-request-never-answered"
        else if prop == "C17" && honest && connectedOk && !f.dropMain && !pendImpl.isEmpty && quietEnd then "fail:C17-album-art-never-returned"
        else "ok"
    let cls := "-"
    let branch :=
      (if password.isSome then "pw-" else "") ++
      (if f.faulted then "fault" else if !honest then "garbage" else "clean") ++
      (if chosen.2 > 0 then "-race" else "") ++ (if resumed then "-resume" else "") ++
      (if f.dropMain then "-drop" else "") ++ (if !f.cancelled.isEmpty then "-cancel" else "") ++
      (if !artReqs.isEmpty then "-art" else "") ++ (if !typedReqs.isEmpty then "-typed" else "") ++
      s!"-r{min f.results.length 3}-e{min f.events.length 3}"
    { model := if oracleOnly then impl else model, oracle := oracle, cls := cls,
      branch := if oracleOnly then "x-" ++ branch else branch }
  | _ => bad "loop"

end Driver.Loop
