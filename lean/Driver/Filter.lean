import Mpd.Filter
import MpdSpec.Tokenizer
import MpdSpec.FilterParse
import Driver.Util
import Driver.Tags
/-!
Driver for family `filter` (C11).

Op `filter.find <tree>`; `<tree>` in prefix form without blanks:
`T(<tag>,<opidx>,<hex value>)` = `Filter::new`, `Q(<tag>,<hex value>)` = `Filter::tag`,
`E(<tag>)` = `Filter::tag_exists`, `X(<tag>)` = `Filter::tag_absent`, `N(<tree>)` = `.negate()`,
`M(<tree>)` = `!filter`, `A(<tree>;<tree>)` = `a.and(b)`; `<tag>` = `V<idx>` | `O<hex>` | `T<hex>`
as in family `tags`.  Result: `ok:<hex of the bytes written by send>` | `rejected` | `PANIC`.

The oracle never looks at the model of `filter.rs`: it decodes the implementation's bytes with the
specification's tokenizer and filter parser and compares with the expression the op line denotes.
-/
namespace Driver.Filter
open Mpd Driver

/-- the calls of the public API an op line stands for -/
inductive Api where
  | new (t : Tag) (op : Operator) (v : Bytes)
  | tagEq (t : Tag) (v : Bytes)
  | tagExists (t : Tag)
  | tagAbsent (t : Tag)
  | neg (a : Api)
  | bang (a : Api)
  | and (a b : Api)
deriving Inhabited

def upTo (stop : Char) (cs : List Char) : String × List Char :=
  (String.ofList (cs.takeWhile (· != stop)), cs.dropWhile (· != stop))

/-- recursive-descent parser of the tree syntax; fuel = nesting bound -/
def parseTree : Nat → List Char → Option (Api × List Char)
  | 0, _ => none
  | n + 1, cs =>
    match cs with
    | 'T' :: '(' :: r =>
      let (ts, r) := upTo ',' r
      match r with
      | ',' :: r =>
        let (os, r) := upTo ',' r
        match r with
        | ',' :: r =>
          let (vs, r) := upTo ')' r
          match r, Tags.parseTagSpec ts, os.toNat?.bind (Operator.all[·]?), unhex vs with
          | ')' :: r, some t, some op, some v => some (.new t op v, r)
          | _, _, _, _ => none
        | _ => none
      | _ => none
    | 'Q' :: '(' :: r =>
      let (ts, r) := upTo ',' r
      match r with
      | ',' :: r =>
        let (vs, r) := upTo ')' r
        match r, Tags.parseTagSpec ts, unhex vs with
        | ')' :: r, some t, some v => some (.tagEq t v, r)
        | _, _, _ => none
      | _ => none
    | 'E' :: '(' :: r =>
      let (ts, r) := upTo ')' r
      match r, Tags.parseTagSpec ts with
      | ')' :: r, some t => some (.tagExists t, r)
      | _, _ => none
    | 'X' :: '(' :: r =>
      let (ts, r) := upTo ')' r
      match r, Tags.parseTagSpec ts with
      | ')' :: r, some t => some (.tagAbsent t, r)
      | _, _ => none
    | 'N' :: '(' :: r =>
      match parseTree n r with
      | some (a, ')' :: r) => some (.neg a, r)
      | _ => none
    | 'M' :: '(' :: r =>
      match parseTree n r with
      | some (a, ')' :: r) => some (.bang a, r)
      | _ => none
    | 'A' :: '(' :: r =>
      match parseTree n r with
      | some (a, ';' :: r) =>
        match parseTree n r with
        | some (b, ')' :: r) => some (.and a b, r)
        | _ => none
      | _ => none
    | _ => none

/-- MODEL side: the same calls on the model of `filter.rs` -/
def build : Api → FilterType
  | .new t op v => Filter.new t op v
  | .tagEq t v => Filter.tag t v
  | .tagExists t => Filter.tagExists t
  | .tagAbsent t => Filter.tagAbsent t
  | .neg a => Filter.negate (build a)
  | .bang a => Filter.negate (build a)
  | .and a b => Filter.and (build a) (build b)

def specOp : Operator → Spec.Filter.Op
  | .equal => .equal
  | .notEqual => .notEqual
  | .contain => .contain
  | .matches => .matches
  | .notMatch => .notMatches

/-- SPEC side: the expression the calls denote (AND = logical conjunction, flattened) -/
def expected : Api → Spec.Filter.Expr
  | .new t op v => .tag t.name (specOp op) v
  | .tagEq t v => .tag t.name .equal v
  | .tagExists t => .tag t.name .notEqual []
  | .tagAbsent t => .tag t.name .equal []
  | .neg a => .not (expected a)
  | .bang a => .not (expected a)
  | .and a b => .and (Spec.Filter.conjuncts (expected a) ++ Spec.Filter.conjuncts (expected b))

def fmtSent : Filter.Sent → String
  | .panic => "PANIC"
  | .rejected => "rejected"
  | .wrote b => s!"ok:{hex b}"

/-- the property's verdict on the bytes the implementation wrote -/
def oracleBytes (want : Spec.Filter.Expr) (wire : Bytes) : String :=
  match Spec.Tok.tokenizeStream wire with
  | some [some (cmd, args)] =>
    if cmd != str "find" then "fail:command-word"
    else match args with
      | [inner] =>
        match Spec.Filter.parseFilterTop inner with
        | none => "fail:filter-parser-rejects"
        | some e => if Spec.Filter.Expr.beq e.norm want.norm then "ok" else "fail:different-expression"
      | _ => "fail:not-one-argument"
  | some [none] => "fail:tokenizer-rejects"
  | _ => "fail:not-one-request-line"

/-- the same for a request built by one of the typed commands that carry a filter (`find`, `list`,
`count`, with sort / window / group): exactly one argument is a filter expression (it starts with
`(`), and it must denote the expression that was built -/
def oracleVia (want : Spec.Filter.Expr) (wire : Bytes) : String :=
  match Spec.Tok.tokenizeStream wire with
  | some [some (_, args)] =>
    match args.filter (fun a => a.head? == some 40) with
    | [inner] =>
      match Spec.Filter.parseFilterTop inner with
      | none => "fail:filter-parser-rejects"
      | some e => if Spec.Filter.Expr.beq e.norm want.norm then "ok" else "fail:different-expression"
    | [] => "fail:the-filter-was-not-sent"
    | _ => "fail:more-than-one-filter-argument"
  | some [none] => "fail:tokenizer-rejects"
  | _ => "fail:not-one-request-line"

def isPlain (v : Bytes) : Bool := !v.isEmpty && v.all fun b => isAlpha b || isDigit b

def handle (toks : List String) (impl : String) : Verdict :=
  match toks with
  | ["filter.find", tree] =>
    let cs := tree.toList
    match parseTree (cs.length + 1) cs with
    | some (a, []) =>
      let f := build a
      let words := Filter.wordTags f
      let oracle :=
        if impl == "rejected" then "ok"                 -- nothing was sent
        else if impl.startsWith "ok:" then
          match unhex (impl.drop 3).toString with
          | none => "fail:unparsable-result"
          | some wire =>
            if !words then "ok"                          -- hand-built / non-MPD tag names: outside C11
            else oracleBytes (expected a) wire
        else if impl == "PANIC" then "fail:panic"
        else "fail:unparsable-result"
      let branch :=
        if Filter.hasForbidden f then "rejected"
        else if !words then "nonword-tag"
        else if Filter.K2 f then "K2"
        else match f with
          | .tag _ _ v => if isPlain v then "tag-plain" else "tag"
          | .not _ => "not"
          | .and fs => if fs.length ≤ 6 then s!"and-{fs.length}" else "and-7+"
      { model := fmtSent (Filter.sendFind f), oracle, cls := if Filter.K2 f then "K2" else "-", branch }
    | _ => bad "tree"
  | ["filter.via", path, tree] =>
    -- the filter travels inside a typed command; the model of those commands is family `commands`
    -- (C15): here only the oracle speaks, the model column repeats the implementation
    let cs := tree.toList
    match parseTree (cs.length + 1) cs with
    | some (a, []) =>
      let f := build a
      let words := Filter.wordTags f
      let oracle :=
        if impl == "rejected" then (if Filter.hasForbidden f then "ok" else "fail:rejected-without-reason")
        else if impl.startsWith "ok:" then
          match unhex (impl.drop 3).toString with
          | none => "fail:unparsable-result"
          | some wire => if !words || Filter.K2 f then "ok" else oracleVia (expected a) wire
        else if impl == "PANIC" then (if Filter.hasForbidden f then "ok" else "fail:panic")
        else "fail:unparsable-result"
      { model := impl, oracle, branch := s!"via-{path}" }
    | _ => bad "tree"
  | _ => bad "filter"

end Driver.Filter
