import Mpd.Typed.Song
import MpdSpec.Listing
import Driver.Util
/-!
Driver for family `song` (C14, and the song half of C12).

ops
  song.<cmd> <fields>              field soup: `<fields>` = `k=v,k=v,…` (hex; `_` = no field)
  song.listing.<cmd> <listing>     `<listing>` = entries joined by `;` (`_` = empty listing), an entry is
                                   `S:<url>:<fields>` | `D:<path>:<fields>` | `P:<path>:<fields>`
with `<cmd>` ∈ queue, queuerange, currentsong, find, getplaylist, listallinfo, addid.

Implementation result: the canonical rendering of the typed response (see `fmtResp`), `terr`, `PANIC`,
or `invalid` (the protocol parser rejected the bytes); for `song.listing.*` followed by `@` and the
field list the real parser produced from the harness's wire bytes.

Oracles: `song.listing.*` on a well-formed listing: the implementation's result must be the rendering
of `Spec.songsOfQ` / `Spec.songsOf` / `Spec.currentOf` of the abstract listing (computed on the
specification side, the model is not consulted) and the parsed wire must be `Spec.encListing`.
Everything else: the result must not be `PANIC`.
-/
namespace Driver.Song
open Mpd Mpd.Typed Driver

/-- printer-neutral view of a song; filled from the model's records/accessors or from the
specification's abstract songs -/
structure PSong where
  queue : Option (Nat × Nat × Nat × Option (Spec.Dur × Option Spec.Dur)) := none
  url : Bytes
  duration : Option Spec.Dur
  format : Option Bytes
  lastModified : Option Bytes
  tags : List (Bytes × List Bytes)
  title : Option Bytes
  album : Option Bytes
  artists : List Bytes
  albumArtists : List Bytes
  number : Nat × Nat
  path : Bytes

def hexOpt : Option Bytes → String
  | none => "_"
  | some b => hex b

def hexList (l : List Bytes) : String :=
  if l.isEmpty then "_" else "+".intercalate (l.map hex)

def fmtDur (d : Spec.Dur) : String := s!"{d.1}.{d.2}"

def fmtDurOpt : Option Spec.Dur → String
  | none => "_"
  | some d => fmtDur d

def fmtRange : Option (Spec.Dur × Option Spec.Dur) → String
  | none => "_"
  | some (a, b) => s!"{fmtDur a}-{fmtDurOpt b}"

def fmtTags (t : List (Bytes × List Bytes)) : String :=
  if t.isEmpty then "_" else ",".intercalate (t.map fun e => s!"{hex e.1}:{hexList e.2}")

def fmtSong (s : PSong) : String :=
  let q := match s.queue with
    | none => ""
    | some (p, i, r, g) => s!"P{p};I{i};R{r};G{fmtRange g};"
  s!"{q}U{hex s.url};D{fmtDurOpt s.duration};F{hexOpt s.format};M{hexOpt s.lastModified};T{fmtTags s.tags};A{hexOpt s.title}/{hexOpt s.album}/{hexList s.artists}/{hexList s.albumArtists}/{s.number.1}.{s.number.2}/{hex s.path}"

def fmtSongs (l : List PSong) : String := "ok:" ++ "|".intercalate (l.map fmtSong)

def fmtCurrent : Option PSong → String
  | none => "ok:none"
  | some s => "ok:" ++ fmtSong s

/-! ### from the model -/

def ofSong (s : Song) : PSong where
  url := s.url
  duration := s.duration
  format := s.format
  lastModified := s.lastModified
  tags := s.tags.map fun e => (e.1.name, e.2)
  title := s.title
  album := s.album
  artists := s.artists
  albumArtists := s.albumArtists
  number := s.number
  path := s.filePath

def ofQSong (q : SongInQueue) : PSong :=
  { ofSong q.song with
    queue := some (q.position, q.id, q.priority, q.range.map fun r => (r.start, r.stop)) }

def fmtResp : Outcome SongResp → String
  | .terr => "terr"
  | .panic => "PANIC"
  | .ok (.queue l) => fmtSongs (l.map ofQSong)
  | .ok (.songs l) => fmtSongs (l.map ofSong)
  | .ok (.current o) => fmtCurrent (o.map ofQSong)
  | .ok (.id n) => s!"ok:{n}"

/-! ### from the specification -/

def absValues (s : Spec.AbsSong) (name : String) : List Bytes :=
  match s.tags.find? (·.1 == str name) with
  | some e => e.2
  | none => []

def absNum (v : Option Bytes) : Nat :=
  match v with
  | none => 0
  | some v =>
    -- `u64::from_str`: optional `+`, digits, at most `u64::MAX`; anything else counts as 0
    let ds := match v with
      | 43 :: t => t
      | _ => v
    match Spec.decimalL ds with
    | some n => if n ≤ U64MAX then n else 0
    | none => 0

def ofAbs (s : Spec.AbsSong) : PSong where
  url := s.url
  duration := s.duration
  format := s.format
  lastModified := s.lastModified
  tags := s.tags
  title := (absValues s "Title").head?
  album := (absValues s "Album").head?
  artists := absValues s "Artist"
  albumArtists := absValues s "AlbumArtist"
  number := (absNum (absValues s "Disc").head?, absNum (absValues s "Track").head?)
  path := s.url

def ofAbsQ (q : Spec.AbsQSong) : PSong :=
  { ofAbs q.song with queue := some (q.pos, q.id, q.prio, q.range) }

/-- what the property demands of `<cmd>` on a well-formed listing (`none`: the property does not
speak about this command) -/
def expected (c : SongCmd) (l : Spec.Listing) : Option String :=
  match c with
  | .queue | .queuerange => some (fmtSongs ((Spec.songsOfQ l).map ofAbsQ))
  | .find | .getplaylist | .listallinfo => some (fmtSongs ((Spec.songsOf l).map ofAbs))
  | .currentsong => some (fmtCurrent ((Spec.currentOf l).map ofAbsQ))
  | .addid => none

/-! ### op parsing -/

def parseCmd : String → Option SongCmd
  | "queue" => some .queue
  | "queuerange" => some .queuerange
  | "currentsong" => some .currentsong
  | "find" => some .find
  | "getplaylist" => some .getplaylist
  | "listallinfo" => some .listallinfo
  | "addid" => some .addid
  | _ => none

def parseFields (s : String) : Option (List (Bytes × Bytes)) :=
  if s == "_" then some [] else
  (s.splitOn ",").mapM fun p =>
    match p.splitOn "=" with
    | [k, v] => do
      let k ← unhex k
      let v ← unhex v
      pure (k, v)
    | _ => none

def fmtFields (l : List (Bytes × Bytes)) : String :=
  if l.isEmpty then "_" else ",".intercalate (l.map fun kv => s!"{hex kv.1}={hex kv.2}")

def parseEntry (s : String) : Option Spec.Entry :=
  match s.splitOn ":" with
  | [kind, p, fs] => do
    let p ← unhex p
    let fs ← parseFields fs
    match kind with
    | "S" => some (.song p fs)
    | "D" => some (.directory p fs)
    | "P" => some (.playlist p fs)
    | _ => none
  | _ => none

def parseListing (s : String) : Option Spec.Listing :=
  if s == "_" then some [] else (s.splitOn ";").mapM parseEntry

/-- default build of the crate: every `Last-Modified` text is accepted -/
def ts : Bytes → Bool := fun _ => true

def outcomeTag : Outcome SongResp → String
  | .terr => "terr"
  | .panic => "panic"
  | .ok (.queue l) => if l.isEmpty then "ok0" else if l.length == 1 then "ok1" else "okN"
  | .ok (.songs l) => if l.isEmpty then "ok0" else if l.length == 1 then "ok1" else "okN"
  | .ok (.current none) => "ok0"
  | .ok (.current (some _)) => "ok1"
  | .ok (.id _) => "ok1"

def cmdTag : SongCmd → String
  | .queue | .queuerange => "qmulti"
  | .find | .getplaylist | .listallinfo => "smulti"
  | .currentsong => "single"
  | .addid => "addid"

def hasOther (l : Spec.Listing) : Bool :=
  l.any fun e => match e with
    | .song _ _ => false
    | _ => true

/-- the bytes of these fields are a frame the protocol parser produces exactly these fields from -/
def parserFields (fs : List (Bytes × Bytes)) : Bool :=
  fs.all fun kv => Spec.wfFieldName kv.1 && kv.1 != str "binary" && validUtf8 kv.2 && !kv.2.contains LF

def handle (toks : List String) (impl : String) : Verdict :=
  match toks with
  | [op, arg] =>
    match op.splitOn "." with
    | ["song", cmd] =>
      match parseCmd cmd, parseFields arg with
      | some c, some fs =>
        if !parserFields fs then
          { model := "invalid", oracle := if impl == "PANIC" then "fail:panic" else "ok", branch := "soup-bad" }
        else
          let r := response ts c ⟨fs, none⟩
          { model := fmtResp r,
            oracle := if impl == "PANIC" then "fail:panic" else "ok",
            branch := s!"soup-{cmdTag c}-{outcomeTag r}" }
      | _, _ => bad "song-args"
    | ["song", "listing", cmd] =>
      match parseCmd cmd, parseListing arg with
      | some c, some l =>
        let fs := Spec.encListing l
        if !parserFields fs then
          { model := "invalid", oracle := if impl == "PANIC" then "fail:panic" else "ok", branch := "lst-bad" }
        else
          let r := response ts c ⟨fs, none⟩
          let wire := fmtFields fs
          let wf := Spec.WFlisting ts l
          let oracle :=
            match impl.splitOn "@" with
            | [res, w] =>
              if res == "PANIC" then "fail:panic"
              else if w != wire then "fail:wire-is-not-encListing"
              else if wf then
                match expected c l with
                | some e => if res == e then "ok" else "fail:songs-differ-from-listing"
                | none => "ok"
              else "ok"
            | _ => if impl == "PANIC" then "fail:panic" else "fail:unparsable-result"
          { model := s!"{fmtResp r}@{wire}", oracle,
            branch := s!"lst-{cmdTag c}-{if wf then "wf" else "notwf"}{if hasOther l then "-mixed" else ""}-{outcomeTag r}" }
      | _, _ => bad "song-listing-args"
    | _ => bad "song-op"
  | _ => bad "song"

end Driver.Song
