import Mpd.Tag
import MpdSpec.Names
import Driver.Util
/-! Driver for family `tags` (C20). -/
namespace Driver.Tags
open Mpd Driver

def tagIdent : Tag → String
  | .named v => v.ident
  | .other _ => "Other"

def subIdent : Subsystem → String
  | .named v => v.ident
  | .other _ => "Other"

def parseTagSpec (s : String) : Option Tag :=
  match s.toList with
  | 'V' :: rest => (String.ofList rest).toNat?.bind fun i => (TagV.all[i]?).map Tag.named
  | 'O' :: rest => (unhex (String.ofList rest)).map Tag.other
  | 'T' :: rest => (unhex (String.ofList rest)).bind fun raw =>
      match Tag.tryFrom raw with
      | .ok t => some t
      | .error _ => none
  | _ => none

def fmtTry (r : Except TagErr Tag) : String :=
  match r with
  | .ok t => s!"ok:{tagIdent t}:{hex t.name}"
  | .error .empty => "err:empty"
  | .error (.invalidChar p) => s!"err:char:{p}"

def knownCI (raw : Bytes) : Bool := TagV.all.any fun v => eqIgnoreCase raw v.name

def oracleTry (raw : Bytes) (impl : String) : String :=
  let res : Option (Option (Bool × Bytes)) :=
    match impl.splitOn ":" with
    | ["ok", ident, hn] => (unhex hn).map fun n => some (ident == "Other", n)
    | "err" :: _ => some none
    | _ => none
  match res with
  | none => "fail:unparsable-result"
  | some r => if Spec.tagParseOk raw (knownCI raw) r then "ok" else "fail:tag-parse-spec"

def cmpStr (i : Int) : String := if i < 0 then "-1" else if i > 0 then "1" else "0"

def handle (toks : List String) (impl : String) : Verdict :=
  match toks with
  | ["tag.try", h] =>
    match unhex h with
    | none => bad "hex"
    | some raw =>
      let r := Tag.tryFrom raw
      { model := fmtTry r, oracle := oracleTry raw impl,
        branch := match r with
          | .ok (.named _) => "try-named"
          | .ok (.other _) => "try-other"
          | .error .empty => "try-empty"
          | .error _ => "try-badchar" }
  | ["tag.pair", a, b] =>
    match parseTagSpec a, parseTagSpec b with
    | some ta, some tb =>
      let eq := ta.eq tb
      let model := s!"na:{hex ta.name},nb:{hex tb.name},eq:{b01 eq},cmp:{cmpStr (ta.cmp tb)},pc:1,hash:{b01 (ta.hashInput == tb.hashInput)},map:{b01 eq},es:{b01 eq},ne:1,hs:{b01 eq}"
      let f := kv impl
      let oracle :=
        match lookup "na" f >>= unhex, lookup "nb" f >>= unhex with
        | some na, some nb =>
          let same := na == nb
          if lookup "eq" f != some (b01 same) then "fail:eq-not-by-name"
          else if lookup "cmp" f != some (cmpStr (cmpBytes na nb)) then "fail:cmp-not-by-name"
          else if lookup "pc" f != some "1" then "fail:partial-cmp-differs"
          else if same && lookup "hash" f != some "1" then "fail:hash-differs-for-equal"
          else if lookup "map" f != some (b01 same) then "fail:map-lookup"
          else if lookup "es" f != some (b01 same) then "fail:eq-with-str-not-by-name"
          else if lookup "ne" f != some "1" then "fail:ne-is-not-the-negation-of-eq"
          else if same && lookup "hs" f != some "1" then "fail:equal-tags-hash-differently-inside-a-slice"
          else "ok"
        | _, _ => "fail:unparsable-result"
      { model, oracle,
        branch := if eq then (if ta == tb then "pair-identical" else "pair-eq-across-variants") else "pair-ne" }
    | _, _ => { model := "badinput", oracle := if impl == "badinput" then "ok" else "fail:badinput", branch := "pair-bad" }
  | ["tag.rt", a] =>
    match parseTagSpec a with
    | some ta =>
      let rt := match Tag.tryFrom ta.name with
        | .ok t => b01 (t.eq ta)
        | .error _ => "err"
      let producible := !(a.startsWith "O")
      let f := kv impl
      { model := s!"n:{hex ta.name},rt:{rt}",
        oracle := if producible && lookup "rt" f != some "1" then "fail:roundtrip" else "ok",
        branch := if producible then "rt-producible" else s!"rt-handbuilt-{rt}" }
    | none => { model := "badinput", oracle := if impl == "badinput" then "ok" else "fail:badinput", branch := "rt-bad" }
  | ["sub.name", h] =>
    match unhex h with
    | none => bad "hex"
    | some raw =>
      let s := Subsystem.fromName raw
      let oracle :=
        if impl == "HANG" then "fail:the-event-for-the-reported-change-was-never-delivered" else
        match impl.splitOn "," with
        | [idn, "eq:1", "hash:1"] =>
          match idn.splitOn ":" with
          | [_, hn] => if unhex hn == some raw then "ok" else "fail:subsystem-name-not-preserved"
          | _ => "fail:unparsable-result"
        | _ => "fail:subsystem-eq-hash"
      { model := s!"{subIdent s}:{hex s.name},eq:{b01 (s.eq (.other raw))},hash:{b01 (s.hashInput == (Subsystem.other raw).hashInput)}",
        oracle, branch := match s with | .named _ => "sub-named" | .other _ => "sub-other" }
  | _ => bad "tags"

end Driver.Tags
