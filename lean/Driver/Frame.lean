import Mpd.Frame
import Mpd.FrameOps
import MpdSpec.FrameSpec
import Driver.Util
/-!
Driver for family `frame` (C19).

* model result: `FrameOps.run` on the slot-vector model of a frame built the way the parser builds
  it (`Frame.ofFields`), resp. `driveFrames` on the response assembled by `Assemble.run`;
* oracle: the implementation's outputs must equal `FrameSpec.runAbs` on the *abstract multimap*
  made of the op line's explicit field list (no slots, no holes), resp. the double-ended queue over
  `ok:0 … ok:n-1, err`.

The printers below define the canonical result format; `harness/src/frame.rs` prints the same.
-/
namespace Driver.Frame
open Mpd Mpd.FrameOps Mpd.FrameSpec Driver

/-! ## parsing the op line -/

def parseFields (s : String) : Option (List (Bytes × Bytes)) :=
  if s == "_" then some [] else
  (s.splitOn ",").mapM fun p =>
    match p.splitOn "=" with
    | [k, v] => do
      let k ← unhex k
      let v ← unhex v
      pure (k, v)
    | _ => none

def parseBinary (s : String) : Option (Option Bytes) :=
  if s == "none" then some none else (unhex s).map some

def parsePat (s : String) : Option (List Bool) :=
  s.toList.mapM fun c => if c == 'n' then some false else if c == 'b' then some true else none

def parseIPat (s : String) : Option (List IStep) :=
  s.toList.mapM fun c =>
    if c == 'n' then some IStep.next else if c == 'b' then some IStep.nextBack
    else if c == 't' then some IStep.takeBinary else none

def parseOp (s : String) : Option Op :=
  match s.splitOn ":" with
  | ["f", k] => (unhex k).map Op.find
  | ["g", k] => (unhex k).map Op.get
  | ["tb"] => some .takeBinary
  | ["bin"] => some .binary
  | ["len"] => some .len
  | ["empty"] => some .isEmpty
  | ["hasbin"] => some .hasBinary
  | ["all"] => some .iterAll
  | ["rev"] => some .iterBackAll
  | ["it", p] => (parsePat p).map Op.iterMixed
  | ["into", p] => (parseIPat p).map Op.into
  | _ => none

def isInto : Op → Bool
  | .into _ => true
  | _ => false

/-- `into` moves the frame: only allowed as the last op -/
def intoOnlyLast : List Op → Bool
  | [] => true
  | [_] => true
  | op :: rest => !isInto op && intoOnlyLast rest

def parseOps (s : String) : Option (List Op) :=
  if s == "_" then some [] else
  match (s.splitOn ",").mapM parseOp with
  | some ops => if intoOnlyLast ops then some ops else none
  | none => none

/-! ## canonical printer (identical in `harness/src/frame.rs`) -/

def optHex : Option Bytes → String
  | none => "none"
  | some b => hex b

def kvStr (p : Bytes × Bytes) : String := s!"{hex p.1}={hex p.2}"

def joinItems (l : List String) : String := if l.isEmpty then "_" else ",".intercalate l

def stepStr : StepOut → String
  | .kv none => "none"
  | .kv (some p) => kvStr p
  | .bin o => s!"b:{optHex o}"

def outStr : Out → String
  | .val o => optHex o
  | .nat n => toString n
  | .bool b => b01 b
  | .items l => joinItems (l.map kvStr)
  | .steps l => joinItems (l.map stepStr)

def outsStr (l : List Out) : String := if l.isEmpty then "_" else ";".intercalate (l.map outStr)

/-! ## branch tags -/

def opName : Op → String
  | .find _ => "f" | .get _ => "g" | .takeBinary => "tb" | .len => "len" | .isEmpty => "empty"
  | .hasBinary => "hasbin" | .binary => "bin" | .iterAll => "all" | .iterBackAll => "rev"
  | .iterMixed _ => "it" | .into _ => "into"

/-- does some successful `get` precede a later call that walks the slots? (decided on the spec side) -/
def holesSeen : AFrame → List Op → Bool
  | _, [] => false
  | f, .get k :: ops =>
    let r := f.get k
    (r.1.isSome && !ops.isEmpty) || holesSeen r.2 ops
  | f, _ :: ops => holesSeen f ops

def hasDup : List (Bytes × Bytes) → Bool
  | [] => false
  | p :: t => t.any (·.1 == p.1) || hasDup t

def hasCaseVariant (l : List (Bytes × Bytes)) : Bool :=
  l.any fun p => l.any fun q => p.1 != q.1 && eqIgnoreCase p.1 q.1

def frameBranch (fields : List (Bytes × Bytes)) (ops : List Op) : String :=
  if fields.isEmpty then "nofields"
  else if ops.isEmpty then "noops"
  else if holesSeen { fields := fields } ops then
    (if hasDup fields then "holes-dupkeys" else "holes")
  else if hasDup fields then "dupkeys"
  else if hasCaseVariant fields then "casekeys"
  else "plain"

/-- first op whose output differs (for the replay's reason) -/
def firstDiff (ops : List Op) (want got : List String) : String :=
  let rec go (i : Nat) : List Op → List String → List String → String
    | op :: ops, w :: ws, g :: gs => if w == g then go (i + 1) ops ws gs else s!"op{i}:{opName op}"
    | _, _, _ => s!"op{i}:count"
  go 0 ops want got

/-! ## responses -/

def hintStr (h : Nat × Option Nat) : String :=
  match h.2 with
  | some hi => s!"{h.1}/{hi}"
  | none => s!"{h.1}/x"

def itemStr : Option (Except Err Frame) → String
  | none => "none"
  | some (.ok f) =>
    match f.find (str "i") with
    | some v => s!"ok:{String.ofList (v.map fun b => Char.ofNat b.toNat)}"
    | none => "ok:e"
  | some (.error e) => s!"err:{e.code}.{e.commandIndex}"

def singleStr : Response.Single → String
  | .panic => "PANIC"
  | .val x => itemStr (some x)

/-- the components the parser produces for the wire of `resp.ops n haserr` -/
def respComps (n : Nat) (haserr : Bool) (part : Bool := false) : List Assemble.Comp :=
  ((List.range n).flatMap fun i => [.field (str "i") (natToDec i), .endOfFrame]) ++
    (if part && haserr then [.field (str "p") (str "x")] else []) ++
    [if haserr then .error { code := 5, commandIndex := n, message := str "boom" } else .endOfResponse]

def respModel (n : Nat) (haserr : Bool) (pat : List Bool) (part : Bool := false) : String :=
  match (Assemble.run .initial (respComps n haserr part)).1 with
  | [r] =>
    let d := driveFrames pat r.iter
    let body := ",".intercalate (hintStr r.iter.sizeHint :: d.map fun x => s!"{itemStr x.1}@{hintStr x.2}")
    s!"sf:{r.successfulFrames},e:{b01 r.isError},single:{singleStr r.intoSingleFrame};ref:{body};own:{body}"
  | _ => "model-no-response"

/-- SPEC: what the server sent, as a list of item names: the frames in order, then the error.
(`OK` alone — no `list_OK`, no error — is the reply to a single command: one empty frame.) -/
def respSpecItems (n : Nat) (haserr : Bool) : List String :=
  let frames := if n == 0 && !haserr then ["ok:e"] else (List.range n).map fun i => s!"ok:{i}"
  respItems frames (if haserr then some s!"err:5.{n}" else none) |>.map fun
    | .ok s => s
    | .error s => s

def respSpec (n : Nat) (haserr : Bool) (pat : List Bool) : String :=
  let items := respSpecItems n haserr
  let d := DQ.driveSized pat items
  let body := ",".intercalate
    (hintStr (items.length, some items.length) :: d.map fun x => s!"{x.1.getD "none"}@{hintStr x.2}")
  let nf := if n == 0 && !haserr then 1 else n
  s!"sf:{nf},e:{b01 haserr},single:{items.head?.getD "PANIC"};ref:{body};own:{body}"

def respDiff (want got : String) : String :=
  match want.splitOn ";", got.splitOn ";" with
  | [h1, r1, o1], [h2, r2, o2] =>
    if h1 != h2 then "fail:resp-accessors" else if r1 != r2 then "fail:frames-ref" else if o1 != o2 then "fail:frames-owned" else "ok"
  | _, _ => "fail:unparsable-result"

/-! ## entry -/

def handle (toks : List String) (impl : String) : Verdict :=
  match toks with
  | ["frame.ops", fs, bs, os] =>
    match parseFields fs, parseBinary bs, parseOps os with
    | some fields, some binary, some ops =>
      -- model: the slot vector the parser builds, driven through the concrete functions
      let model := outsStr (run (Frame.ofFields fields binary) ops)
      -- spec: the ordered multimap of the lines on the wire
      let specOuts := (runAbs { fields := fields, binary := binary } ops).map outStr
      let spec := if specOuts.isEmpty then "_" else ";".intercalate specOuts
      let oracle := if impl == spec then "ok" else s!"fail:{firstDiff ops specOuts (impl.splitOn ";")}"
      { model, oracle, branch := frameBranch fields ops }
    | _, _, _ => bad "frame"
  | ["frame.adapt", _, _, _] =>
    -- self-consistency of the iterator adaptors with plain next()/next_back() loops (which the
    -- `it:`/`into:` ops tie to the model); nothing to compute on the model side
    { model := "ok", oracle := if impl == "ok" then "ok" else if impl == "PANIC" then "fail:panic" else s!"fail:iterator-adaptor-{impl}",
      branch := "adapt" }
  | ["resp.ops", ns, es, ps] =>
    match ns.toNat?, (if es == "0" then some false else if es == "1" then some true else none),
          parsePat (if ps == "_" then "" else ps) with
    | some n, some haserr, some pat =>
      let spec := respSpec n haserr pat
      { model := respModel n haserr pat,
        oracle := if impl == spec then "ok" else respDiff spec impl,
        branch := if pat.isEmpty then "resp-nopattern" else if haserr then "resp-err" else "resp-ok" }
    | _, _, _ => bad "resp"
  | ["resp.ops", ns, es, ps, "p"] =>
    -- the failing command printed a field before its ACK: the SPEC is unchanged (partial output
    -- of a failed command is not a frame)
    match ns.toNat?, (if es == "1" then some true else none), parsePat (if ps == "_" then "" else ps) with
    | some n, some haserr, some pat =>
      let spec := respSpec n haserr pat
      { model := respModel n haserr pat true,
        oracle := if impl == spec then "ok" else respDiff spec impl,
        branch := "resp-err-partial" }
    | _, _, _ => bad "resp"
  | _ => bad "frame-family"

end Driver.Frame
